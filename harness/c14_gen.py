"""
Forms for C14: generic generated forms (gen.FormGen: nested repeats with ${refs}, so that the
survey-keyed caches are used) decorated with the inputs that reach every place where pyxform
iterates a Python `set`, reuses a module-level cache, or mutates an object during generation:

  sparse_itext   hint / guidance_hint / media columns present in one language only (`_add_empty_translations`)
  pulldata       pulldata() in several logic columns of one question (`EXTERNAL_INSTANCES`)
  or_other       `or_other` on a translated list (language set in xls2json)
  instance_label `instance('list')/root/item[...]/label` inside labels (token positions of the shared scanner)
  external       select_one_external + external_choices sheet, with or without `external_choices_header`
  search         search() appearance, alone (itemset redirect mutated on the survey) or mixed (error text)
  dup_id         settings with both id_string and form_id (input dict mutated: F23)
  dyn_default    the same default strings on date-like and other questions (cached token lists are shared)
  namespaces     2-4 custom XML namespaces in the settings sheet (and attributes using the prefixes), with or
                 without an entities sheet: every declaration made in `get_nsmap` must come out in input order
  dup_names      the same question name in several groups / repeats (legal while unreferenced), plus triggers,
                 dynamic defaults and a repeat: anything `xml()` records per *name* on the survey object is
                 ambiguous on the second `xml()`
  last_saved     `${last-saved#q}` in defaults, calculations, labels and choice filters (the `__last-saved`
                 instance element is created by a static method: anything shared between surveys shows there)
  lang_codes     translation languages `Name (code)` whose codes sit late in the IANA subtag files (tables that are
                 loaded lazily on first use), plus a few invalid ones
  plain_rows     rows that use only plain column names (type/name/label/hint/default + the deprecated `disabled`),
                 an external_choices sheet headed `list name`: what xls2json edits in place must be a copy
  nested_cells   dict input whose cells are already grouped (`control: {jr:count: …}`, `bind: {…}`): nested values
                 are shared with the caller unless copied
  settings_sweep every settings column the source knows (Survey slots, aliases, every `settings[...]`/`in settings`
                 key of xls2json, read from the repo under test), rare ones included (instance_id, instance_name,
                 public_key, omit_instanceID ...): whatever a setting writes must not outlive the conversion
  lists_langs    several choice lists translated into different language sets, or_other on the one with the
                 fewest languages, later lists introducing further languages: every set built over choices/languages
  type_sweep     one question of every type of the type table (all spellings), selects included
  param_sweep    every parameter family (range, text rows, image, audio/background-audio quality, geo accuracy,
                 select randomize/seed, select-from-file value/label, audit) with every subset of its parameters
                 given and the rest left to defaults, in shuffled order: any set iteration introduced in the
                 handling of defaults / parameters / attributes of some type shows up under another hash seed
  entities       entities sheet (get_nsmap appends to survey.namespaces: F36)
  missing_header required header absent (error text built from a set)
  twin           the same rows with every group <-> repeat swapped (same names/xpaths, different tree:
                 a cache keyed on strings instead of the survey object would confuse the twins)
"""

from __future__ import annotations

import copy
import random

import gen

LANG_POOL = ["en", "fr", "de", "sw", "English (en)", "French (fr)", "es", "pt"]
FEATURES = [
    "sparse_itext", "pulldata", "or_other", "instance_label", "external", "external_nohdr", "search",
    "search_mixed", "dup_id", "entities", "missing_header", "dyn_default", "namespaces",
    "dup_names", "type_sweep", "param_sweep", "last_saved", "lang_codes",
    "plain_rows", "nested_cells", "settings_sweep", "lists_langs", "plain",
]


def _questions(form):
    return [r for r in form["survey"] if not r.get("type", "").startswith(("begin ", "end ")) and "name" in r and "type" in r]


def _labelled(form):
    return [r for r in _questions(form) if any(k == "label" or k.startswith("label::") for k in r)]


def base_form(rng: random.Random, langs, big=False) -> dict:
    return gen.gen_form(
        rng,
        langs=langs,
        n=(2, 18 if big else 9),
        max_depth=3,
        p_group=0.15,
        p_repeat=0.2,
        p_select=0.3,
        p_logic=0.4,
        p_ref_in_label=0.4,
        p_hint=0.4,
        p_settings=0.3,
        plain_text=rng.random() < 0.7,
        types=[t for t in gen.SIMPLE_TYPES if t not in ("xml-external", "csv-external")],
    )


def add_sparse_itext(rng, form, langs):
    """hint / guidance / media in a strict subset of the languages (never in all of them)."""
    if len(langs) < 2:
        return
    qs = _labelled(form)
    for r in rng.sample(qs, k=min(len(qs), rng.randint(1, 4))):
        cols = rng.sample(["hint", "guidance_hint", "media::image", "media::audio", "media::video", "constraint_message"],
                          k=rng.randint(2, 4))
        for c in cols:
            lg = rng.choice(langs)
            r[f"{c}::{lg}"] = "x.png" if c.startswith("media") else gen.adv_text(rng, 3, plain=True)
        if "constraint_message" in cols and "constraint" not in r:
            r["constraint"] = ". != ''"


def add_pulldata(rng, form):
    qs = [r for r in _questions(form) if r["type"] in ("text", "integer", "decimal", "string", "int", "note")]
    if not qs:
        form["survey"].append({"type": "text", "name": "pd_q", "label": "PD"})
        qs = [form["survey"][-1]]
    for r in rng.sample(qs, k=min(len(qs), rng.randint(1, 2))):
        cols = rng.sample(["calculation", "constraint", "required", "relevant", "read_only"], k=rng.randint(2, 5))
        for i, c in enumerate(cols):
            fid = rng.choice(["fruits", "prices", "zeta", "alpha", "m1", "b2"]) + rng.choice(["", "_x", "2"])
            e = f"pulldata('{fid}', 'a', 'b', 'k{i}')"
            r[c] = e + (" != ''" if c != "calculation" else "")
        if rng.random() < 0.3:
            r["default"] = "pulldata('dflt', 'a', 'b', 'c')"


def add_or_other(rng, form, langs=()):
    if not any(r.get("type", "").startswith(("select_one ", "select_multiple ")) and "choice_filter" not in r
               for r in form["survey"]):
        form.setdefault("choices", []).extend(
            {"list_name": "oolist", "name": f"o{i}", **_lab(list(langs), f"O{i}")} for i in range(rng.randint(1, 3)))
        form["survey"].append({"type": "select_one oolist", "name": "oo_sel", **_lab(list(langs), "OO")})
    first = True
    for r in form["survey"]:
        t = r.get("type", "")
        if t.startswith(("select_one ", "select_multiple ")) and "choice_filter" not in r and (first or rng.random() < 0.6):
            if " or_other" not in t and len(t.split()) == 2:
                r["type"] = t + " or_other"
                first = False


def add_instance_label(rng, form, langs):
    """Labels / hints with an instance() path expression and a ${ref} in its predicate."""
    lists = sorted({c["list_name"] for c in form.get("choices", []) if c.get("list_name")})
    if not lists:
        form.setdefault("choices", []).append({"list_name": "ilist", "name": "a1", **_lab(langs, "A")})
        form["survey"].append({"type": "select_one ilist", "name": "isel", **_lab(langs, "I")})
        lists = ["ilist"]
    top = [r for r in form["survey"] if "name" in r]
    targets = [r["name"] for r in _questions(form)]
    if not targets:
        return
    n = rng.randint(1, 3)
    for i in range(n):
        ln = rng.choice(lists)
        t = rng.choice(targets)
        expr = rng.choice([
            f"instance('{ln}')/root/item[name = ${{{t}}}]/label",
            f"pre {gen.adv_text(rng, 2, plain=True)} instance('{ln}')/root/item[name=${{{t}}} and 1 = 1]/label post",
            f"instance('{ln}')/root/item[name = instance('{ln}')/root/item[name=${{{t}}}]/name ]/label ${{{t}}}",
        ])
        row = {"type": "note", "name": f"inote{i}"}
        if langs:
            for lg in langs:
                if rng.random() < 0.8:
                    row[f"label::{lg}"] = expr
            if len(row) == 2:
                row[f"label::{langs[0]}"] = expr
            if rng.random() < 0.5:
                row[f"hint::{rng.choice(langs)}"] = expr
        else:
            row["label"] = expr
            if rng.random() < 0.5:
                row["hint"] = expr
        form["survey"].append(row)


def _lab(langs, text):
    if not langs:
        return {"label": text}
    return {f"label::{lg}": f"{text} {lg}" for lg in langs}


def add_external(rng, form, langs, header=True):
    form["survey"].append({"type": "text", "name": "ext_state", **_lab(langs, "State")})
    form["survey"].append({"type": "select_one_external cities", "name": "ext_city", **_lab(langs, "City"),
                           "choice_filter": "state=${ext_state}"})
    extra = rng.sample(["state", "zeta", "alpha", "beta", "county", "m", "k9"], k=rng.randint(2, 5))
    if "state" not in extra:
        extra.append("state")
    rows = []
    for i in range(rng.randint(1, 4)):
        row = {"list_name": "cities", "name": f"c{i}", "label": f"City {i}"}
        for e in extra:
            if rng.random() < 0.7 or e == "state":
                row[e] = gen.adv_text(rng, 2, plain=True).strip() or "v"
        rows.append(row)
    form["external_choices"] = rows
    if not header:
        form["_no_external_header"] = True
    if not form.get("choices"):
        form["choices"] = [{"list_name": "dummy", "name": "d", **_lab(langs, "D")}]


def add_search(rng, form, langs, mixed=False):
    ch = form.setdefault("choices", [])
    k = rng.randint(1, 3) if mixed else 1
    for j in range(k):
        ln = f"slist{j}"
        for i in range(rng.randint(1, 3)):
            ch.append({"list_name": ln, "name": f"s{i}", **_lab(langs, f"S{i}")})
        form["survey"].append({"type": "select_one " + ln, "name": f"srch{j}", **_lab(langs, "Search"),
                               "appearance": rng.choice(["search('fruits')", "minimal search('fruits', 'contains', 'name', 'x')"])})
        if mixed:
            for m in range(rng.randint(1, 3)):
                form["survey"].append({"type": "select_one " + ln, "name": f"plain{j}_{m}", **_lab(langs, "Plain")})
        elif rng.random() < 0.5:
            form["survey"].append({"type": "select_multiple " + ln, "name": "srch_b", **_lab(langs, "Search2"),
                                   "appearance": "search('fruits')"})


def add_dyn_default(rng, form, langs):
    """The same default strings on questions of different types (`default_is_dynamic` parses them
    through the shared `parse_expression` cache and treats `-` differently for date-like types)."""
    pool = ["2 - 1", "x - y", "1 + 2", "2024-01-02", "a-b", "7 - 3 - 1", "now()"]
    for i in range(rng.randint(2, 5)):
        form["survey"].append({"type": rng.choice(["date", "text", "dateTime", "integer", "geopoint", "text"]),
                               "name": f"dd{i}", **_lab(langs, f"D{i}"), "default": rng.choice(pool)})


NS_POOL = [("esri", "http://esri.com/xforms"), ("enk", "http://enketo.org/xforms"), ("naf", "http://nafundi.com/xforms"),
           ("zz", "urn:example:zz"), ("a1", "http://a.example/1"), ("odk2", "http://example.org/odk2"), ("m", "urn:m")]


def add_namespaces(rng, form, with_entities=None):
    """Several custom namespace declarations (order shuffled, both quote styles) + attributes in them."""
    picks = rng.sample(NS_POOL, k=rng.randint(2, 4))
    decls = []
    for pfx, uri in picks:
        q = rng.choice(['"', "'", ""])
        decls.append(f"{pfx}={q}{uri}{q}")
    st = (form.get("settings") or [{}])[0]
    st["namespaces"] = rng.choice([" ", "  ", " "]).join(decls)
    form["settings"] = [st]
    qs = _questions(form)
    for r in rng.sample(qs, k=min(len(qs), rng.randint(0, 3))):
        pfx = rng.choice(picks)[0]
        r[rng.choice(["instance", "bind"]) + f"::{pfx}:" + rng.choice(["fieldType", "tag", "k"])] = rng.choice(["v", "esriFieldTypeString", "1"])
    if with_entities if with_entities is not None else rng.random() < 0.5:
        add_entities(rng, form)


def add_dup_names(rng, form, langs):
    """Sections that each hold a question of the same name; the name is never referenced."""
    shared = rng.sample(["name", "age", "note_", "dn1", "dn2", "when"], k=rng.randint(1, 3))
    n_sections = rng.randint(2, 4)
    for i in range(n_sections):
        kind = rng.choice(["group", "group", "repeat"])
        form["survey"].append({"type": f"begin {kind}", "name": f"dsec{i}", **_lab(langs, f"Section {i}")})
        for nm in shared:
            if rng.random() < 0.85 or nm == shared[0]:
                row = {"type": rng.choice(["text", "integer", "date", "note"]), "name": nm, **_lab(langs, nm)}
                if row["type"] != "note" and rng.random() < 0.3:
                    row["default"] = rng.choice(["now()", "1 + 1", "today()"])  # dynamic default -> setvalue
                form["survey"].append(row)
        form["survey"].append({"type": "text", "name": f"uniq{i}", **_lab(langs, f"U{i}")})
        form["survey"].append({"type": f"end {kind}"})
    # triggers on uniquely named, visible questions (setvalue / setgeopoint maps get populated)
    k = rng.randrange(n_sections)
    if rng.random() < 0.8:
        form["survey"].append({"type": rng.choice(["dateTime", "text"]), "name": "trg_ts", **_lab(langs, "T"),
                               "calculation": "now()", "trigger": f"${{uniq{k}}}"})
    if rng.random() < 0.4:
        form["survey"].append({"type": "background-geopoint", "name": "trg_geo", "trigger": f"${{uniq{rng.randrange(n_sections)}}}"})


PARAM_FAMILIES = [
    # (type, {parameter: [values]}, extra cells)
    ("range", {"start": ["1", "0", "0.5"], "end": ["10", "20", "7.5"], "step": ["1", "2", "0.5"]}, {}),
    ("text", {"rows": ["3", "5"]}, {}),
    ("image", {"max-pixels": ["640", "1024"], "app": ["com.example.camera"]}, {}),
    ("audio", {"quality": ["voice-only", "low", "normal", "external"]}, {}),
    ("background-audio", {"quality": ["voice-only", "low", "normal"]}, {}),
    ("geopoint", {"allow-mock-accuracy": ["true", "false"], "capture-accuracy": ["5", "2.5"], "warning-accuracy": ["50", "10"]}, {}),
    ("geotrace", {"allow-mock-accuracy": ["true", "false"]}, {}),
    ("geoshape", {"allow-mock-accuracy": ["true", "false"]}, {}),
    ("select_one pslist", {"randomize": ["true", "false"], "seed": ["42", "1.5"]}, {}),
    ("select_multiple pslist", {"randomize": ["true"], "seed": ["7"]}, {}),
    ("rank pslist", {"randomize": ["true"], "seed": ["3"]}, {}),
    ("select_one_from_file pfile.csv", {"value": ["code", "id"], "label": ["title", "lbl"]}, {}),
    ("select_multiple_from_file pfile2.xml", {"value": ["code"], "label": ["title"]}, {}),
    ("audit", {"location-priority": ["balanced", "high-accuracy"], "location-min-interval": ["60"], "location-max-age": ["120"],
               "track-changes": ["true", "false"], "identify-user": ["true"], "track-changes-reasons": ["on-form-edit"]}, {}),
]


def _subsets(rng, keys, limit=8):
    keys = list(keys)
    if len(keys) <= 3:
        out = [[k for i, k in enumerate(keys) if m >> i & 1] for m in range(2 ** len(keys))]
    else:
        out = [[], keys] + [rng.sample(keys, k=rng.randint(1, len(keys) - 1)) for _ in range(limit - 2)]
    return out


def add_param_sweep(rng, form, langs):
    """Every family, every subset of its parameters (the others are defaulted by pyxform)."""
    form.setdefault("choices", []).extend({"list_name": "pslist", "name": f"p{i}", **_lab(langs, f"P{i}")} for i in range(3))
    n = 0
    fams = list(PARAM_FAMILIES)
    rng.shuffle(fams)
    for typ, params, extra in fams:
        subsets = _subsets(rng, params)
        if typ == "audit":
            subsets = [ss for ss in subsets if len({"location-priority", "location-min-interval", "location-max-age"} & set(ss)) in (0, 3)][:1] \
                or [[]]                       # one audit per form; the location parameters come together
        for ss in subsets:
            ss = list(ss)
            rng.shuffle(ss)
            cell = rng.choice([" ", ";", ", "]).join(f"{k}={rng.choice(params[k])}" for k in ss)
            if typ.startswith(("select", "rank")) and "seed" in ss and "randomize" not in ss:
                continue                     # seed without randomize is an error by design
            row = {"type": typ, "name": "audit" if typ == "audit" else f"ps{n}", **extra}
            if typ not in ("audit", "background-audio"):
                row.update(_lab(langs, f"PS{n}"))
            if cell:
                row["parameters"] = cell
            n += 1
            form["survey"].append(row)


def add_type_sweep(rng, form, langs):
    """One row for every key of the type table."""
    import impl  # noqa: F401  (repo on sys.path)
    from pyxform.question_type_dictionary import QUESTION_TYPE_DICT

    form.setdefault("choices", []).extend({"list_name": "tslist", "name": f"t{i}", **_lab(langs, f"T{i}")} for i in range(2))
    types = sorted(QUESTION_TYPE_DICT)
    rng.shuffle(types)
    seen_audit = False
    for i, t in enumerate(types):
        ctrl = QUESTION_TYPE_DICT[t].get("control", {})
        bind = QUESTION_TYPE_DICT[t].get("bind", {})
        if t in ("osm", "select one external", "xml-external", "csv-external"):
            continue
        row = {"type": t, "name": f"ts{i}"}
        if t == "audit":
            if seen_audit:
                continue
            seen_audit = True
            row["name"] = "audit"
        if ctrl.get("tag") in ("select", "select1", "odk:rank"):
            continue                          # selects: every alias spelling below
        if ctrl and t not in ("audit", "background-audio", "background-geopoint", "hidden"):
            row.update(_lab(langs, f"TS{i}"))
        if t in ("calculate", "q calculate", "add calculate prompt"):
            row["calculation"] = "1 + 1"
        if t == "background-geopoint":
            row["trigger"] = "${ts_anchor}"
        form["survey"].append(row)
    from pyxform import aliases

    for j, sp in enumerate(sorted(aliases.select)):
        if "external" in sp or "file" in sp:
            continue
        form["survey"].append({"type": f"{sp} tslist", "name": f"tsel{j}", **_lab(langs, f"Sel{j}")})
    form["survey"].insert(0, {"type": "text", "name": "ts_anchor", **_lab(langs, "Anchor")})


def add_last_saved(rng, form, langs):
    form["survey"].insert(0, {"type": "text", "name": "ls_src", **_lab(langs, "Source")})
    form["survey"].insert(1, {"type": "integer", "name": "ls_num", **_lab(langs, "Number")})
    for i in range(rng.randint(1, 4)):
        src = rng.choice(["ls_src", "ls_num"])
        kind = rng.choice(["default", "calculation", "label", "relevant", "constraint"])
        row = {"type": "text", "name": f"ls{i}", **_lab(langs, f"LS{i}")}
        if kind == "default":
            row["default"] = f"${{last-saved#{src}}}"
        elif kind == "calculation":
            row = {"type": "calculate", "name": f"ls{i}", "calculation": f"concat(${{last-saved#{src}}}, 'x')"}
        elif kind == "label":
            row = {"type": "note", "name": f"ls{i}", **_lab(langs, f"Last time: ${{last-saved#{src}}}")}
        elif kind == "relevant":
            row["relevant"] = f"${{last-saved#{src}}} != ''"
        else:
            row["constraint"] = f". != ${{last-saved#{src}}}"
        form["survey"].append(row)


_TAIL_CODES = {}


def tail_codes():
    """valid subtags from the last third of each IANA file (file order), read from the repo under test"""
    if not _TAIL_CODES:
        import impl  # noqa: F401
        from pyxform.validators.pyxform.iana_subtags import validation

        for fn in ("iana_subtags_2_characters.txt", "iana_subtags_3_or_more_characters.txt"):
            lines = [ln.strip() for ln in open(validation.HERE / fn, encoding="utf-8") if ln.strip()]
            _TAIL_CODES[fn] = lines[len(lines) * 2 // 3:]
    return _TAIL_CODES


def make_lang_codes(rng, form):
    """Replace the form by a small translated one whose languages carry late-sorting codes."""
    tc = tail_codes()
    codes = rng.sample(tc["iana_subtags_3_or_more_characters.txt"], k=rng.randint(2, 4)) + \
        rng.sample(tc["iana_subtags_2_characters.txt"], k=rng.randint(0, 1))
    if rng.random() < 0.3:
        codes.append("qqqq")                      # not a subtag: the warning is expected for this one
    langs = [f"Lang{i} ({c})" for i, c in enumerate(codes)]
    form.clear()
    form["survey"] = [{"type": "text", "name": f"lc{i}", **_lab(langs, f"Q{i}")} for i in range(rng.randint(1, 3))]
    return langs


def make_plain_rows(rng, form):
    """Only plain column names; `disabled`; external_choices headed `list name`."""
    form.clear()
    rows = []
    for i in range(rng.randint(3, 7)):
        r = {"type": rng.choice(["text", "integer", "note", "date"]), "name": f"pr{i}", "label": f"Plain {i}"}
        if rng.random() < 0.4:
            r["hint"] = "h"
        if rng.random() < 0.3 and r["type"] == "text":
            r["default"] = "d"
        if rng.random() < 0.5:
            r["disabled"] = rng.choice(["yes", "no", "true", "false"])
        rows.append(r)
    if not any(r.get("disabled") in ("yes", "true") for r in rows):
        rows[0]["disabled"] = "yes"
    if all(r.get("disabled") in ("yes", "true") for r in rows):
        rows[-1].pop("disabled")
    form["survey"] = rows
    if rng.random() < 0.6:
        form["survey"].append({"type": "text", "name": "pr_state", "label": "State"})
        form["survey"].append({"type": "select_one_external pcities", "name": "pr_city", "label": "City", "choice_filter": "state=${pr_state}"})
        form["external_choices"] = [{"list name": "pcities", "name": f"c{i}", "label": f"C{i}", "state": "s"} for i in range(rng.randint(1, 3))]
        form["choices"] = [{"list_name": "dummy", "name": "d", "label": "D"}]


def add_nested_cells(rng, form):
    """Pre-grouped cells, as a caller building the dict by hand (or from JSON) may pass them."""
    form["survey"].insert(0, {"type": "integer", "name": "nc_n", "label": "N"})
    for i in range(rng.randint(1, 2)):
        form["survey"].append({"type": "text", "name": f"nc_q{i}", "label": f"NQ{i}",
                               "bind": {"relevant": "${nc_n} > 0", "required": "yes"},
                               "control": {"appearance": "multiline"}, "instance": {"tag": "v"}})
    if form.get("_nested_count", True):
        expr = rng.choice(["${nc_n} + 1", "2 + 1", "${nc_n}"])
        form["survey"] += [{"type": "begin repeat", "name": "nc_rep", "label": "R", "control": {"jr:count": expr}},
                           {"type": "text", "name": "nc_in", "label": "In"}, {"type": "end repeat"}]
    form.pop("_nested_count", None)


_SETTINGS_COLS = []
_STRUCTURAL = {"children", "type", "choices", "bind", "control", "parent", "extra_data", "media", "label", "hint", "instance", "flat",
               "entity_features", "setgeopoint_by_triggering_ref", "setvalues_by_triggering_ref", "file_name", "sms_field", "attribute",
               "delimiter"}
_SETTINGS_VALUES = {
    "title": "Sweep title", "form_title": "Sweep title", "set_form_title": "Sweep title", "id_string": "sweep_id", "form_id": "sweep_id",
    "set_form_id": "sweep_id", "version": "2024010101", "instance_id": "deviceid", "instance_name": "concat('i', 'n')",
    "public_key": "MIIBIjANBgkqhkiG9w0BAQEFAAOCAQ8AMIIBCgKCAQEA", "submission_url": "https://example.org/submission",
    "auto_send": "true", "auto_delete": "false", "style": "pages", "instance_xmlns": "http://example.org/xforms/sweep",
    "namespaces": 'esri="http://esri.com/xforms"', "name": "sweeproot", "prefix": "J1!sweep!", "allow_choice_duplicates": "yes",
    "clean_text_values": "yes", "add_none_option": "no", "omit_instanceID": "yes", "sms_keyword": "kw", "sms_separator": "+",
    "sms_allow_media": "no", "sms_date_format": "%Y-%m-%d", "sms_datetime_format": "%Y-%m-%d-%H:%M", "sms_response": "thanks",
}


def settings_columns():
    """every settings key the code under test reads: Survey slots, header aliases, and the literal keys used
    with `settings[...]`, `settings.get(...)`, `... in settings` in xls2json"""
    if not _SETTINGS_COLS:
        import inspect
        import re

        import impl  # noqa: F401
        from pyxform import aliases, xls2json
        from pyxform.survey import Survey

        src = inspect.getsource(xls2json)
        cols = set(re.findall(r'settings(?:\.get\(|\[)\s*["\']([\w:]+)["\']', src))
        cols |= set(re.findall(r'["\']([\w:]+)["\']\s+in\s+settings\b', src))
        cols |= set(aliases.settings_header) | {c for c in Survey.get_slot_names() if not c.startswith("_")}
        _SETTINGS_COLS.extend(sorted(cols - _STRUCTURAL))
    return _SETTINGS_COLS


def add_settings_sweep(rng, form, langs, omit=False):
    cols = list(settings_columns())
    st = {}
    seen_targets = set()
    for c in cols:
        if c == "omit_instanceID" and not omit:
            continue
        if omit and c in ("public_key", "instance_id"):
            continue
        # aliases of one target: only one spelling per form
        tgt = {"form_title": "title", "set_form_title": "title", "form_id": "id_string", "set_form_id": "id_string"}.get(c, c)
        if tgt in seen_targets:
            continue
        seen_targets.add(tgt)
        st[c] = _SETTINGS_VALUES.get(c, "v1")
    if langs:
        st["default_language"] = langs[0]
    else:
        st.pop("default_language", None)
    keys = list(st)
    rng.shuffle(keys)
    form["settings"] = [{k: st[k] for k in keys}]


def make_lists_langs(rng, form):
    """Lists with different language sets; or_other where the list has fewer languages than the sheet."""
    pool = rng.sample(LANG_POOL, k=rng.randint(4, 6))
    n_lists = rng.randint(2, 4)
    sizes = sorted(rng.randint(1, len(pool) - 2) for _ in range(n_lists))
    form.clear()
    survey, choices = [], []
    for li in range(n_lists):
        k = sizes[li] if li else 1                      # the first list: one language only
        langs = pool[:1] if li == 0 else rng.sample(pool, k=max(2, k))
        if li == n_lists - 1:
            langs = pool[-3:]                           # the last list introduces >= 2 languages nobody used before
        for ci in range(rng.randint(1, 3)):
            row = {"list_name": f"ll{li}", "name": f"c{ci}"}
            for lg in langs:
                if rng.random() < 0.85 or ci == 0:
                    row[f"label::{lg}"] = f"L{li}C{ci} {lg}"
            choices.append(row)
        typ = rng.choice(["select_one", "select_multiple"])
        other = " or_other" if li == 0 or rng.random() < 0.5 else ""
        survey.append({"type": f"{typ} ll{li}{other}", "name": f"llq{li}", f"label::{pool[0]}": f"Q{li}"})
    form["survey"] = survey
    form["choices"] = choices


def add_dup_id(rng, form):
    st = (form.get("settings") or [{}])[0]
    st["id_string"] = rng.choice(["one", "my_form"])
    st["form_id"] = rng.choice(["two", "my_form"])
    form["settings"] = [st]


def add_entities(rng, form):
    form["entities"] = [{"dataset": "trees", "label": "concat('e', 'x')"}]
    qs = [r for r in _questions(form) if r["type"] in ("text", "integer", "decimal")]
    # save_to only outside repeats/groups is not required by the spec, keep it simple: no save_to


def add_missing_header(rng, form):
    which = rng.choice(["survey", "choices"])
    if which == "survey" or not form.get("choices"):
        both = rng.random() < 0.5
        for r in form["survey"]:
            r.pop("type", None)
            if both:
                r.pop("name", None)
    else:
        for r in form["choices"]:
            r.pop("name", None)
            if rng.random() < 0.5:
                r.pop("list_name", None)


def twin(form: dict) -> dict:
    """Same rows, every group <-> repeat swapped."""
    t = copy.deepcopy(form)
    for r in t["survey"]:
        ty = r.get("type", "")
        for a, b in (("begin group", "begin repeat"), ("begin repeat", "begin group"),
                     ("end group", "end repeat"), ("end repeat", "end group")):
            if ty == a:
                r["type"] = b
                break
        if r.get("type") == "begin group":
            r.pop("repeat_count", None)
    return t


def gen_c14_form(rng: random.Random, feature: str | None = None, big=False, nl: int | None = None) -> tuple[dict, list[str]]:
    feats = [feature] if feature else rng.sample(FEATURES, k=rng.choice([1, 1, 2, 3]))
    nl_arg = nl
    if nl is None or (nl == 0 and "sparse_itext" in feats):
        nl = rng.choice([0, 2, 2, 3]) if not ({"sparse_itext"} & set(feats)) else rng.choice([2, 3, 4])
    langs = rng.sample(LANG_POOL, k=nl)
    form = base_form(rng, langs, big=big)
    # families that replace the form come first, the one that removes columns last
    replacing = ("lang_codes", "plain_rows", "lists_langs")
    feats = sorted(feats, key=lambda f: (f not in replacing, f == "missing_header"))
    for extra in [f for f in feats if f in replacing][1:]:
        feats.remove(extra)
    for f in feats:
        if f == "sparse_itext":
            add_sparse_itext(rng, form, langs)
        elif f == "pulldata":
            add_pulldata(rng, form)
        elif f == "or_other":
            add_or_other(rng, form, langs)
        elif f == "instance_label":
            add_instance_label(rng, form, langs)
        elif f == "external":
            add_external(rng, form, langs, header=True)
        elif f == "external_nohdr":
            add_external(rng, form, langs, header=False)
        elif f == "search":
            add_search(rng, form, langs, mixed=False)
        elif f == "search_mixed":
            add_search(rng, form, langs, mixed=True)
        elif f == "dup_id":
            add_dup_id(rng, form)
        elif f == "dyn_default":
            add_dyn_default(rng, form, langs)
        elif f == "namespaces":
            add_namespaces(rng, form)
        elif f == "settings_sweep":
            add_settings_sweep(rng, form, langs, omit=(nl_arg == 0) if nl_arg is not None else rng.random() < 0.3)
        elif f == "lists_langs":
            make_lists_langs(rng, form)
        elif f == "lang_codes":
            make_lang_codes(rng, form)
        elif f == "plain_rows":
            make_plain_rows(rng, form)
        elif f == "nested_cells":
            add_nested_cells(rng, form)
        elif f == "last_saved":
            add_last_saved(rng, form, langs)
        elif f == "param_sweep":
            add_param_sweep(rng, form, langs)
        elif f == "type_sweep":
            add_type_sweep(rng, form, langs)
        elif f == "dup_names":
            add_dup_names(rng, form, langs)
        elif f == "entities":
            add_entities(rng, form)
        elif f == "missing_header":
            add_missing_header(rng, form)
    return form, feats


def batch(rng: random.Random, n: int, big=False) -> list[dict]:
    """n cases {form, feats}: every feature once with two languages and once without, then free
    combinations; about a fifth of the cases are group<->repeat twins of the case before them."""
    out = []
    feats_cycle = list(FEATURES)
    rng.shuffle(feats_cycle)
    k = 0
    while len(out) < n:
        directed = k < len(feats_cycle) * 2
        f = feats_cycle[k % len(feats_cycle)] if directed else None
        nl = (2 if k < len(feats_cycle) else 0) if directed else None
        k += 1
        form, feats = gen_c14_form(rng, f, big=big, nl=nl)
        out.append({"form": form, "feats": feats})
        if rng.random() < 0.25 and len(out) < n and any(r.get("type", "").startswith("begin ") for r in form["survey"]):
            out.append({"form": twin(form), "feats": [*feats, "twin"]})
    return out[:n]
