"""
C12 — typed cells of the two spreadsheet backends (boolean, number, date / time / datetime, error, other
objects): the Lean model `Pyxv.Backends.Typed` (`xlsxCellText`, `xlsCellText`) against

* the module-level Python functions called directly on generated value objects
  (`xlsx_value_to_str` + `is_empty`; `xls_value_to_unicode` + `is_empty`), and
* the nested `xlsx_clean_cell` / `xls_clean_cell` through `xlsx_to_dict` (an openpyxl-written workbook, the
  values re-read with openpyxl as the decoder delivers them) and `xls_to_dict` (stand-in xlrd Book carrying
  arbitrary (ctype, value) cells, incl. the `except XLDateAmbiguous` clause);
* the statement of `datetime_container_independent` on the implementation.
"""

from __future__ import annotations

import datetime as dt
import decimal
import io
import json
import math
import random

import containers as C
from backends_fn import NBSP, compare

# --------------------------------------------------------------------------- encodings


def xlsx_json(v):
    """openpyxl value → the driver's encoding; None when outside the model (aware datetimes)."""
    if v is None or isinstance(v, bool) or type(v) is str:
        return v
    if isinstance(v, int):
        return {"t": "int", "v": int(v)}
    if isinstance(v, float):
        return {"t": "float", "i": int(v) if v.is_integer() else None, "repr": str(v)}
    if isinstance(v, dt.datetime):
        if v.tzinfo is not None:
            return {"t": "unsupported"}
        return {"t": "datetime", "f": [v.year, v.month, v.day, v.hour, v.minute, v.second, v.microsecond]}
    if isinstance(v, dt.time):
        if v.tzinfo is not None:
            return {"t": "unsupported"}
        return {"t": "time", "f": [v.hour, v.minute, v.second, v.microsecond]}
    return {"t": "other", "repr": str(v)}


def xls_json(ct, val, datemode):
    from xlrd.xldate import XLDateAmbiguous, XLDateError, xldate_as_tuple

    if ct in (0, 6):
        return {"ct": ct}
    if ct == 1:
        return {"ct": 1, "v": val}
    if ct == 2:
        return {"ct": 2, "i": int(val) if float(val).is_integer() else None, "repr": str(val)}
    if ct == 3:
        try:
            tup = list(xldate_as_tuple(val, datemode))
        except XLDateAmbiguous:
            tup = "ambiguous"
        except XLDateError:
            tup = "invalid"
        return {"ct": 3, "tup": tup}
    return {"ct": ct, "v": int(val)}


def py_xlsx_clean(v):
    """the three lines of the nested `xlsx_clean_cell` around the module-level functions"""
    from pyxform.xls2json_backends import is_empty, xlsx_value_to_str

    if isinstance(v, str):
        v = v.strip()
    if not is_empty(v):
        return xlsx_value_to_str(v)
    return None


def py_xls_clean(ct, val, datemode):
    """the lines of the nested `xls_clean_cell` around the module-level functions"""
    from pyxform.xls2json_backends import is_empty, xls_value_to_unicode
    from xlrd.xldate import XLDateAmbiguous, XLDateError

    if isinstance(val, str):
        val = val.strip()
    if not is_empty(val):
        try:
            return xls_value_to_unicode(val, ct, datemode)
        except XLDateAmbiguous:
            return {"err": "dateAmbiguous"}
        except XLDateError:
            return {"err": "dateInvalid"}
    return None


# --------------------------------------------------------------------------- generators

TEXTS = ["", " ", "x", " x ", NBSP, NBSP + "a" + NBSP + "b ", "TRUE", "0", "#DIV/0!", "#N/A", "a\nb", "\t", "2024-01-02", "12:00:00"]


class _Odd:
    def __str__(self):
        return "odd" + NBSP + "obj"


def rand_datetime(rng: random.Random, whole: bool = False) -> dt.datetime:
    us = 0 if whole or rng.random() < 0.5 else rng.choice([1, 10, 999999, 500000, rng.randrange(1000000)])
    y = rng.choice([1, 99, 999, 1900, 1904, 1970, 2024, 9999, rng.randint(1, 9999)])
    return dt.datetime(y, rng.randint(1, 12), rng.randint(1, 28), rng.choice([0, 0, 23, rng.randrange(24)]),
                       rng.choice([0, 59, rng.randrange(60)]), rng.choice([0, 59, rng.randrange(60)]), us)


def rand_xlsx_value(rng: random.Random):
    k = rng.randrange(12)
    if k == 0:
        return None
    if k == 1:
        return rng.choice(TEXTS)
    if k == 2:
        return rng.random() < 0.5
    if k == 3:
        return rng.choice([0, 1, -1, 10**15, rng.randint(-10**6, 10**6)])
    if k == 4:
        return float(rng.choice([0, -0.0, 1, -3, 2**53, 1e16, 1e22, rng.randint(-10**6, 10**6)]))
    if k == 5:
        return rng.choice([0.1, -2.75, 1e-7, 1 / 3, math.inf, -math.inf, math.nan, rng.uniform(-1e6, 1e6), rng.random()])
    if k in (6, 7):
        return rand_datetime(rng)
    if k == 8:
        d = rand_datetime(rng)
        return d.time()
    if k == 9:
        return rand_datetime(rng).date()
    if k == 10:
        return rng.choice([dt.timedelta(hours=rng.randint(0, 99), seconds=rng.randint(0, 99)), decimal.Decimal("1.50"), _Odd(), b"x", (1, 2)])
    return rng.choice([dt.datetime(2024, 1, 2, 3, 4, 5, tzinfo=dt.timezone.utc), dt.time(1, 2, 3, tzinfo=dt.timezone.utc)])


def rand_xldate(rng: random.Random) -> float:
    k = rng.randrange(8)
    if k == 0:
        return rng.choice([0.0, 0.5, 0.25, 0.999988, 0.999999, 1 / 86400, 0.000001])
    if k == 1:
        return rng.random()                                  # time only
    if k == 2:
        return rng.choice([1.0, 30.5, 59.0, 60.0, 60.5, 61.0, 61.5, 1462.0])   # the 1900 leap-year zone
    if k == 3:
        return rng.choice([-1.0, -0.5, 2958466.0, 3e6, 2958465.99999])
    if k == 4:
        return float(rng.randint(0, 2958465))
    return rng.uniform(0, 2958465)


def rand_xls_cell(rng: random.Random):
    k = rng.randrange(9)
    if k == 0:
        return (rng.choice([0, 6]), "")
    if k == 1:
        return (1, rng.choice(TEXTS))
    if k == 2:
        return (2, float(rng.choice([0, -0.0, 1, -3, 2**53, 1e16, 1e22, rng.randint(-10**6, 10**6)])))
    if k == 3:
        return (2, rng.choice([0.1, -2.75, 1e-7, 1 / 3, rng.uniform(-1e6, 1e6), rng.random()]))
    if k in (4, 5, 6):
        return (3, rand_xldate(rng))
    if k == 7:
        return (4, rng.choice([0, 1, 1, 2]))
    return (5, rng.choice([0x00, 0x07, 0x0F, 0x17, 0x1D, 0x24, 0x2A]))


# --------------------------------------------------------------------------- function-level correspondence


def xlsx_fn_case(ctx, values):
    enc = [xlsx_json(v) for v in values]
    keep = [(v, e) for v, e in zip(values, enc) if not (isinstance(e, dict) and e.get("t") == "unsupported")]
    ctx.count("fn:xlsx_value:unsupported", len(values) - len(keep))
    if not keep:
        return
    py = [py_xlsx_clean(v) for v, _ in keep]
    lean = ctx.driver.call("be.xlsx_cell_text", cells=[e for _, e in keep])
    for v, _ in keep:
        ctx.count("fn:xlsx_value:" + type(v).__name__)
    compare(ctx, "Typed.xlsxCellText vs is_empty + xlsx_value_to_str", {"values": [repr(v) for v, _ in keep]}, py, lean)


def xls_fn_case(ctx, cells, datemode):
    enc = [xls_json(ct, v, datemode) for ct, v in cells]
    py = [py_xls_clean(ct, v, datemode) for ct, v in cells]
    lean = ctx.driver.call("be.xls_cell_text", cells=enc)
    for (ct, _), p in zip(cells, py):
        ctx.count(f"fn:xls_value:ctype{ct}" + (":" + p["err"] if isinstance(p, dict) else ""))
    compare(ctx, "Typed.xlsCellText vs is_empty + xls_value_to_unicode", {"cells": [list(c) for c in cells], "datemode": datemode}, py, lean)


def datetime_statement_case(ctx, rng):
    """`datetime_container_independent` on the implementation: the xls text of a DATE cell = the xlsx text of the
    `datetime` / `time` object of the same (whole-second) moment."""
    from openpyxl.utils.datetime import to_excel
    from pyxform.xls2json_backends import xls_value_to_unicode, xlsx_value_to_str
    from xlrd.xldate import XLDateError

    if rng.random() < 0.3:
        t = rand_datetime(rng, whole=True).time()
        x = (t.hour * 3600 + t.minute * 60 + t.second) / 86400
        obj = t
    else:
        obj = rand_datetime(rng, whole=True).replace(year=rng.randint(1901, 9999))
        x = to_excel(obj)
    try:
        a = xls_value_to_unicode(x, 3, 0)
    except XLDateError:
        ctx.count("stmt:datetime_container_independent:xldate_error")
        return
    b = xlsx_value_to_str(obj)
    ctx.count("stmt:datetime_container_independent")
    compare(ctx, "datetime_container_independent on the implementation (xls DATE cell vs xlsx datetime/time)", {"xldate": x, "obj": repr(obj)}, a, b)


# --------------------------------------------------------------------------- whole readers


def _expected_rows(texts, ncols):
    rows = []
    for i in range(0, len(texts), ncols):
        r = [["type", "text"], ["name", f"q{i // ncols}"]]
        for j, t in enumerate(texts[i:i + ncols]):
            if t is not None:
                r.append([f"c{j}", t])
        rows.append(r)
    return rows


def xls_book_case(ctx, rng):
    from pyxform.errors import PyXFormError
    from pyxform.xls2json_backends import xls_to_dict

    ncols = 2
    cells = [rand_xls_cell(rng) for _ in range(ncols * rng.randint(1, 4))]
    if rng.random() < 0.7:      # most books without a failing date, so that the rows are compared
        cells = [c if not (c[0] == 3 and isinstance(py_xls_clean(*c, 0), dict)) else (3, 45000.25) for c in cells]
    hdr = [(1, "type"), (1, "name")] + [(1, f"c{j}") for j in range(ncols)]
    grid = [hdr] + [[(1, "text"), (1, f"q{i // ncols}")] + cells[i:i + ncols] for i in range(0, len(cells), ncols)]
    data = C.FAKE_XLS_MAGIC + json.dumps([{"name": "survey", "grid": [[list(c) for c in r] for r in grid]}]).encode("utf-8")
    lean = ctx.driver.call("be.xls_cell_text", cells=[xls_json(ct, v, 0) for ct, v in cells])
    err = next((t["err"] for t in lean if isinstance(t, dict)), None)
    model = {"outcome": err} if err else {"outcome": "ok", "rows": _expected_rows(lean, ncols)}
    try:
        book = xls_to_dict(io.BytesIO(data))
        py = {"outcome": "ok", "rows": [[[k, v] for k, v in r.items()] for r in book["survey"]]}
    except PyXFormError as e:
        py = {"outcome": "dateAmbiguous" if "invalid date" in str(e) else "PyXFormError"}
    except ValueError as e:
        py = {"outcome": "dateInvalid" if type(e).__name__.startswith("XLDate") else "ValueError"}
    ctx.count(f"pipe:xls_typed_book:{py['outcome']}")
    compare(ctx, "Typed.xlsCellText vs xls_to_dict (nested xls_clean_cell, stand-in Book)", {"cells": [list(c) for c in cells]}, py, model)


XLSX_WRITABLE = (type(None), str, bool, int, float, dt.datetime, dt.time, dt.date, dt.timedelta)


def xlsx_book_case(ctx, rng):
    import openpyxl
    from pyxform.xls2json_backends import xlsx_to_dict

    ncols = 2
    vals = []
    while len(vals) < ncols * rng.randint(1, 4):
        v = rand_xlsx_value(rng)
        if not isinstance(v, XLSX_WRITABLE) or (isinstance(v, float) and not math.isfinite(v)) or getattr(v, "tzinfo", None):
            continue
        if isinstance(v, dt.datetime | dt.date) and v.year < 1901:
            continue
        if isinstance(v, str) and ("\t" in v or "\n" in v):
            v = "x y"
        vals.append(v)
    wb = openpyxl.Workbook()
    ws = wb.active
    ws.title = "survey"
    ws.append(["type", "name"] + [f"c{j}" for j in range(ncols)])
    for i in range(0, len(vals), ncols):
        ws.append(["text", f"q{i // ncols}"] + vals[i:i + ncols])
    buf = io.BytesIO()
    wb.save(buf)
    data = buf.getvalue()
    # what the decoder delivers (same reader settings as xlsx_to_dict)
    rb = openpyxl.load_workbook(io.BytesIO(data), read_only=True, data_only=True)
    delivered = []
    for r_i, row in enumerate(rb["survey"].iter_rows(min_row=2, max_col=2 + ncols)):
        got = [c.value for c in row][2:]
        delivered += got + [None] * (ncols - len(got))
    rb.close()
    enc = [xlsx_json(v) for v in delivered]
    if any(isinstance(e, dict) and e.get("t") == "unsupported" for e in enc):
        ctx.count("pipe:xlsx_typed_book:unsupported")
        return
    lean = ctx.driver.call("be.xlsx_cell_text", cells=enc)
    book = xlsx_to_dict(io.BytesIO(data))
    py = [[[k, v] for k, v in r.items()] for r in book["survey"]]
    for v in delivered:
        ctx.count("pipe:xlsx_typed_cell:" + type(v).__name__)
    ctx.count("pipe:xlsx_typed_book")
    compare(ctx, "Typed.xlsxCellText vs xlsx_to_dict (nested xlsx_clean_cell, openpyxl file)",
            {"written": [repr(v) for v in vals], "delivered": [repr(v) for v in delivered]}, py, _expected_rows(lean, ncols))


# --------------------------------------------------------------------------- directed + driver

DIRECTED_XLSX = [None, "", " ", NBSP, " a" + NBSP, True, False, 0, 1, -5, 0.0, -0.0, 1.0, 1e22, 0.5, math.nan, math.inf,
                 dt.datetime(2024, 2, 29, 0, 0, 0), dt.datetime(1, 1, 1, 0, 0, 0, 1), dt.datetime(9999, 12, 31, 23, 59, 59, 999999),
                 dt.time(0, 0, 0), dt.time(23, 59, 59, 5), dt.date(2024, 1, 2), dt.timedelta(days=1, seconds=1), "#DIV/0!", _Odd()]
DIRECTED_XLS = [(0, ""), (6, ""), (1, ""), (1, " "), (1, NBSP + "a" + NBSP + "b"), (2, 0.0), (2, -0.0), (2, 3.0), (2, 1e22), (2, 0.5),
                (3, 0.0), (3, 0.5), (3, 0.999999), (3, 1.0), (3, 60.0), (3, 61.0), (3, 45000.0), (3, 45000.75), (3, -1.0), (3, 3e6),
                (4, 0), (4, 1), (4, 2), (5, 7), (5, 42), (5, 0)]


def explore_typed(ctx, rng: random.Random, n_fn: int, n_book: int, directed: bool = True):
    if directed:
        xlsx_fn_case(ctx, DIRECTED_XLSX)
        xls_fn_case(ctx, DIRECTED_XLS, 0)
        xls_fn_case(ctx, DIRECTED_XLS, 1)
    for _ in range(n_fn):
        xlsx_fn_case(ctx, [rand_xlsx_value(rng) for _ in range(10)])
        xls_fn_case(ctx, [rand_xls_cell(rng) for _ in range(10)], rng.choice([0, 0, 1]))
        datetime_statement_case(ctx, rng)
    for _ in range(n_book):
        xls_book_case(ctx, rng)
        xlsx_book_case(ctx, rng)
