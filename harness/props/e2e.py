"""
E2E — byte-level tie of the end-to-end composition `Pyxv.Convert.convert` (lean/Pyxv/Model/Convert.lean) to pyxform.

NOT a property check of its own (there is no property E2E, nothing in MANIFEST): `e2e_corr(ctx, n)` is an extra
correspondence stream of the C01 check (harness/props/c01.py).  For every generated workbook of the fragment the
XForm text `convert(xlsform=…, pretty_print=p).xform` must equal `convert wb p` of the model character for
character, for p = False and p = True; accept / reject verdicts must agree; outside the fragment the model answers
`unsupported` (counted: the fragment share is in the evidence).  Theorems about `convert`: Pyxv/Proofs/Convert.lean
(listed in lean/obligations.d/E2E.json under C01 / C02 / C04 / C15).

`./check E2E --tier quick|thorough [--seed N] [--replay path]` runs the stream alone through vcore.run_check.
"""

from __future__ import annotations

import copy

import gen
import impl
import vcore

PROP = "E2E"
RULE = (
    "generated single-language workbooks of the Convert fragment (text / integer / decimal / date / note / calculate / "
    "select_one / select_multiple, nested groups and repeats, relevant / required / constraint / calculation / "
    "read_only / messages / appearance / static default, ${ref} to top-level questions, choices, settings "
    "form_title / form_id / version) plus a share of forms that leave the fragment or must be rejected; distinct "
    "by canonical hash; non-trivial = converted by pyxform and answered byte-for-byte by the model"
)

FRAG_TYPES = ["text", "integer", "decimal", "date", "note", "calculate", "text", "integer"]
APPEARANCES = {
    "q": ["multiline", "numbers", "month-year", "minimal", "w1", "no-calendar"],
    "sel": ["minimal", "compact", "quick", "likert", "horizontal"],
    "group": ["field-list", "w2"],
    "repeat": ["compact", "field-list"],
}
STATIC_DEFAULTS = {
    "text": ["abc", "a b", "x", "42", "A < B", "1 & 2", "hello world"],
    "integer": ["1", "42", "-1"],
    "decimal": ["1.5", "2", "-0.25"],
    "date": ["2020-01-01"],
    "note": ["n"],
}
ADV_LABELS = ["a < b", "x & y", 'say "hi"', "it's", "  padded  ", "two  spaces", "é中", "tab\there", "a>b", "]]>", "&amp;",
              "“smart”", "line\nbreak", "<b>bold</b>"]


def _walk_rows(form):
    """(row, depth, in_repeat) for every survey row"""
    depth, reps = 0, 0
    stack = []
    for r in form["survey"]:
        t = r.get("type", "")
        if t.startswith("end "):
            if stack:
                k = stack.pop()
                reps -= k == "repeat"
            yield r, len(stack), reps > 0
            continue
        yield r, len(stack), reps > 0
        if t.startswith("begin "):
            k = t.split(" ")[1]
            stack.append(k)
            reps += k == "repeat"


def fragment_form(rng, big=False):
    """A workbook inside (mostly) the Convert fragment."""
    g = gen.FormGen(
        rng,
        n=(1, 24 if big else 12),
        max_depth=rng.choice([1, 2, 3, 4]),
        p_group=rng.choice([0.1, 0.2]),
        p_repeat=rng.choice([0.05, 0.15]),
        langs=[],
        plain_text=rng.random() < 0.7,
        p_select=0.25,
        p_logic=0.0,          # logic cells are added below (references restricted to top-level questions)
        p_ref_in_label=0.0,
        p_hint=0.3,
        p_default=0.0,
        p_settings=0.5,
        types=FRAG_TYPES,
        p_meta=0.0,
        p_repeat_count=0.0,
        adversarial_names=rng.random() < 0.6,
    )
    form = g.form()
    rows = form["survey"]
    # selects: only select_one / select_multiple
    for r in rows:
        t = r.get("type", "")
        if t.startswith("rank "):
            r["type"] = rng.choice(["select_one ", "select_multiple "]) + t.split(" ", 1)[1]
        if r.get("type", "").startswith(("select_one ", "select_multiple ")) and rng.random() < 0.2:
            r["type"] += rng.choice([" or_other", " or other", " or specify other"])
    # reference targets: every named element (questions at any depth, inside repeats, and a few sections)
    tops = [r["name"] for r, d, _ in _walk_rows(form)
            if "name" in r and (not r.get("type", "").startswith(("begin", "end")) or rng.random() < 0.15)]

    def expr(self_name):
        forms = [". > 0", "true()", "1 + 1", "string-length(.) < 10", ". != ''", "yes", "no"]
        cands = [t for t in tops if t != self_name] or tops
        if cands and rng.random() < 0.6:
            t = rng.choice(cands)
            forms = [f"${{{t}}} > 3", f"${{{t}}} = 'x'", f"concat(${{{t}}}, 'y')", f"not(${{{t}}} != '')",
                     f"${{{t}}}", f"if(${{{t}}} = 1, 'a', 'b')"]
            if len(cands) > 1:
                forms.append(f"${{{t}}} > ${{{rng.choice(cands)}}}")
        return rng.choice(forms)

    for r, depth, in_rep in _walk_rows(form):
        t = r.get("type", "")
        base = t.split(" ")[0]
        if t.startswith("end "):
            continue
        nm = r.get("name")
        if t.startswith("begin "):
            kind = t.split(" ")[1]
            if rng.random() < 0.2:
                r["relevant"] = expr(nm)
            if rng.random() < 0.2:
                r["appearance"] = rng.choice(APPEARANCES[kind])
            if rng.random() < 0.1 and tops:
                r["label"] = "Sec ${%s}" % rng.choice(tops)
            r.pop("repeat_count", None)
            if kind == "repeat" and rng.random() < 0.45:
                t_ = rng.choice(tops) if tops else None
                r["repeat_count"] = rng.choice(
                    ["3", "2 + 1", expr(nm), "${%s}" % t_, "${%s} + 1" % t_, "${%s} * ${%s}" % (t_, rng.choice(tops)),
                     "count-selected(${%s})" % t_, "2 * ${%s}" % t_] if tops else ["3"])
            continue
        if base == "calculate":
            r["calculation"] = expr(nm)
            if rng.random() < 0.15:
                r["label"] = g.text()
            continue
        if rng.random() < 0.3:
            r["relevant"] = expr(nm)
        if rng.random() < 0.25:
            r["required"] = rng.choice(["yes", "true()", "no", "Yes", "TRUE", expr(nm)])
            if rng.random() < 0.4:
                r["required_message"] = g.text()
        if rng.random() < 0.25 and base != "note":
            r["constraint"] = expr(nm)
            if rng.random() < 0.5:
                r["constraint_message"] = g.text()
        if rng.random() < 0.1:
            r["read_only"] = rng.choice(["yes", "no", "true()"])
        if rng.random() < 0.1 and base != "calculate" and "label" in r:
            r["calculation"] = expr(nm)
        if rng.random() < 0.2:
            r["appearance"] = rng.choice(APPEARANCES["sel" if base.startswith("select") else "q"])
        if rng.random() < 0.12 and base in ("text", "integer", "decimal", "date", "select_one", "select_multiple"):
            r["default"] = rng.choice(["now()", "today()", "1 + 2", "uuid()", expr(nm), "concat('a', 'b')", "-1 + 2", "random()"])
        elif rng.random() < 0.2:
            if base in STATIC_DEFAULTS:
                r["default"] = rng.choice(STATIC_DEFAULTS[base])
            elif base.startswith("select"):
                r["default"] = rng.choice(["a0", "b1", "x"])
        if rng.random() < 0.08:
            r[rng.choice(["label", "hint"])] = rng.choice(ADV_LABELS)
        if rng.random() < 0.15 and tops:
            # references in label / hint text: <output value="…"/> through the mixed channel
            k = rng.choice(["label", "hint", "label"])
            t = rng.choice(tops)
            r[k] = rng.choice(["See ${%s}", "${%s}", "a ${%s} b ${%s}", "x < ${%s} & y", "  ${%s}!", "${%s}${%s}"]).replace("%s", t)
        if rng.random() < 0.01:
            r.pop("label", None)          # hint only, or rejected ("no label or hint")
    for c in form.get("choices", []):
        if rng.random() < 0.1:
            c["label"] = rng.choice(ADV_LABELS)
    if rng.random() < 0.1 and form.get("choices"):
        form["choices"].append({"list_name": "spare", "name": "s", "label": "Spare"})
    # settings: custom attributes of the primary-instance root (`attribute::x`; prefixed ones with the always-declared
    # prefixes; local names that clash with id / version exercise minidom's eviction by local name)
    if rng.random() < 0.3:
        st = (form.get("settings") or [{}])[0]
        for _ in range(rng.randint(1, 3)):
            k = rng.choice(["foo", "abc", "orx:id", "odk:id", "jr:id", "version", "orx:version", "odk:prefix", "ex_1", "id",
                            "jr:foo", "odk:foo", "foo"])
            st["attribute::" + k] = rng.choice(["bar", "1", "a b", "x<y", "é"])
        if rng.random() < 0.2:
            st = dict(reversed(list(st.items())))
        form["settings"] = [st]
    # disabled rows (skipped before anything else) and audit rows (meta/audit), also disabled audits
    if rng.random() < 0.25:
        for r_ in rows:
            structural = r_.get("type", "").startswith(("begin", "end"))
            if rng.random() < (0.03 if structural else 0.3):
                r_["disabled"] = rng.choice(["yes", "no", "true", "TRUE", "false", "Yes"])
    if rng.random() < 0.15:
        a = {"type": "audit", "name": "audit"}
        if rng.random() < 0.4:
            a["disabled"] = rng.choice(["yes", "no", "true"])
        rows.insert(rng.randint(0, len(rows)), a)
        if rng.random() < 0.1:
            rows.append({"type": "audit", "name": "audit"})
    # a share of forms that leave the fragment (the model must say so) or that must be rejected
    r = rng.random()
    if r < 0.04 and rows:
        rng.choice(rows)["parameters"] = "rows=3"
    elif r < 0.08:
        for row in rows:
            if row.get("type", "").startswith("begin repeat"):
                row["repeat_count"] = "3"
                break
    elif r < 0.11:
        rows.append({"type": "geopoint", "name": "gp_x", "label": "Where"})
    elif r < 0.14 and tops:
        rows.append({"type": "text", "name": "lbl_ref_q", "label": rng.choice(["See ${nope_q}", "instance('x')/root/item[a=${%s}]/b" % tops[0], "${%s} is <b>bold</b>" % tops[0]])})
    elif r < 0.17 and len(rows) > 1:
        rows.append({"type": "text", "name": rows[0].get("name", "dupq"), "label": "dup"})
    elif r < 0.19:
        rows.append({"type": "end group"})
    elif r < 0.21:
        rows.append({"type": "text", "name": "dyn_q", "label": "Dyn", "default": "now()"})
    elif r < 0.23:
        rows.append({"type": "text", "name": "bad name", "label": "x"})
    elif r < 0.25:
        rows.append({"type": "text", "name": "ctl_q", "label": "a\x01b"})
    elif r < 0.28:
        rows.append({"type": "integer", "name": "unk_ref_q", "label": "U", "relevant": "${no_such_q} > 1"})
    elif r < 0.32 and tops:
        # the same name in two sections: fine unless it is referenced (then ambiguous → rejected)
        t = rng.choice(tops)
        rows += [{"type": "begin group", "name": "dupsec_g", "label": "G"}, {"type": "text", "name": t, "label": "again"},
                 {"type": "end group"}]
    elif r < 0.34:
        rows.append({"type": "calculate", "name": "idx_q", "calculation": "indexed-repeat(${%s}, ${%s}, 1)" % ((tops or ["x"])[0], (tops or ["x"])[-1])})
    elif r < 0.36:
        rows.append({"type": "text", "name": "mal_q", "label": "M", "relevant": "${ bad} > 1"})
    return form


def wb_args(form: dict) -> dict:
    """the workbook as the model receives it: header rows and (header, cell) pairs of the non-empty cells"""
    def rows_of(sheet):
        return [[[k, str(v)] for k, v in r.items() if v not in (None, "")] for r in form.get(sheet) or []]

    def cols_of(sheet):
        return impl.headers_of(form.get(sheet) or [], form.get(sheet + "_cols"))

    st = rows_of("settings")
    return {
        "survey_cols": cols_of("survey"), "survey": rows_of("survey"),
        "choice_cols": cols_of("choices"), "choices": rows_of("choices"),
        "settings_cols": cols_of("settings"), "settings": st[0] if st else None,
    }


def first_diff(a: str, b: str) -> str:
    i = 0
    while i < min(len(a), len(b)) and a[i] == b[i]:
        i += 1
    return f"@{i}: impl …{a[max(0, i - 60):i + 60]!r} / model …{b[max(0, i - 60):i + 60]!r}"


def e2e_case(ctx, form, record=True) -> None:
    if set(form) - {"survey", "choices", "settings"}:
        ctx.count("e2e:skipped (other sheets)")
        return
    m = ctx.driver.call("convert.model", **wb_args(form))
    r0 = impl.run(copy.deepcopy(form), pretty=False)
    answered = False
    if m["outcome"] == "unsupported":
        ctx.count("e2e:unsupported")
        ctx.count("e2e:unsupported: " + m.get("why", "?"))
    elif r0["class"] == "internal":
        # crashes are C17's subject; the composition has no outcome for them
        ctx.count("e2e:impl-internal")
    elif m["outcome"] == "rejected":
        ctx.count("e2e:answered")
        ctx.count("e2e:rejected")
        ctx.count("e2e:rejected: " + str(m.get("what")))
        if r0["ok"]:
            ctx.mismatch("e2e: model rejects, implementation converts", {"form": form}, "ok", m.get("what"))
    else:
        ctx.count("e2e:answered")
        if not r0["ok"]:
            ctx.mismatch("e2e: implementation rejects, model converts", {"form": form}, r0.get("msg", "")[:300], "ok")
        else:
            r1 = impl.run(copy.deepcopy(form), pretty=True)
            answered = True
            if r0["xform"] != m["compact"]:
                ctx.count("e2e:byte-mismatch")
                ctx.mismatch("e2e: XForm text differs (pretty_print=False)", {"form": form},
                             first_diff(r0["xform"], m["compact"]), "see impl")
            elif not r1["ok"] or r1["xform"] != m["pretty"]:
                ctx.count("e2e:byte-mismatch")
                ctx.mismatch("e2e: XForm text differs (pretty_print=True)", {"form": form},
                             first_diff(r1.get("xform", ""), m["pretty"]), "see impl")
            else:
                ctx.count("e2e:byte-exact")
                if '="../' in r0["xform"] or " ../" in r0["xform"]:
                    ctx.count("e2e:byte-exact with relative paths")
                if any(k.startswith("attribute::") for st_ in form.get("settings") or [] for k in st_):
                    ctx.count("e2e:byte-exact with attribute:: settings")
                if any("disabled" in r_ for r_ in form["survey"]):
                    ctx.count("e2e:byte-exact with disabled column")
                for key, pat in (("setvalue", "<setvalue "), ("jr:count", "jr:count="), ("or_other", "_other"), ("audit", "<audit/>")):
                    if pat in r0["xform"]:
                        ctx.count("e2e:byte-exact with " + key)
                if "<output " in r0["xform"]:
                    ctx.count("e2e:byte-exact with <output> in labels")
                    if '<output value=" ../' in r0["xform"]:
                        ctx.count("e2e:byte-exact with relative <output>")
    if record:
        ctx.record({"form": form}, answered)


# the workbook of the non-vacuity example in lean/Pyxv/Proofs/Convert.lean (`exWb`): the theorem `ex_convert` pins the
# model's text for it to the literal `exText`; running it here ties that literal to pyxform's own output
EX_WB = {
    "survey": [
        {"type": "text", "name": "q", "label": "Q & A"},
        {"type": "select_one yn", "name": "s", "label": "S"},
        {"type": "begin repeat", "name": "r", "label": "R", "relevant": "${q} = 'a'"},
        {"type": "integer", "name": "n", "label": "N"},
        {"type": "end repeat"},
    ],
    "choices": [{"list_name": "yn", "name": "y", "label": "Yes"}],
    "settings": [{"form_id": "f1"}],
}


DYN_PROBES = [["now()", "text"], ["today()", "date"], ["1 + 2", "integer"], ["${q} + 1", "integer"], ["abc", "text"],
              ["2020-01-01", "date"], ["a - b", "text"], ["uuid()", "text"], ["-1", "integer"], ["x | y", "text"]]


def lexer_tables_pinned(ctx) -> bool:
    """Model-side question only (the implementation is not consulted): does `Lexer.defaultIsDynamic` on the tables
    regenerated from this tree classify a probe set as the pinned lexicon does (`Lexer.dynamicPinned`, the one C10's
    theorems are about)?  When the translator cannot read `default_is_dynamic` of the tree (e.g. the function was
    restructured and the C10 slice has not followed yet) the regenerated sets are empty and every default is `static`
    for the model: the C10 check reports that; this stream then withholds `default` cells instead of reporting C10's
    pending model update once per workbook."""
    try:
        act = [ctx.driver.call("lexer.dynamic", s=s, type=t) for s, t in DYN_PROBES]
        pin = ctx.driver.call("lexer.pinned", items=DYN_PROBES)
    except vcore.Infra:
        return True
    return [a is True for a in act] == [bool(x) for x in pin]


def e2e_corr(ctx, n: int, big: bool = False, record: bool = False) -> None:
    """`n` generated workbooks through pyxform and through `convert.model`; byte-level comparison."""
    pinned = lexer_tables_pinned(ctx)
    if not pinned:
        ctx.notes["e2e_default_cells_withheld"] = (
            "Lexer.defaultIsDynamic on the regenerated tables differs from the pinned lexicon on the probe set: "
            "`default` cells are withheld from the generated workbooks (C10's model / translator has to follow this tree)")
    before = ctx.dist.get("e2e:byte-exact", 0)
    e2e_case(ctx, copy.deepcopy(EX_WB), record=record)
    if ctx.dist.get("e2e:byte-exact", 0) != before + 1 and not ctx.mismatches:
        ctx.mismatch("e2e: the example workbook of Proofs/Convert.lean is not converted byte-exactly", {"form": EX_WB}, "?", "?")
    for _ in range(n):
        form = fragment_form(ctx.rng, big=big)
        if not pinned:
            for r_ in form["survey"]:
                if r_.pop("default", None) is not None:
                    ctx.count("e2e:default cell withheld (Lexer tables not the pinned ones)")
        e2e_case(ctx, form, record=record)
    tot = ctx.dist.get("e2e:answered", 0) + ctx.dist.get("e2e:unsupported", 0)
    ctx.notes["e2e"] = {
        "forms": tot,
        "answered": ctx.dist.get("e2e:answered", 0),
        "byte_exact": ctx.dist.get("e2e:byte-exact", 0),
        "rejected_both": ctx.dist.get("e2e:rejected", 0),
        "unsupported": ctx.dist.get("e2e:unsupported", 0),
        "fragment_share": round(ctx.dist.get("e2e:answered", 0) / tot, 4) if tot else None,
    }


def explore(ctx, factor, bs):
    if factor > 1:
        # there is no oracle in this stream: a byte-level mismatch already carries its workbook, a search for an
        # oracle failure has nothing to find
        ctx.notes["search_skipped"] = "correspondence-only stream: the mismatches carry the workbooks"
        return
    e2e_corr(ctx, ctx.pick(1500, 20000) * factor, big=not ctx.quick(), record=True)


def replay(ctx, payload, bs):
    before = len(ctx.failures), len(ctx.mismatches)
    case = payload.get("case") or (payload.get("correspondence_mismatches") or [{}])[0].get("case")
    e2e_case(ctx, case["form"])
    return (len(ctx.failures), len(ctx.mismatches)) == before


def main(argv):
    return vcore.run_check(PROP, explore, RULE, matchers={}, replay=replay, argv=argv)
