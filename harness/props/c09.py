"""
C09 — choice lists survive intact and selects are wired to their own list.

Theorems: Pyxv/Proofs/C09.lean about the model Pyxv/Model/Choices.lean (grouping, instance items,
unique instance ids, search() inline only, itemset decision table, or_other, external sources declared
once, CSV round trip).
Tie: every generated workbook is converted by the implementation (/repo, in-process) and run through
the Lean model (`choices.model`); the C09 observation — secondary instances (id, src, ordered items as
(tag, text) lists), per select (itemset nodeset, value ref, label ref, inline items, query, or_other
companion), itemsets CSV (text and cell grid) — must be equal.  The oracle is the Lean spec
(`choices.holds`, `Pyxv.Choices.Spec`) evaluated on the implementation's own observation.
Function-level tie: `utils.external_choices_to_csv` / `csv.reader` against `itemsetsCsv` / `parseCsv`
on arbitrary headers, sparse rows and cell strings; `group_dictionaries_by_key` against `groupByKey`.
"""

from __future__ import annotations

import copy
import csv
import io

import c09gen
import c09obs
import impl
import vcore
from vcore import Failure

PROP = "C09"
RULE = (
    "generated workbooks: 0-5 choice lists of 1-8 choices (interleaved rows, shared / unused lists, sparse extra "
    "columns, duplicate names with the setting, translated / media / dynamic labels), 2-9 (quick) / 2-16 (thorough) "
    "survey rows nested to depth 3 with every select variant (select_one / multiple / rank and alias spellings, from "
    "file csv / xml / geojson, select_one_external + external_choices, select from repeat, or_other spellings, "
    "randomize / seed, value / label, search(), choice_filter), xml-/csv-external rows, pulldata() in every logic "
    "cell, ${last-saved#x}; plus direct calls of external_choices_to_csv and group_dictionaries_by_key on random "
    "tables; distinct by canonical hash; non-trivial = accepted and containing at least one select or instance source"
)

def cells(row: dict):
    """A sheet row as typed: ordered (header, cell) pairs, empty cells left out (as the backends do)."""
    return [[k, str(v)] for k, v in row.items() if v not in (None, "")]


def model_input(form: dict) -> dict:
    """The workbook as typed: raw headers, raw `parameters` cells.  Header dealiasing, parameter parsing and
    cell cleaning are the model's (Pyxv.Headers / Pyxv.Controls / Pyxv.Choices.cleanCell)."""
    wb = impl.wb_dict(form)

    def cols(sheet):
        h = wb.get(sheet + "_header")
        return list(h[0]) if h else []

    ext = form.get("external_choices")
    st = (form.get("settings") or [{}])[0]
    return {
        "root": "data",
        "choices": [cells(r) for r in form.get("choices", [])],
        "choices_cols": cols("choices"),
        "allow_dup": st.get("allow_choice_duplicates"),
        "survey": [cells(r) for r in form["survey"]],
        "survey_cols": cols("survey"),
        "ext_header": cols("external_choices") if ext is not None else [],
        "ext_rows": None if ext is None else [cells(r) for r in ext],
    }


def canon_obs(o: dict) -> dict:
    return {
        "instances": [{"id": i["id"], "src": i["src"], "items": i["items"], "xml": i.get("xml")} for i in o["instances"]],
        "selects": o["selects"],
        "csv": o["csv"],
        "csv_text": o["csv_text"],
    }


IMPL_ERR = [
    ("dupChoice", "Choice names must be unique"),
    ("noChoiceName", "Choices must have a name"),
    ("searchMixed", "uses 'search()', and its select type references"),
    ("dupExternal", "Instance names must be unique within a form"),
    ("idClash", "The same instance id will be generated for different external instance source URIs"),
]


def impl_err_kind(msg: str):
    for k, pat in IMPL_ERR:
        if pat in msg:
            return k
    return None


def diff_obs(a: dict, b: dict) -> str:
    for key in ("instances", "selects", "csv_text", "csv"):
        if a[key] != b[key]:
            if isinstance(a[key], list) and isinstance(b[key], list):
                if len(a[key]) != len(b[key]):
                    return f"{key}: {len(a[key])} vs {len(b[key])} entries: impl {a[key]} model {b[key]}"
                for x, y in zip(a[key], b[key]):
                    if x != y:
                        return f"{key}: impl {x} model {y}"
            return f"{key}: impl {a[key]!r} model {b[key]!r}"
    return ""


def form_case(ctx, form):
    case = {"form": form}
    r = impl.run(form)
    m = ctx.driver.call("choices.model", **model_input(form))
    ctx.count(f"impl:{r['class']}/model:{m['outcome']}")
    nontrivial = False
    if r["class"] == "internal":
        # crash classes belong to C17; the generator avoids the open ones.  A crash on a workbook the
        # model converts is a C09 failure as well (the select / list is not delivered at all).
        ctx.count("impl-internal:" + r.get("site", "?"))
        if m["outcome"] == "ok":
            ctx.mismatch("implementation raises " + r["msg"][:200] + ", model accepts", case, r["msg"][:300], "ok")
            ctx.fail(Failure("crash-in-fragment", "workbook inside the modelled fragment raises " + r["msg"][:200], case,
                             extra={"site": r.get("site", "")}))
    if r["ok"]:
        obs = c09obs.observe(r["xform"], r["itemsets"])
        nontrivial = bool(obs["selects"] or obs["instances"])
        for s in obs["selects"]:
            ctx.count("select:" + ("inline" if s["items"] else "query" if s["query"] else "itemset"))
            ns = (s["itemset"] or {}).get("nodeset") or s["query"] or ""
            if "../" in ns:
                ctx.count("select:relative-ref" + ("-current" if "current()/.." in ns else ""))
        ctx.count("instances", len(obs["instances"]))
        if obs["csv"] is not None:
            ctx.count("itemsets-csv")
        oracle(ctx, case, form, obs)
        if m["outcome"] == "ok":
            d = diff_obs(canon_obs(obs), canon_obs(m))
            if d:
                ctx.mismatch("observation: " + d[:600], case, "see detail", "see detail")
        elif m["outcome"] == "error":
            ctx.mismatch("model rejects (" + m["kind"] + "), implementation accepts", case, "ok", m["kind"])
            ctx.fail(Failure("accepted-" + m["kind"], f"workbook the model rejects with {m['kind']} was accepted", case))
    elif r["class"] == "pyxform":
        k = impl_err_kind(r["msg"])
        if m["outcome"] == "ok":
            ctx.mismatch("implementation rejects, model accepts: " + r["msg"][:200], case, r["msg"][:300], "ok")
            ctx.fail(Failure("rejected-valid", "workbook inside the modelled fragment rejected: " + r["msg"][:200], case))
        elif m["outcome"] == "error" and k != m["kind"]:
            ctx.mismatch(f"error kind: impl {k} model {m['kind']}", case, r["msg"][:300], m["kind"])
    ctx.record(case, nontrivial)


def oracle(ctx, case, form, obs):
    """The property's statements, evaluated by the Lean spec on the implementation's observation."""
    ids = {i["id"] for i in obs["instances"]}
    for rid in obs.get("reads", []):
        if rid not in ids:
            ctx.fail(Failure("instance-undeclared", f"the document reads instance('{rid}') but declares no instance of that id", case,
                             extra={"site": "survey._generate_instances"}))
    v = ctx.driver.call("choices.holds", obs=canon_obs(obs), **model_input(form))
    if v.get("skipped"):
        ctx.count("oracle-skipped:" + v["skipped"])
        return
    ctx.count("oracle-evaluated")
    for f in v["failures"]:
        ctx.fail(Failure(f["kind"], f["detail"][:500], case, extra={"site": f.get("site", "")}))


# ------------------------------------------------------------------ function-level ties

CELL_ATOMS = c09gen.CSV_ATOMS + ["“", "  ", "a b ", " lead"]


def csv_case(ctx):
    """external_choices_to_csv on a DefinitionData-like object vs itemsetsCsv / parseCsv."""
    from pyxform.utils import external_choices_to_csv
    from pyxform.xls2json_backends import DefinitionData

    rng = ctx.rng
    ncol = rng.randint(0, 5)
    header = []
    while len(header) < ncol:
        h = rng.choice(["list_name", "name", "label", "a", "b c", "x,y", 'q"', "é", "", "n\nl"])
        if h not in header:
            header.append(h)
    rows = []
    for _ in range(rng.randint(0, 6)):
        row = {}
        keys = list(header) + (["stray"] if rng.random() < 0.2 else [])
        rng.shuffle(keys)
        for h in keys:
            if rng.random() < 0.6:
                row[h] = "".join(rng.choice(CELL_ATOMS) for _ in range(rng.randint(0, 4)))
        rows.append(row)
    if rng.random() < 0.2:
        header = None  # no external_choices_header: first-seen order of the row keys (utils.py fallback)
    case = {"csv": {"header": header, "rows": rows}}
    return csv_check(ctx, case)


def csv_check(ctx, case):
    from pyxform.utils import external_choices_to_csv
    from pyxform.xls2json_backends import DefinitionData

    header, rows = case["csv"]["header"], case["csv"]["rows"]
    if not rows:
        ctx.record(case, False)
        return
    if header is None:
        dd = DefinitionData(external_choices=copy.deepcopy(rows))
        dd.external_choices_header = None
        header = list(dict.fromkeys(k for r in rows for k in r))
        hdr_arg = None
    else:
        dd = DefinitionData(external_choices=copy.deepcopy(rows), external_choices_header=[{h: None for h in header}])
        hdr_arg = header
    text = external_choices_to_csv(dd, [])
    grid = [list(r) for r in csv.reader(io.StringIO(text, newline=""))]
    m = ctx.driver.call("choices.csv", header=hdr_arg, rows=[[[k, v] for k, v in r.items()] for r in rows])
    if m["text"] != text:
        ctx.mismatch("external_choices_to_csv text", case, text, m["text"])
    if m["grid"] != grid:
        ctx.mismatch("csv.reader vs parseCsv", case, grid, m["grid"])
    # oracle (the property's statement): the cell grid is header :: rows by header
    want = [list(header)] + [[r.get(h, "") for h in header] for r in rows]
    if not header:
        want = [[] for _ in want]
    if grid != want:
        ctx.fail(Failure("csv-cells", f"itemsets CSV does not reproduce the sheet: got {grid} want {want}", case,
                         extra={"site": "utils.external_choices_to_csv"}))
    ctx.count("fn:csv")
    ctx.record(case, True)


def reader_case(ctx):
    """csv.reader vs parseCsv on arbitrary text (the reader also has to read other writer styles)."""
    rng = ctx.rng
    atoms = ['"', ",", "\r\n", "\n", "\r", "a", "b c", '""', " ", "x", '"a"', "é"]
    text = "".join(rng.choice(atoms) for _ in range(rng.randint(0, 10)))
    try:
        grid = [list(r) for r in csv.reader(io.StringIO(text, newline=""))]
    except csv.Error:
        return
    m = ctx.driver.call("choices.parsecsv", text=text)
    case = {"reader": text}
    if m != grid:
        ctx.mismatch("csv.reader vs parseCsv on free text", case, grid, m)
    ctx.count("fn:reader")
    ctx.record(case, False)


def group_case(ctx):
    from pyxform.xls2json import group_dictionaries_by_key

    rng = ctx.rng
    rows = []
    for _ in range(rng.randint(0, 9)):
        row = {}
        keys = ["list name", "name", "label", "x"]
        rng.shuffle(keys)
        for k in keys:
            if rng.random() < 0.75:
                row[k] = rng.choice(["a", "b", "c", "A", "a ", ""]) if k == "list name" else rng.choice(["1", "2", "x"])
        rows.append(row)
    case = {"group": rows}
    got = group_dictionaries_by_key(copy.deepcopy(rows), "list name")
    got = [[k, [[[a, b] for a, b in d.items()] for d in v]] for k, v in got.items()]
    m = ctx.driver.call("choices.group", key="list name", rows=[[[k, v] for k, v in r.items()] for r in rows])
    if m != got:
        ctx.mismatch("group_dictionaries_by_key", case, got, m)
    want = {}
    for r in rows:
        if "list name" in r:
            want.setdefault(r["list name"], []).append([[a, b] for a, b in r.items() if a != "list name"])
    if [[k, v] for k, v in want.items()] != got:
        ctx.fail(Failure("group-rows", f"grouping lost / reordered rows: {got}", case, extra={"site": "xls2json.group_dictionaries_by_key"}))
    ctx.count("fn:group")
    ctx.record(case, bool(rows))


class _RevSet(set):
    """A set whose iteration order is the reverse of the sorted order (membership unchanged)."""

    def __iter__(self):
        return iter(sorted(set.__iter__(self), reverse=True))


def order_probe(ctx, form=None):
    """F10 guard: the order of the instances of one question with pulldata() in several logic columns
    must not depend on the iteration order of the set constants.EXTERNAL_INSTANCES (PYTHONHASHSEED).
    The implementation is run with that set replaced by one that iterates in reverse sorted order."""
    from pyxform import constants

    rng = ctx.rng
    if form is None:
        cols = rng.sample(["calculation", "constraint", "relevant", "required", "read_only"], rng.randint(2, 5))
        row = {"type": "text", "name": "q", "label": "Q"}
        for i, c in enumerate(cols):
            row[c] = f"pulldata('file{i}', 'a', 'b', 'c') = 'x'"
        form = {"survey": [{"type": "text", "name": "p", "label": "P"}, row]}
    case = {"form": form, "probe": "set-order"}
    base = impl.run(form)
    saved = constants.EXTERNAL_INSTANCES
    constants.EXTERNAL_INSTANCES = _RevSet(saved)
    try:
        rev = impl.run(form)
    finally:
        constants.EXTERNAL_INSTANCES = saved
    ctx.count("probe:set-order")
    if base["ok"] and rev["ok"]:
        a = [i["id"] for i in c09obs.observe(base["xform"], None)["instances"]]
        b = [i["id"] for i in c09obs.observe(rev["xform"], None)["instances"]]
        if a != b:
            ctx.fail(Failure("instance-order-set-iteration",
                             f"order of the pulldata instances follows the iteration order of a set: {a} vs {b}", case,
                             extra={"site": "survey._generate_pulldata_instances"}))
    ctx.record(case, True)


def norm_attr(v: str) -> str:
    """XML attribute-value normalisation of a literal value (TAB, LF, CR -> space)."""
    return v.replace("\r\n", " ").replace("\t", " ").replace("\n", " ").replace("\r", " ")


def ws_listname_case(ctx, form=None):
    """Directed family (F42): list names that differ only in the kind of a whitespace character.  The ids are
    written raw into `<instance id=…>`; a reader normalises them, so the document can hold the same id twice."""
    rng = ctx.rng
    if form is None:
        base = rng.choice(["a", "my list", "x"])
        ws = rng.sample([" ", "\t", "\n"], 2)
        names = [base + w + "b" for w in ws] if rng.random() < 0.8 else [base + " b", base + "_b"]
        form = {"survey": [{"type": "text", "name": "q", "label": "Q"}],
                "choices": [{"list_name": n, "name": "c%d" % i, "label": "L"} for i, n in enumerate(names)]}
    case = {"form": form, "probe": "ws-listname"}
    r = impl.run(form)
    ctx.count("probe:ws-listname")
    if r["ok"]:
        ids = [i["id"] for i in c09obs.observe(r["xform"], None)["instances"]]
        if len(set(ids)) != len(ids):
            ctx.fail(Failure("instance-ids", f"instance ids are not unique in the document as read: {ids}", case,
                             extra={"site": "survey._generate_static_instances"}))
    ctx.record(case, True)


def match_f42(f: Failure) -> bool:
    """Duplicate ids in the document that come from two list names which differ as typed and coincide after
    attribute-value normalisation (nothing else makes two static instances share an id)."""
    if f.kind != "instance-ids":
        return False
    names = list(dict.fromkeys(r.get("list_name") for r in (f.case.get("form") or {}).get("choices", []) if r.get("list_name")))
    normed = [norm_attr(n) for n in names]
    return len(set(normed)) < len(names)


def last_saved_forms():
    """`${last-saved#q}` in exactly one position per form (nothing else in the form names the last-saved instance)."""
    ref = "${last-saved#q}"
    base = [{"type": "text", "name": "q", "label": "Q"}]
    ch = [{"list_name": "l", "name": "a", "label": "A"}, {"list_name": "l", "name": "b", "label": "B"}]
    ext = [{"list_name": "towns", "name": "n0", "label": "N", "a": "1"}]
    out = []
    for col in ("default", "calculation", "constraint", "relevant", "required", "read_only"):
        t = "calculate" if col == "calculation" else "text"
        row = {"type": t, "name": "t", col: f"{ref} = 'a'" if col != "default" else ref}
        if t == "text":
            row["label"] = "T"
        out.append({"survey": base + [row]})
    for col in ("relevant", "constraint", "default"):
        out.append({"survey": base + [{"type": "select_one l", "name": "s", "label": "S", col: (f"{ref} = 'a'" if col != "default" else ref)}], "choices": ch})
    out.append({"survey": base + [{"type": "begin group", "name": "g", "label": "G", "relevant": f"{ref} = 'a'"},
                                  {"type": "text", "name": "t", "label": "T"}, {"type": "end group"}]})
    cf = f"name = {ref}"
    out.append({"survey": base + [{"type": "select_one l", "name": "s", "label": "S", "choice_filter": cf}], "choices": ch})
    out.append({"survey": base + [{"type": "select_multiple l", "name": "s", "label": "S", "choice_filter": cf,
                                   "parameters": "randomize=true"}], "choices": ch})
    out.append({"survey": base + [{"type": "rank l", "name": "s", "label": "S", "choice_filter": cf}], "choices": ch})
    for f in ("f.csv", "d.xml", "g.geojson"):
        out.append({"survey": base + [{"type": f"select_one_from_file {f}", "name": "s", "label": "S", "choice_filter": cf}]})
    out.append({"survey": base + [{"type": "select_one l", "name": "s", "label": "S", "choice_filter": cf,
                                   "appearance": "search('fruits')"}], "choices": ch})
    out.append({"survey": base + [{"type": "select_one_external towns", "name": "s", "label": "S", "choice_filter": f"a = {ref}"}],
                "external_choices": ext, "external_choices_cols": ["list_name", "name", "label", "a"]})
    out.append({"survey": base + [{"type": "begin repeat", "name": "r", "label": "R"},
                                  {"type": "select_one_external towns", "name": "s", "label": "S", "choice_filter": f"a = {ref}"},
                                  {"type": "end repeat"}],
                "external_choices": ext, "external_choices_cols": ["list_name", "name", "label", "a"]})
    return out


def param_case_forms(rng):
    """from-file selects whose `value` / `label` parameters are typed with keys and values in mixed case: the
    refs must be the column names as typed, whatever the case of the key."""
    out = []
    for f in ("f.csv", "d.xml", "g.geojson"):
        for cmd in ("select_one_from_file", "select_multiple_from_file"):
            kv = rng.choice(["value", "Value", "VALUE", "vAlue"])
            kl = rng.choice(["label", "Label", "LABEL", "laBel"])
            vv = rng.choice(["Ward_ID", "wardId", "ID", "code"])
            vl = rng.choice(["Ward_Name", "nameEN", "Title", "lbl"])
            parts = [f"{kv}={vv}", f"{kl}={vl}"]
            if rng.random() < 0.5:
                parts.append(rng.choice(["randomize=TRUE", "Randomize=true", "RANDOMIZE=True"]))
            rng.shuffle(parts)
            sep = rng.choice([" ", ", ", ";"])
            if rng.random() < 0.3:
                parts = parts[:1]
            out.append({"survey": [{"type": "text", "name": "q", "label": "Q"},
                                   {"type": f"{cmd} {f}", "name": "s", "label": "S", "parameters": sep.join(parts)}]})
    return out


F41_FORM = {
    "survey": [{"type": "text", "name": "q", "label": "Q"},
               {"type": "select_one l", "name": "s", "label": "S"},
               {"type": "select_one_external towns", "name": "t", "label": "T", "choice_filter": "a=${q}"}],
    "choices": [{"list_name": "l", "name": "a", "label": "\u201cA\u201d  b", "x": "it\u2019s"}],
    "external_choices": [{"list_name": "towns", "name": "n0", "label": "\u201cOld\u201d Town", "a": "1"}],
    "external_choices_cols": ["list_name", "name", "label", "a"],
}
F42_FORM = {"survey": [{"type": "text", "name": "q", "label": "Q"}],
            "choices": [{"list_name": "a\tb", "name": "x", "label": "X"}, {"list_name": "a b", "name": "y", "label": "Y"}]}


def inline_query_forms(rng):
    """search() selects over every label shape (plain, some / all labels missing, translated, media, dynamic `${}`
    label) and list sizes 1 / 3 / 12 (two-digit itext index), and select_one_external rows whose filter carries
    a `${}` reference from the top level, a group and a repeat: the in-line items and the `query` the theorems
    `inline_items` / `external_query` are about, compared item by item with the implementation."""
    out = []
    q = {"type": "text", "name": "q", "label": "Q"}
    for shape in ("plain", "sparse", "nolabel", "translated", "media", "dynamic", "extras"):
        for n in (1, 3, 12):
            ch = []
            for i in range(n):
                r = {"list_name": "fr", "name": f"c{i}"}
                if shape in ("plain", "media", "extras") or (shape == "sparse" and i % 2 == 0):
                    r["label"] = rng.choice(["A", "b c", "x  y", "1", "it's"]) + str(i)
                if shape == "translated":
                    r["label::English (en)"] = f"E{i}"
                    if i % 2 == 0:
                        r["label::French (fr)"] = f"F{i}"
                if shape == "media" and i == n - 1:
                    r["media::image"] = "a.png"
                if shape == "dynamic":
                    r["label"] = f"L{i} ${{q}}" if i == n // 2 else f"L{i}"
                if shape == "extras":
                    r["geo"] = str(i)
                ch.append(r)
            other = [{"list_name": "zz", "name": "z", "label": "Z"}]
            rows = other + ch if rng.random() < 0.5 else ch + other
            cmd = rng.choice(["select_one", "select_multiple"])
            app = rng.choice(["search('fruits')", "minimal search('fruits')", "search('fruits', 'contains', 'name', ${q})"])
            sel = {"type": f"{cmd} fr", "name": "s", "label": "S", "appearance": app}
            survey = [q, sel, {"type": "select_one zz", "name": "u", "label": "U"}]
            if rng.random() < 0.5:
                survey = [q, {"type": "begin group", "name": "g", "label": "G"}, sel, {"type": "end group"}, survey[-1]]
            out.append({"survey": survey, "choices": rows})
    ext_cols = ["list_name", "name", "label", "a", "b"]
    for ln in ("towns", "t_2", "a.b"):
        ext = [{"list_name": ln, "name": "n0", "label": "N", "a": "1", "b": "x"},
               {"list_name": "rest", "name": "n1", "label": "M", "a": "2", "b": "y"}]
        for cf in ("a=${q}", "a = ${q} and b=${p}", "b='x'", "a=${q} or selected(${p}, b)"):
            sel = {"type": f"select_one_external {ln}", "name": "s", "label": "S", "choice_filter": cf}
            base = [q, {"type": "text", "name": "p", "label": "P"}]
            out.append({"survey": base + [sel], "external_choices": ext, "external_choices_cols": ext_cols})
            out.append({"survey": base + [{"type": "begin group", "name": "g", "label": "G"}, sel, {"type": "end group"}],
                        "external_choices": ext, "external_choices_cols": ext_cols})
            out.append({"survey": [q, {"type": "begin repeat", "name": "r", "label": "R"}, {"type": "text", "name": "p", "label": "P"},
                                   sel, {"type": "end repeat"}],
                        "external_choices": ext, "external_choices_cols": ext_cols})
    return out


def directed(ctx):
    """Seed-independent cases: one per open finding, the last-saved positions in isolation, mixed-case parameters."""
    form_case(ctx, copy.deepcopy(F41_FORM))
    ws_listname_case(ctx, copy.deepcopy(F42_FORM))
    form_case(ctx, copy.deepcopy(F47_FORM))
    for f in last_saved_forms():
        ctx.count("directed:last-saved-position")
        form_case(ctx, f)
    for f in param_case_forms(ctx.rng):
        ctx.count("directed:parameter-case")
        form_case(ctx, f)
    for f in inline_query_forms(ctx.rng):
        ctx.count("directed:inline-items" if "choices" in f else "directed:external-query")
        form_case(ctx, f)


def explore(ctx, factor, bs):
    directed(ctx)
    rng = ctx.rng
    n = ctx.pick(2000, 40000) * factor
    big = not ctx.quick()
    for i in range(n):
        form_case(ctx, c09gen.gen_form(rng, big=big))
    for i in range(ctx.pick(400, 6000) * factor):
        csv_case(ctx)
    for i in range(ctx.pick(400, 6000) * factor):
        reader_case(ctx)
    for i in range(ctx.pick(300, 3000) * factor):
        group_case(ctx)
    for i in range(ctx.pick(20, 100)):
        order_probe(ctx)
    for i in range(ctx.pick(10, 50)):
        ws_listname_case(ctx)
    ev = ctx.dist
    total = sum(v for k, v in ev.items() if k.startswith("impl:"))
    unsup = sum(v for k, v in ev.items() if k.startswith("impl:") and k.endswith("model:unsupported"))
    ctx.notes["fragment_share"] = round(1 - unsup / total, 4) if total else None


SMART_CHARS = "\u2018\u2019\u201c\u201d"


def match_f41(f: Failure) -> bool:
    """The only deviation from the sheet is the replacement of smart quotes (decided by the Lean oracle, which
    compares with the quote-normalised sheet) and the sheet in question does contain one."""
    form = f.case.get("form") or {}
    if "clean_text_values" not in f.extra.get("site", ""):
        return False
    if f.kind == "csv-smart-quotes":
        rows = form.get("external_choices") or []
    elif f.kind == "items-smart-quotes":
        rows = form.get("choices") or []
    else:
        return False
    return any(isinstance(v, str) and any(ch in v for ch in SMART_CHARS) for r in rows for v in r.values())


# regression case of the repaired finding F47 (a1c327a): last-saved read only by a repeat's bind
F47_FORM = {"survey": [{"type": "text", "name": "q", "label": "Q"},
                       {"type": "begin repeat", "name": "r", "label": "R", "relevant": "${last-saved#q} = 'a'"},
                       {"type": "text", "name": "t", "label": "T"}, {"type": "end repeat"}]}

MATCHERS = {"F41-smart-quotes-in-choice-cells": match_f41, "F42-list-names-whitespace-ids": match_f42}


def replay(ctx, payload, bs):
    before = len(ctx.failures), len(ctx.mismatches)
    case = payload.get("case") or (payload.get("correspondence_mismatches") or [{}])[0].get("case")
    if not case:
        return bs.proof_ok and bs.tables_ok
    if case.get("probe") == "ws-listname":
        ws_listname_case(ctx, case["form"])
    elif case.get("probe") == "set-order":
        order_probe(ctx, case["form"])
    elif "form" in case:
        form_case(ctx, case["form"])
    elif "csv" in case:
        csv_check(ctx, case)
    return (len(ctx.failures), len(ctx.mismatches)) == before


def main(argv):
    return vcore.run_check(PROP, explore, RULE, matchers=MATCHERS, replay=replay, argv=argv)
