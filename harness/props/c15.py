"""
C15 — pretty_print is purely cosmetic.

Theorem side: Pyxv/Proofs/XmlRoundTrip.lean (`pretty_cosmetic`, `render_parses_*`).
Tie: (a) the Lean writer `Xml.renderDoc` and the implementation's writer
(`DetachableElement.writexml`, `PatchedText.writexml`, minidom `_write_data`, `Survey._to_*_xml`)
are run on the same random DOM trees and must yield documents that *parse to the same tree*
(observation level: a change of serialisation style that an XML parser cannot see is not a
disagreement); (b) the oracle `stripWs (parse pretty) = stripWs (parse compact)` — the very
statement of the theorem — is evaluated by the Lean parser on the implementation's two outputs
for generated forms.  The Lean parser is cross-checked against expat on every document.
"""

from __future__ import annotations

import gen
import impl
import vcore
import xmlutil
from vcore import Failure

PROP = "C15"
RULE = (
    "random DOM trees (text / mixed / element-only content, PatchedText and stock Text, empty text, "
    "XML metacharacters) rendered by model and implementation in both modes and compared as parsed trees; "
    "generated forms (labels/hints mixing text with ${refs}, 0-2 languages, groups/repeats) converted in both "
    "modes and compared by the Lean oracle. distinct = canonical hash; non-trivial = tree with >= 1 element "
    "child or mixed content / form accepted by the converter"
)


def lean_parse(ctx, text):
    v = ctx.driver.call("xml.parse", text=text)
    return v["tree"] if v["ok"] else None


def check_parsers_agree(ctx, text, what, case):
    """Lean parser vs expat on one document: disagreement is an infrastructure error."""
    lt = lean_parse(ctx, text)
    et, err = xmlutil.expat_tree(text)
    if (lt is None) != (et is None) or (lt is not None and not xmlutil.tree_eq(lt, et)):
        raise vcore.Infra(f"Lean XML reader and expat disagree on {what}: lean={'ok' if lt else 'reject'} expat={err or 'ok'} text={text[:300]!r}")
    return lt


def tree_case(ctx, tree):
    """One random DOM tree through both writers, both modes."""
    obs = {}
    for pretty in (False, True):
        it = xmlutil.impl_render(tree, pretty)
        mt = ctx.driver.call("xml.render", tree=tree, pretty=pretty)
        ip = check_parsers_agree(ctx, it, "implementation writer output", tree)
        mp = lean_parse(ctx, mt)
        if (ip is None) != (mp is None) or (ip is not None and not xmlutil.tree_eq(ip, mp)):
            ctx.mismatch(f"Xml.renderDoc vs writexml (pretty={pretty})", tree, it, mt)
        ctx.count("bytes_equal" if it == mt else "bytes_differ")
        obs[pretty] = it
    v = ctx.driver.call("xml.c15", compact=obs[False], pretty=obs[True])
    if not v["ok"]:
        ctx.count("tree_not_wellformed")  # e.g. control characters: C01's business, not C15's
        ea, eb = xmlutil.expat_tree(obs[False])[0], xmlutil.expat_tree(obs[True])[0]
        if (ea is None) != (eb is None):
            ctx.fail(Failure("wellformed-in-one-mode-dom", f"compact well-formed: {ea is not None}; pretty well-formed: {eb is not None}",
                             {"kind": "dom", "tree": tree}, extra={"compact": obs[False], "pretty": obs[True]}))
    elif not v["equal"]:
        ctx.fail(Failure("pretty-differs-dom", "pretty and compact output of one DOM tree parse to different documents",
                         {"kind": "dom", "tree": tree}, extra={"compact": obs[False], "pretty": obs[True]}))
    nontrivial = any("t" in k for k in tree["k"]) or len(tree["k"]) > 1
    ctx.record({"dom": tree}, nontrivial)


def form_case(ctx, form, kw=None):
    kw = kw or {}
    a = impl.run(form, pretty=False, **kw)
    b = impl.run(form, pretty=True, **kw)
    ctx.count("form:" + a["class"])
    if a["class"] != b["class"]:
        ctx.fail(Failure("outcome-differs", f"compact: {a['class']} pretty: {b['class']}", {"kind": "form", "form": form}))
        ctx.record({"form": form}, True)
        return
    if not a["ok"]:
        ctx.record({"form": form}, False)
        return
    v = ctx.driver.call("xml.c15", compact=a["xform"], pretty=b["xform"])
    if not v["ok"]:
        ctx.count("form_not_wellformed")
        ea, eb = xmlutil.expat_tree(a["xform"])[0], xmlutil.expat_tree(b["xform"])[0]
        if (ea is None) != (eb is None):
            ctx.fail(Failure("wellformed-in-one-mode", f"compact well-formed: {ea is not None}; pretty well-formed: {eb is not None}",
                             {"kind": "form", "form": form}, extra={"compact": a["xform"], "pretty": b["xform"]}))
    elif not v["equal"]:
        ctx.fail(Failure("pretty-differs-form", "pretty and compact XForm parse to different documents",
                         {"kind": "form", "form": form}, extra={"compact": a["xform"], "pretty": b["xform"]}))
    else:
        # independent cross-check of the oracle's reader
        check_parsers_agree(ctx, b["xform"], "pretty XForm", form)
    ctx.record({"form": form}, True)


PARA = ["\n\n", "\n \n", "\n\t\n", "\n", "\r\n\r\n", "\n\n\n", " \n",
        # line/paragraph separators and spaces that Python's str methods (splitlines, isspace, strip)
        # treat as breaks/whitespace but XML does not
        "\u2028", "\u2029", "\x85", "a\u2028b", "\u3000", "\xa0", "\u2009", "\u2003\u2003"]
UNISPACE = ["\u3000", "\xa0", "\u2009", "\u2028", "\u2029", "\x85", "\u1680", "\u205f"]


def refs_only(rng, form):
    """Labels / hints made of references separated only by non-XML Unicode spaces (`${a}\u3000${b}`)."""
    names = [r["name"] for r in form["survey"] if "name" in r and not r.get("type", "").startswith(("begin", "end"))
             and r.get("type") in ("text", "integer", "decimal", "string", "int")]
    if len(names) < 2:
        return
    for row in form["survey"]:
        if row.get("type") in ("note", "text") and rng.random() < 0.5:
            others = [n for n in names if n != row.get("name")]
            if len(others) < 2:
                continue
            a, b = rng.sample(others, 2)
            sep = rng.choice(UNISPACE)
            for k in list(row):
                if k.split("::")[0] in ("label", "hint"):
                    row[k] = "${" + a + "}" + sep + "${" + b + "}" + rng.choice(["", sep])



def many_refs(rng, form):
    """Display text interpolating many answers (3..12 references separated by text): wide mixed content."""
    names = [r["name"] for r in form["survey"] if "name" in r and r.get("type") in ("text", "integer", "decimal", "string", "int")]
    if not names:
        return
    for row in form["survey"]:
        if row.get("type") in ("note", "text") and rng.random() < 0.6:
            others = [n for n in names if n != row.get("name")] or names
            for k in list(row):
                if k.split("::")[0] in ("label", "hint"):
                    n = rng.randint(3, 12)
                    parts = [rng.choice(["", "Summary: ", "x "])]
                    for i in range(n):
                        parts.append("${" + rng.choice(others) + "}")
                        parts.append(rng.choice([", ", " and ", "; age: ", " "]) if i < n - 1 else rng.choice(["", ".", " end"]))
                    row[k] = "".join(parts)


def multiline(rng, form):
    """Multi-paragraph cell text (blank and whitespace-only lines inside labels, hints, choice labels,
    defaults): text content that a line-oriented clean-up of the pretty output would damage."""
    for sheet in ("survey", "choices"):
        for row in form.get(sheet, []):
            for k in list(row):
                base = k.split("::")[0]
                if base in ("label", "hint", "constraint_message", "default") and isinstance(row[k], str) and rng.random() < 0.5:
                    if base == "default" and row.get("type") not in ("text", "string", "note"):
                        continue
                    cut = rng.randint(0, len(row[k]))
                    row[k] = row[k][:cut] + rng.choice(PARA) + row[k][cut:] + rng.choice(["", "", rng.choice(PARA) + "end"])


def explore(ctx, factor, bs):
    rng = ctx.rng
    n_trees = ctx.pick(400, 6000) * factor
    n_forms = ctx.pick(250, 5000) * factor
    for _ in range(n_trees):
        tree_case(ctx, xmlutil.random_tree(rng))
    for _ in range(n_forms):
        langs = rng.choice([[], [], ["en"], ["en", "fr"]])
        form = gen.gen_form(rng, langs=langs, plain_text=rng.random() < 0.3, p_ref_in_label=0.5, p_hint=0.6)
        if rng.random() < 0.35:
            multiline(rng, form)
            ctx.count("multiline_text")
        if rng.random() < 0.25:
            refs_only(rng, form)
            ctx.count("refs_only_unicode_space")
        if rng.random() < 0.2:
            many_refs(rng, form)
            ctx.count("many_refs_text")
        form_case(ctx, form)


def replay(ctx, payload, bs):
    case = payload["case"]
    before = len(ctx.failures)
    if case["kind"] == "dom":
        tree_case(ctx, case["tree"])
    else:
        form_case(ctx, case["form"])
    return len(ctx.failures) == before and not ctx.mismatches


def main(argv):
    return vcore.run_check(PROP, explore, RULE, matchers={}, replay=replay, argv=argv)
