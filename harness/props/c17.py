"""
C17 — broken forms are rejected with a located diagnosis; nothing ever crashes.

Theorems: Pyxv/Proofs/C17.lean (begin/end discipline of the row loop: `error_located`,
`stray_end_rejected`, `mismatched_end_rejected`, `unclosed_begin_rejected`, `bad_row_rejected`,
`balanced_accepted`) and Pyxv/Proofs/C17Rows.lean (row-level checks of `Rows.classify` lifted to whole
sheets: `blank_type_rejected`, `blank_name_rejected`, `invalid_name_rejected`, … and
`formOut_no_internal`), see lean/obligations.d/C17.json.

Check, three streams:

 D  directed reproductions of every open crash finding (deterministic; they print KNOWN-FINDING as
    long as the defect exists, and disappear when it is repaired);
 A  catalogue: valid generated form x every breaking mutation of DESIGN appendix B x every site where
    it applies.  Oracle (on the implementation): outcome class = PyXFormError — never a result, never
    an internal exception — and the message locates the problem as the catalogue's "must cite" column
    says (`c17_mut.located`).  Correspondence: where the Lean form model covers the mutation its
    outcome must be an error that the implementation's message matches (`formcommon.err_matches`:
    same row for row-level errors, same control / name for tree-level ones);
 B  vocabulary fuzz: arbitrary cells from the XLSForm vocabulary.  Oracle: class in {ok, pyxform}.
"""

from __future__ import annotations

import re

import c17_fuzz
import c17_mut
import formobs
import gen
import impl
import vcore
from props import formcommon
from vcore import Failure

PROP = "C17"
RULE = (
    "A: valid generated forms (3-14 rows quick / 3-30 thorough; groups, repeats, selects, or_other, calculate, "
    "translations) x the 54 catalogued mutations x every applicable site (distinct by canonical hash of the "
    "mutated workbook); B: vocabulary fuzz (fuzzed sheets; valid forms with fuzzed cells / rows / settings; "
    "odd-header and internal-slot vocabulary) ; D: 30 directed crash reproductions.  non-trivial = mutated or "
    "fuzzed workbook that reaches the converter with at least one survey row"
)

# ------------------------------------------------------------------------------- input shape

SKIP_TYPES = {"audit", "form id", "form title", "prefix", "set form id", "set form title"}  # rows that add no child
YES = {"yes", "true", "true()", "1", "y"}
SEL_MULT = ("select_multiple ", "select multiple ", "select all that apply ", "select_multiple_external ")
DICT_SLOTS = {"bind", "control", "media", "instance", "body"}
LANG_SLOTS = {"label", "hint", "guidance_hint", "constraint_message", "required_message", "image", "audio", "video",
              "big-image", "caption"}
MEDIA_KINDS = {"image", "audio", "video", "big-image"}
LEGIT_SETTINGS = {
    "form_title", "form_id", "version", "default_language", "public_key", "submission_url", "instance_name", "style",
    "name", "omit_instanceid", "allow_choice_duplicates", "clean_text_values", "auto_send", "auto_delete", "namespaces",
    "instance_xmlns", "sms_keyword", "sms_separator", "prefix", "delimiter", "sms_allow_media", "sms_date_format",
    "sms_datetime_format", "sms_response", "id_string", "title", "flat", "instance_id", "compact_tag",
    "compact_prefix", "compact_delimiter", "set_form_id", "set_form_title", "client_editable", "add_none_option",
}
SURVEY_INTERNAL_COLS = {"children", "choices", "itemset", "list_name", "parent", "extra_data", "tags", "columns",
                        "type_", "__row", "_itemset_dyn_label", "_itemset_has_media", "_itemset_multi_language"}
TYPE_CONFUSION = re.compile(
    r"'(dict|str)' object has no attribute|unhashable type: 'dict'|got 'dict'|'str' object does not support item"
    r"|tuple index out of range|dictionary update sequence|string indices must be|must be str, not dict"
    r"|can only concatenate|not supported between instances|'NoneType' object is not iterable"
    r"|expected str instance|argument of type|'dict' object is not callable|requires a 'str' object"
)


def snake(s):
    return "_".join(str(s).split()).lower()


def header_tokens(headers):
    """the harness's own reading of sheet_headers.process_header's splitting"""
    dbl = any("::" in h for h in headers)
    out = {}
    for h in headers:
        if dbl or "::" in h:
            toks = [t.strip() for t in h.split("::")]
        else:
            toks = [t.strip() for t in h.split(":")]
            if "jr" in toks:
                i = toks.index("jr")
                toks = toks[:i] + (["jr:" + toks[i + 1]] if i + 1 < len(toks) else ["jr:<missing>"]) + toks[i + 2:]
        out[h] = toks
    return out


def odd_headers(form) -> list[str]:
    """headers whose `::` shape contradicts the slot they land in (F14 family)"""
    odd = []
    for sheet in ("survey", "choices", "external_choices", "entities", "osm"):
        rows = form.get(sheet) or []
        hs = impl.headers_of(rows, form.get(sheet + "_cols"))
        for h, toks in header_tokens(hs).items():
            first = snake(toks[0])
            if "jr:<missing>" in toks or any(t == "" for t in toks):
                odd.append(f"{sheet}:{h}")
            elif len(toks) == 1:
                if first in DICT_SLOTS or (sheet != "survey" and first in ("bind", "control", "instance", "body")):
                    odd.append(f"{sheet}:{h}")
            else:
                if sheet == "entities":
                    odd.append(f"{sheet}:{h}")
                elif sheet == "survey" and first in DICT_SLOTS and len(toks) == 2 and first != "media":
                    pass
                elif sheet == "survey" and first == "bind" and len(toks) == 3 and toks[1] in ("jr:constraintMsg", "jr:requiredMsg", "jr:noAppErrorString"):
                    pass
                elif first == "media" and len(toks) in (2, 3) and toks[1] in MEDIA_KINDS:
                    pass
                elif first in LANG_SLOTS and len(toks) == 2:
                    pass
                else:
                    odd.append(f"{sheet}:{h}")
    return odd


def odd_settings(form) -> list[str]:
    out = []
    for row in form.get("settings") or []:
        for k in row:
            toks = header_tokens(list(row))[k]
            if snake(toks[0]) == "attribute" and len(toks) == 2:
                continue
            if len(toks) > 1 or snake(k) not in LEGIT_SETTINGS:
                out.append(k)
    return out


def ctype(row):
    return snake(row.get("type", "")).replace("_", " ")


def t_begin(t):
    return re.match(r"begin (group|repeat|loop)\b", t) is not None


def t_end(t):
    return re.match(r"end (group|repeat|loop)\b", t) is not None


def is_disabled(row):
    return str(row.get("disabled", "")).strip().lower() in YES


def empty_sections(form) -> bool:
    """a group / repeat (or the survey itself) that ends up without any child element"""
    stack = [0]
    hit = False
    for row in form.get("survey") or []:
        if is_disabled(row):
            continue
        t = ctype(row)
        if t_begin(t):
            stack[-1] += 1
            stack.append(0)
        elif t_end(t):
            if len(stack) > 1:
                if stack.pop() == 0:
                    hit = True
        elif t in ("group", "repeat", "loop"):  # bare control type: a section that can never get children
            hit = True
        elif t and t not in SKIP_TYPES:
            stack[-1] += 1
    return hit or stack[0] == 0


def any_type(form, pred):
    return any(pred(ctype(r), r) for r in form.get("survey") or [])


def ext_in_repeat_or_flat(form) -> bool:
    depth = []
    flat_all = bool(settings_of(form).get("flat"))
    for row in form.get("survey") or []:
        t = ctype(row)
        if t_begin(t):
            depth.append("repeat" in t or "flat" in row or flat_all)
        elif t_end(t):
            if depth:
                depth.pop()
        elif t in ("xml-external", "csv-external") and any(depth):
            return True
    return False


def max_depth(form) -> int:
    d = m = 0
    for row in form.get("survey") or []:
        t = ctype(row)
        if t_begin(t):
            d += 1
            m = max(m, d)
        elif t_end(t):
            d = max(0, d - 1)
    return m


def settings_of(form):
    st = form.get("settings") or []
    return st[0] if st else {}


def ctv_off(form):
    v = str(settings_of(form).get("clean_text_values", "yes")).strip().lower()
    return v in {"no", "false", "false()", "0", "n"}


def translated_unlabeled_lists(form):
    """lists that have a translated label on some choice and no label at all on another"""
    by = {}
    for c in form.get("choices") or []:
        by.setdefault(c.get("list_name", c.get("list name")), []).append(c)
    out = set()
    for ln, cs in by.items():
        tr = any(k.startswith("label::") or k.startswith("label:") for c in cs for k in c)
        un = any(not any(k == "label" or k.startswith("label:") for k in c) for c in cs)
        if tr and un:
            out.add(ln)
    return out


# single-token headers that dealias to a grouped column (bind::…, control::…, media::…)
GROUPED_ALIASES = set(formobs.CANON) | {"constraint_message", "required_message", "image", "audio", "video", "big-image",
                                        "body", "jr:count", "no_app_error_string", "requiredmsg", "constraintmsg"}


def blank_before_grouped(form) -> bool:
    """a whitespace-only cell followed, in the same row, by a grouped (`::` / `:`) column"""
    for sheet in ("survey", "choices", "settings", "external_choices", "entities"):
        rows = form.get(sheet) or []
        toks = header_tokens(impl.headers_of(rows, form.get(sheet + "_cols")))
        for row in rows:
            blank = False
            for k, v in row.items():
                grouped = len(toks.get(k, [k])) > 1 or snake(k) in GROUPED_ALIASES
                if blank and grouped and v not in (None, ""):
                    return True
                if isinstance(v, str) and v != "" and v.strip() == "":
                    blank = True
    return False


def default_lang_twice(form) -> bool:
    """a translatable column given unsuffixed, suffixed with the default language, and in a further language"""
    dl = str(settings_of(form).get("default_language", "default"))
    for sheet in ("survey", "choices"):
        hs = impl.headers_of(form.get(sheet) or [], form.get(sheet + "_cols"))
        toks = [header_tokens(hs)[h] for h in hs]
        for base in {t[0] for t in toks if len(t) == 1}:
            langs = {t[-1] for t in toks if len(t) > 1 and t[0] == base}
            if dl in langs and len(langs) > 1:
                return True
    return False


def ref_to_root(form) -> bool:
    """a ${reference} to an element whose xpath is just `/<root>`: the survey root itself (`data`, or the
    settings `name`), or — with the `flat` setting / a `flat` cell — a group or repeat"""
    root = str(settings_of(form).get("name", "data"))
    names = [root]
    if settings_of(form).get("flat") or any("flat" in r for r in form.get("survey") or []):
        names += [str(r.get("name")) for r in form.get("survey") or [] if t_begin(ctype(r)) and r.get("name")]
    pats = ["${" + n + "}" for n in names] + ["${last-saved#" + n + "}" for n in names]
    return any(p in str(v) for sheet in ("survey", "choices", "entities", "settings") for r in form.get(sheet) or []
               for v in r.values() for p in pats)


def shape(form) -> dict:
    if not isinstance(form, dict):
        return {}
    lists_choices = {c.get("list_name", c.get("list name")) for c in form.get("choices") or []}
    sel_lists = []
    for r in form.get("survey") or []:
        parts = str(r.get("type", "")).split()
        sel_lists.append(parts)
    return {
        "odd_headers": odd_headers(form),
        "odd_settings": odd_settings(form),
        "empty_section": empty_sections(form),
        "select_multiple_ref": any_type(form, lambda t, r: t.startswith(SEL_MULT) and "${" in t),
        "select_external_unlisted": any_type(
            form, lambda t, r: t.startswith(("select one external ", "select_one_external "))
            and (str(r.get("type")).split()[-1] if len(str(r.get("type")).split()) > 1 else "") not in lists_choices
            or (t.startswith("select one external ") and len(t.split()) > 3 and t.split()[3] not in lists_choices)),
        "ctv_off": ctv_off(form),
        "or_other_unlabeled": bool(translated_unlabeled_lists(form)) and any_type(
            form, lambda t, r: "other" in t and t.startswith(("select", "rank"))),
        "external_in_repeat": ext_in_repeat_or_flat(form),
        # a search() select to which no choices get attached (list is a ${reference}, or randomize without filter)
        "search_on_ref_select": any_type(
            form, lambda t, r: t.startswith("select") and any("search(" in str(v) for v in r.values())
            and ("${" in t or "randomize" in str(r.get("parameters", "")))),
        "search_unlabeled_choice": any_type(
            form, lambda t, r: t.startswith("select") and any("search(" in str(v) for v in r.values()))
        and any(not any(k == "label" or k.startswith("label:") for k in c) for c in form.get("choices") or []),
        "entities_no_dataset": any(not (e.get("dataset") or e.get("list_name")) for e in form.get("entities") or []),
        "internal_cols": sorted({snake(re.split(r"::|:", k)[0]) for r in form.get("survey") or [] for k in r} & SURVEY_INTERNAL_COLS),
        "blank_before_grouped": blank_before_grouped(form),
        "default_lang_twice": default_lang_twice(form),
        "depth": max_depth(form),
        "ref_to_root": ref_to_root(form),
        "table_list_unlisted": any("table-list" in str(v) for r in form.get("survey") or [] if t_begin(ctype(r)) for v in r.values())
        and any_type(form, lambda t, r: t.startswith(("select", "rank")) and len(str(r.get("type")).split()) > 1
                     and str(r.get("type")).split()[-1 if "other" not in t else 1] not in lists_choices),
        "osm_unlisted": bool(form.get("osm")) and any_type(
            form, lambda t, r: t.startswith("osm ") and t.split(" ", 1)[1] not in {c.get("list_name") for c in form.get("osm") or []}),
    }


# ------------------------------------------------------------------------------- matchers


def crash(f, exc, site_re):
    x = f.extra
    return f.kind == "internal-exception" and x.get("exc") in exc and re.search(site_re, x.get("site", "") or "") is not None


def sh(f):
    return f.extra.get("shape", {})


# Only defects still open on the tree with all approved fixes.  The repaired classes (F13-empty-section,
# F13-select-multiple-ref, F20, F26, F27, F31, F32, F33, F34-entities-no-dataset, F39-F43) have no matcher any more:
# their directed reproductions stay in stream D, so a regression comes back as a VIOLATION.
MATCHERS = {
    "F13-select-one-external-unlisted": lambda f: crash(f, {"KeyError"}, r"^xls2json\.py:add_choices_info_to_question$")
    and sh(f).get("select_external_unlisted"),
    "F14-header-shape": lambda f: f.kind == "internal-exception" and bool(sh(f).get("odd_headers"))
    and TYPE_CONFUSION.search(f.extra.get("msg", "")) is not None,
    "F22-settings-internal-slot": lambda f: f.kind == "internal-exception" and bool(sh(f).get("odd_settings"))
    and TYPE_CONFUSION.search(f.extra.get("msg", "")) is not None,
    "F30-deep-nesting": lambda f: f.kind == "internal-exception" and f.extra.get("exc") == "RecursionError"
    and sh(f).get("depth", 0) > 100,
    "F34-survey-internal-column": lambda f: f.kind == "internal-exception" and bool(sh(f).get("internal_cols"))
    and crash(f, {"KeyError", "AttributeError", "TypeError"},
              r"^(builder|survey_element|section|question|survey|utils)\.py:|^xls2json\.py:add_flat_annotations$"),
}

# ------------------------------------------------------------------------------- running one case


def S(*rows):
    return [dict(r) for r in rows]


def deep(n):
    return {"survey": S(*([{"type": "begin group", "name": f"g{i}", "label": "G"} for i in range(n)]
                          + [{"type": "text", "name": "a", "label": "A"}] + [{"type": "end group"}] * n))}


def directed_cases():
    """(expected finding, case) — minimal deterministic reproductions (DESIGN 7.2 F13..F34 + new ones)"""
    T = {"type": "text", "name": "a", "label": "A"}
    L = [{"list_name": "l", "name": "a", "label": "A"}]
    rep_q = S({"type": "begin repeat", "name": "r", "label": "R"}, {"type": "text", "name": "q", "label": "Q"}, {"type": "end repeat"})
    D = []

    def add(fid, form=None, via="dict", raw=None, file_type=None):
        D.append((fid, {"stream": "directed", "finding": fid, "via": via, "form": form, "raw": raw, "file_type": file_type}))

    add("F13-empty-section", {"survey": S({"type": "begin group", "name": "g", "label": "G"}, {"type": "end group"})})
    add("F13-empty-section", {"survey": S(T, {"type": "begin repeat", "name": "g", "label": "G"}, {"type": "end repeat"})})
    add("F13-empty-section", {"survey": [], "survey_cols": ["type", "name"], "settings": [{"omit_instanceID": "yes"}]})
    add("F13-select-multiple-ref", {"survey": rep_q + S({"type": "select_multiple ${q}", "name": "s", "label": "S"})})
    add("F13-select-one-external-unlisted", {"survey": S({"type": "select_one_external l", "name": "s", "label": "S"}),
                                             "external_choices": L})
    for col, val in (("trigger::x", "${a}"), ("parameters::x", "rows=3"), ("type::x", "text"), ("bind", "x"), ("x:jr", "x"),
                     ("label::en::x", "L"), ("media", "x.png"), ("default::x", "1"), ("name::x", "n")):
        add("F14-header-shape", {"survey": S(T, {"type": "text", "name": "b", "label": "B", col: val})})
    add("F14-header-shape", {"survey": S({"type": "select_one l", "name": "s", "label": "S"}),
                             "choices": [{"list_name": "l", "name": "a", "label": "A", "bind::x": "1"}]})
    add("F14-header-shape", {"survey": S({"type": "select_one l", "name": "s", "label": "S"}),
                             "choices": [{"list_name": "l", "name": "a", "label": "A", "media": "x.png"}]})
    add("F14-header-shape", {"survey": S(T), "entities": [{"dataset": "e", "dataset::x": "1", "label": "a"}]})
    add("F20-clean-text-off-choice-row", {"survey": S({"type": "select_one l", "name": "s", "label": "S"}),
                                          "choices": [{"list_name": "l", "name": "a"}], "settings": [{"clean_text_values": "no"}]})
    for k in ("children", "attribute", "bind", "name::x"):
        add("F22-settings-internal-slot", {"survey": S(T), "settings": [{k: "x"}]})
    add("F26-extra-sheet", via="dict_raw", raw={"survey": [dict(T)], "notes": [{"x": "y"}]})
    add("F26-extra-sheet", via="csv_raw", file_type=".csv",
        raw='"survey"\n,"type","name","label"\n,"text","a","A"\n"notes"\n,"x"\n,"y"\n')
    add("F27-md-ragged", via="md_raw", file_type=".md", raw="| survey |\n| | type | name |\n| | text | a | extra | more |\n")
    add("F27-md-ragged", via="md_raw", file_type=".md", raw="| survey |\n| | type | name | label |\n| | text | a | A |\n| choices |\n")
    add("F30-deep-nesting", deep(1200))
    add("F31-or-other-unlabeled", {"survey": S({"type": "select_one l or_other", "name": "s", "label": "S"}),
                                   "choices": [{"list_name": "l", "name": "a", "label::en": "A"}, {"list_name": "l", "name": "b"}]})
    add("F32-external-in-repeat", {"survey": S({"type": "begin repeat", "name": "r", "label": "R"}, {"type": "xml-external", "name": "q"},
                                               {"type": "text", "name": "t", "label": "T"}, {"type": "end repeat"})})
    add("F32-external-in-repeat", {"survey": S({"type": "begin group", "name": "g", "label": "G", "flat": "x"}, {"type": "csv-external", "name": "e"},
                                               {"type": "text", "name": "t", "label": "T"}, {"type": "end group"})})
    add("F33-search-on-ref-select", {"survey": rep_q + S({"type": "select_one ${q}", "name": "s", "label": "S", "appearance": "search('x')"})})
    add("F34-entities-no-dataset", {"survey": S(T), "entities": [{"label": "x"}]})
    add("F44-table-list-unlisted-select", {"survey": S({"type": "begin group", "name": "g", "label": "G", "appearance": "table-list"},
                                                       {"type": "select_one_from_file x.csv", "name": "s", "label": "S"}, {"type": "end group"})})
    add("F44-table-list-unlisted-select", {"survey": rep_q + S({"type": "begin group", "name": "g", "label": "G", "appearance": "field-list table-list"},
                                                               {"type": "select_one ${q}", "name": "s", "label": "S"}, {"type": "end group"})})
    add("F13-osm-unlisted", {"survey": S({"type": "osm nolist", "name": "o", "label": "O"}),
                             "osm": [{"list_name": "b", "name": "building", "label": "B"}]})
    add("F43-reference-to-root", {"survey": S({"type": "text", "name": "q", "label": "Q", "relevant": "${data} != ''"})})
    add("F43-reference-to-root", {"survey": S({"type": "begin group", "name": "g", "label": "G"},
                                              {"type": "text", "name": "q", "label": "Q ${data}"}, {"type": "end group"})})
    add("F43-reference-to-root", {"survey": S({"type": "begin group", "name": "g", "label": "G"},
                                              {"type": "text", "name": "q", "label": "Q", "relevant": "${g} = 1"}, {"type": "end group"}),
                                  "settings": [{"flat": "yes"}]})
    add("F34-survey-internal-column", {"survey": S({"type": "text", "name": "a", "label": "A", "children": "0"}), "settings": [{"flat": "yes"}]})
    add("F34-survey-internal-column", {"survey": S({"type": "text", "name": "a", "label": "A", "children::x": "0"})})
    add("F41-blank-cell-before-grouped-column", {"survey": S({"type": "text", "name": "a", "parameters": " ", "label::en": "A"})})
    add("F41-blank-cell-before-grouped-column", {"survey": S(T, {"type": "text", "name": "b", "trigger": " ", "label::en": "A"})})
    add("F41-blank-cell-before-grouped-column", {"survey": S({"type": "text", "name": " ", "label::en": "A"})})
    add("F42-default-language-column-twice", {"survey": S({"type": "text", "name": "q0", "label": "A", "label::fr": "B", "label::en": "C"}),
                                              "settings": [{"default_language": "en"}]})
    add("F42-default-language-column-twice", {"survey": S({"type": "text", "name": "q0", "label": "L", "hint": "A", "hint::fr": "B", "hint::default": "C"})})
    add("F33-search-on-ref-select", {"survey": S({"type": "select_one l", "name": "s", "label": "S", "appearance": "search('x')",
                                                  "parameters": "randomize=true"}), "choices": L})
    add("F40-search-unlabeled-choice", {"survey": S({"type": "select_one l", "name": "s", "label": "S", "appearance": "search('x')"}),
                                        "choices": L + [{"list_name": "l", "name": "b"}]})
    return D


def run_case(case):
    via = case.get("via", "dict")
    if via == "dict":
        return impl.run(case["form"])
    if via == "md":
        return impl.run(case["form"], via="md")
    if via == "dict_rename":
        wb = impl.wb_dict(case["form"])
        for a, b in case["rename"].items():
            for suf in ("", "_header"):
                if a + suf in wb:
                    wb[b + suf] = wb.pop(a + suf)
            wb["sheet_names"] = [b if x == a else x for x in wb["sheet_names"]]
        return impl.run_raw(wb)
    if via == "dict_raw":
        return impl.run_raw(case["raw"])
    return impl.run_raw(case["raw"], file_type=case["file_type"])


def check_no_internal(ctx, case, r):
    """stream-independent half of the oracle: the only outcomes are a result or PyXFormError"""
    if r["class"] != "internal":
        return True
    form = case.get("form") if case.get("form") is not None else case.get("raw")
    extra = {"exc": r.get("exc"), "site": r.get("site", ""), "sites": r.get("sites", []), "msg": r.get("msg", ""),
             "shape": shape(form), "via": case.get("via", "dict"), "stream": case.get("stream")}
    verdict = ctx.fail(Failure("internal-exception", f"{r.get('msg', '')[:160]} at {r.get('site', '')}", case,
                               signature=f"internal:{r.get('exc')}:{r.get('site')}", extra=extra))
    ctx.count(f"{case.get('stream')}:internal:{verdict}")
    return False


def model_call17(ctx, form, root="data"):
    """the row model with the repaired validation order (driver op `c17.model`, Pyxv.Rows17.formOut17)"""
    rows = [formobs.canon_cells(x) for x in form["survey"]]
    lists = sorted({x.get("list_name", x.get("list name", "")) for x in form.get("choices", [])})
    settings = formobs.canon_cells(form["settings"][0]) if form.get("settings") else []
    for k, v in settings:
        if k == "name":
            root = v
    return ctx.driver.call("c17.model", rows=rows, lists=lists, settings=settings, root=root)


def err_matches17(model_err, msg):
    if model_err["kind"] == "emptySection":
        return "has no questions or groups" in msg and f"'{model_err['name']}'" in msg
    return formcommon.err_matches(model_err, msg)


def catalogue_case(ctx, case):
    """one mutated form: implementation, oracle, model correspondence"""
    form, expect = case["form"], case["expect"]
    r = run_case(case)
    mid = case["mutation"]
    ctx.count(f"A:{mid}:{r['class']}")
    if not check_no_internal(ctx, case, r):
        return
    extra = {"mutation": mid, "site": case["site"], "expect": expect, "msg": r.get("msg", "")[:400]}
    if r["class"] == "ok":
        ctx.fail(Failure("accepted-broken", f"mutation {mid} at {case['site']} was accepted", case, extra=extra))
    else:
        ok, why = c17_mut.located(expect, r["msg"])
        if not ok:
            ctx.fail(Failure("not-located", f"mutation {mid} at {case['site']}: message {why}: {r['msg'][:200]!r}", case, extra=extra))
    if expect.get("model") and case.get("via", "dict") == "dict":
        m = model_call17(ctx, form)
        ctx.count(f"A:model:{m['outcome']}")
        if m["outcome"] == "unsupported":
            return
        if m["outcome"] == "ok":
            if r["class"] == "pyxform":
                ctx.mismatch(f"{mid}: implementation rejects, model accepts", case, r["msg"][:300], "ok")
        elif r["class"] == "ok":
            ctx.mismatch(f"{mid}: model rejects, implementation accepts", case, "ok", m["err"])
        elif not err_matches17(m["err"], r["msg"]):
            ctx.mismatch(f"{mid}: model and implementation locate different errors", case, r["msg"][:300], m["err"])
        elif "row" in expect and m["err"].get("row") not in (None, expect["row"]):
            ctx.mismatch(f"{mid}: model cites another row than the catalogue", case, expect["row"], m["err"])


SAFE_HEADER = re.compile(r"^(type|name|label(::\w+)?|hint(::\w+)?|relevant|constraint|constraint_message|required|required_message|"
                         r"calculation|default|appearance|choice_filter|repeat_count|read_only|readonly)$")


def cleaned(form):
    """the survey cells as `clean_text_values(strip_whitespace=True)` leaves them (the model starts there)"""
    f = dict(form)
    f["survey"] = [{k: (re.sub(r"( )+", " ", v.strip()) if isinstance(v, str) else v) for k, v in r.items()} for r in form["survey"]]
    return f


def fuzz_case(ctx, case, correspond=False):
    form = case["form"]
    r = run_case(case)
    ctx.count(f"B:{case['kind']}:{r['class']}")
    check_no_internal(ctx, case, r)
    if correspond and r["class"] == "ok" and form.get("survey") and not form.get("entities") and not form.get("osm"):
        hs = impl.headers_of(form["survey"], form.get("survey_cols"))
        if all(SAFE_HEADER.match(h) for h in hs) and all(set(c) <= {"list_name", "name", "label", "label::en", "label::fr"} for c in form.get("choices") or []):
            st = settings_of(form)
            if set(st) <= {"form_title", "form_id", "version", "default_language"}:
                m = model_call17(ctx, cleaned(form))
                ctx.count(f"B:model:{m['outcome']}")
                if m["outcome"] == "error":
                    ctx.mismatch("fuzz: model rejects, implementation accepts", case, "ok", m["err"])
                    ctx.fail(Failure("accepted-broken", f"workbook the row model rejects ({m['err']}) was accepted", case,
                                     extra={"mutation": "fuzz", "site": None}))


# ------------------------------------------------------------------------------- stream R: the row loop's partial operations

ALIAS_TOKENS = {k: v.split("::") for k, v in formobs.CANON.items()}
ALIAS_TOKENS.update({"constraint_message": ["bind", "jr:constraintMsg"], "required_message": ["bind", "jr:requiredMsg"]})


KNOWN_LOWER_COLS = {"type", "name", "label", "hint", "default", "parameters", "trigger", "choice_filter", "disabled", "bind",
                    "control", "media", "instance", "guidance_hint", "intent", "query", "list_name"}


def typed_rows(form):
    """the survey rows as header grouping leaves them: string cells, nested pair lists for grouped columns
    (the harness's own reading of sheet_headers.process_header / process_row for conflict-free rows)"""
    hs = impl.headers_of(form["survey"], form.get("survey_cols"))
    toks = header_tokens(hs)
    out = []
    for row in form["survey"]:
        cells = []

        def put(cells, path, v):
            for kv in cells:
                if kv[0] == path[0]:
                    if len(path) == 1 or not isinstance(kv[1], list):
                        return False
                    return put(kv[1], path[1:], v)
            cells.append([path[0], v] if len(path) == 1 else [path[0], []])
            return True if len(path) == 1 else put(cells[-1][1], path[1:], v)

        ok = True
        for h, v in row.items():
            if v in (None, ""):
                continue
            t = list(toks[h])
            first = snake(t[0])
            if first != t[0] and first not in ALIAS_TOKENS and first not in KNOWN_LOWER_COLS:
                first = t[0]  # "avoid changing unknown columns" (process_header): the original spelling is kept
            t = (ALIAS_TOKENS.get(first) or [first]) + t[1:]
            ok = put(cells, t, re.sub(r"( )+", " ", str(v).strip())) and ok
        if not ok:
            return None
        out.append(cells)
    return out


ROW_KINDS = [
    ("text", [{"type": "text", "name": "q", "label": "Q"}]),
    ("note-unnamed", [{"type": "note", "label": "N"}]),
    ("calculate", [{"type": "calculate", "name": "q", "calculation": "1 + 1"}]),
    ("group", [{"type": "begin group", "name": "g", "label": "G"}, {"type": "text", "name": "q", "label": "Q"}, {"type": "end group"}]),
    ("repeat", [{"type": "begin repeat", "name": "g", "label": "G", "repeat_count": "3"}, {"type": "text", "name": "q", "label": "Q"}, {"type": "end repeat"}]),
    ("select", [{"type": "select_one l", "name": "q", "label": "Q"}]),
    ("select-filter", [{"type": "select_multiple l", "name": "q", "label": "Q", "choice_filter": "name != 'x'"}]),
    ("select-external", [{"type": "select_one_external e", "name": "q", "label": "Q", "choice_filter": "x=1"}]),
    ("select-external-unfiltered", [{"type": "select_one_external e", "name": "q", "label": "Q"}]),
    ("select-external-listed", [{"type": "select_one_external l", "name": "q", "label": "Q"}]),
    ("select-file", [{"type": "select_one_from_file f.csv", "name": "q", "label": "Q"}]),
    ("select-randomize", [{"type": "select_one l", "name": "q", "label": "Q", "parameters": "randomize=true"}]),
    ("table-list", [{"type": "begin group", "name": "g", "label": "G", "appearance": "table-list"}, {"type": "select_one l", "name": "q", "label": "Q"},
                    {"type": "select_one l", "name": "q2", "label": "Q"}, {"type": "end group"}]),
    ("table-list-file", [{"type": "begin group", "name": "g", "label": "G", "appearance": "table-list"},
                         {"type": "select_one_from_file f.csv", "name": "q", "label": "Q"}, {"type": "end group"}]),
    ("table-list-after-text", [{"type": "begin group", "name": "g", "label": "G", "appearance": "field-list table-list"},
                               {"type": "text", "name": "t", "label": "T"}, {"type": "select_one_from_file f.xml", "name": "q", "label": "Q"}, {"type": "end group"}]),
    ("osm", [{"type": "osm b", "name": "q", "label": "Q"}]),
    ("osm-unlisted", [{"type": "osm nolist", "name": "q", "label": "Q"}]),
    ("osm-bare", [{"type": "osm", "name": "q", "label": "Q"}]),
    ("image", [{"type": "image", "name": "q", "label": "Q"}]),
    ("background-geopoint", [{"type": "text", "name": "w", "label": "W"}, {"type": "background-geopoint", "name": "q", "trigger": "${w}"}]),
    ("stray-end", [{"type": "text", "name": "q", "label": "Q"}, {"type": "end group"}]),
]
ODD_COLS = [None, ("bind", "x"), ("control", "x"), ("parameters::x", "rows=3"), ("disabled::x", "yes"), ("default::x", "1"),
            ("trigger::x", "${w}"), ("choice_filter::x", "a=1"), ("save_to::x", "p"), ("calculation::x", "1"),
            ("repeat_count::x", "2"), ("appearance::x", "minimal"), ("label::en", "L"), ("bind::foo", "bar"),
            ("hint", "H"), ("disabled", "yes"), ("disabled", "no"), ("name::x", "n"), ("relevant::x", "1")]


def rowloop_case(ctx, case):
    form = case["form"]
    r = run_case(case)
    check_no_internal(ctx, case, r)
    rows = typed_rows(form)
    if rows is None:
        ctx.count("R:skipped-conflicting-headers")
        return
    kw = dict(rows=rows, choices=sorted({c["list_name"] for c in form.get("choices") or []}),
              external=sorted({c["list_name"] for c in form.get("external_choices") or []}),
              hasExternal=bool(form.get("external_choices")), hasEntities=bool(form.get("entities")))
    if form.get("osm"):
        kw["osm"] = sorted({c["list_name"] for c in form["osm"]})
    m = ctx.driver.call("c17.rowloop", **kw)
    in_loop = r["class"] == "internal" and any("workbook_to_json" in s or "dealias_types" in s for s in r.get("sites", []) + [r.get("site", "")])
    ctx.count(f"R:model:{m['outcome']}/impl:{'rowloop-internal' if in_loop else r['class']}/guard:{m['guard']}")
    if m["outcome"] == "internal":
        if not (in_loop and r.get("exc") == m["exc"] and r.get("site") == m["site"]):
            ctx.mismatch("row loop: model predicts an internal exception the implementation does not raise there", case,
                         {k: r.get(k) for k in ("class", "exc", "site", "msg")}, m)
        if m["guard"]:
            ctx.mismatch("row loop: internal outcome although the guard holds (contradicts rowLoop_no_internal)", case, None, m)
    elif in_loop:
        ctx.mismatch("row loop: the implementation raises an internal exception in the row loop, the model does not", case,
                     {k: r.get(k) for k in ("class", "exc", "site", "msg")}, m)


def rowloop_forms(rng):
    """row kinds x column shapes (+ a random second odd column now and then)"""
    L = [{"list_name": "l", "name": "a", "label": "A"}]
    for kind, rows in ROW_KINDS:
        for odd in ODD_COLS:
            for where in range(len(rows)):
                f = {"survey": [dict(x) for x in rows], "choices": [dict(x) for x in L],
                     "external_choices": [{"list_name": "e", "name": "a", "label": "A", "x": "1"}]}
                if kind.startswith("osm"):
                    f["osm"] = [{"list_name": "b", "name": "building", "label": "B"}]
                if odd is not None:
                    if odd[0] in f["survey"][where]:
                        continue
                    f["survey"][where][odd[0]] = odd[1]
                    if odd[0].startswith("save_to"):
                        f["entities"] = [{"dataset": "trees", "label": "'x'"}]
                    if rng.random() < 0.15:
                        o2 = ODD_COLS[rng.randrange(1, len(ODD_COLS))]
                        if o2[0] not in f["survey"][where]:
                            f["survey"][where][o2[0]] = o2[1]
                yield kind, odd, f


# ------------------------------------------------------------------------------- stream T: near-miss type names


SELECT_COMMANDS = ()


def type_vocabulary():
    """the type table and alias tables of the tree under test (what the translator turns into Pyxv.Gen.*)"""
    from pyxform import aliases
    from pyxform.question_type_dictionary import QUESTION_TYPE_DICT

    known = set(QUESTION_TYPE_DICT) | set(getattr(aliases, "_type_alias_map", {})) | set(aliases.settings_header)
    known |= {"xml-external", "csv-external", "audit", "entity"}
    global SELECT_COMMANDS
    SELECT_COMMANDS = tuple(k + " " for k in aliases.select)
    return known, sorted(QUESTION_TYPE_DICT) + ["xml-external", "csv-external"]


def near_misses(known, types):
    """prefix- / suffix-preserving typos of every known type name: transposed inner letters, one letter changed, first
    token (up to `-`, `_` or space) replaced keeping the suffix, last token replaced keeping the prefix, a letter doubled
    or dropped.  Strings that are themselves valid types / aliases are not near misses."""
    out = []
    for t in types:
        cands = set()
        if len(t) > 3:
            cands.add(t[0] + t[2] + t[1] + t[3:])
            cands.add(t[:-1])
            cands.add(t + t[-1])
            mid = len(t) // 2
            cands.add(t[:mid] + ("q" if t[mid] != "q" else "z") + t[mid + 1:])
        for sep in ("-", "_", " "):
            if sep in t:
                head, _, tail = t.partition(sep)
                cands.add(head[::-1] + sep + tail if head[::-1] != head else "zz" + sep + tail)
                cands.add("json" + sep + tail)
                h2, _, t2 = t.rpartition(sep)
                cands.add(h2 + sep + (t2[::-1] if t2[::-1] != t2 else "zz"))
                cands.add(h2 + sep + "other")
        for c in sorted(cands):
            # (a select command followed by a word is a select row whose list is that word: another catalogue entry)
            if c and c not in known and c.strip() == c and not c.startswith(("begin", "end ", "end_")) \
                    and not c.startswith(SELECT_COMMANDS) and not c.startswith("osm "):
                out.append((t, c))
    return out


def near_miss_cases():
    known, types = type_vocabulary()
    for k, (t, typo) in enumerate(near_misses(known, types)):
        rows = [{"type": "text", "name": "a", "label": "A"}, {"type": typo, "name": "nm", "label": "N"}]
        if k % 3 == 1:
            rows = [{"type": "begin group", "name": "g", "label": "G"}] + rows + [{"type": "end group"}]
        elif k % 3 == 2:
            rows = [{"type": "begin repeat", "name": "g", "label": "G"}] + rows + [{"type": "end repeat"}]
        yield {"stream": "near-miss", "of": t, "typo": typo, "form": {"survey": rows}, "via": "dict"}


def near_miss_case(ctx, case):
    r = run_case(case)
    ctx.count(f"T:{r['class']}")
    if not check_no_internal(ctx, case, r):
        return
    extra = {"mutation": "near_miss_type", "site": case["typo"], "msg": r.get("msg", "")[:300]}
    if r["class"] == "ok":
        ctx.fail(Failure("accepted-broken", f"type {case['typo']!r} (near miss of {case['of']!r}) is not in the type table but was accepted",
                         case, extra=extra))
    elif case["typo"].lower() not in r["msg"].lower() and "type" not in r["msg"].lower():
        ctx.fail(Failure("not-located", f"unknown type {case['typo']!r}: message names neither the type nor the column: {r['msg'][:200]!r}",
                         case, extra=extra))


# ------------------------------------------------------------------------------- stream S: separator boundaries in parameter values


def boundary_variants(value, seps):
    """leading / trailing / doubled separator, empty segment, separator alone, for every separator of the value's grammar"""
    out = {value}
    for sep in seps:
        out |= {sep + value, value + sep, sep, sep + sep, sep + value + sep}
        if sep in value:
            out.add(value.replace(sep, sep + sep, 1))
            head, _, tail = value.partition(sep)
            out |= {head + sep, sep + tail, head, tail}
        else:
            out.add(value[:1] + sep + value[1:])
            out.add(value[:1] + sep + sep + value[1:])
    return sorted(out)


def pkg_ok(name):
    """the documented rule for `app=`: two or more non-empty segments of letters, digits and `_`, none starting with a
    digit or `_` (the harness's own reading, lower-cased as parameters are)"""
    segs = name.split(".")
    return len(segs) >= 2 and all(seg and re.fullmatch(r"[a-z][a-z0-9_]*", seg) for seg in segs)


PARAM_GRAMMARS = [
    # (type, parameter, a valid value, separators of its grammar, row demanded on rejection)
    ("image", "app", "com.example.app", [".", "_"], True),
    ("text", "rows", "3", [".", "-", "+"], True),
    ("image", "max-pixels", "640", [".", "-"], False),
    ("range", "start", "1.5", [".", "-", "e"], False),
    ("range", "step", "2", [".", "-"], False),
    ("geopoint", "capture-accuracy", "2.5", [".", "-"], False),
    ("geopoint", "allow-mock-accuracy", "true", ["-", " "], False),
    ("audio", "quality", "voice-only", ["-", "_"], False),
    ("select_one LIST", "seed", "12.5", [".", "-", "${", "}"], False),
    ("select_one LIST", "randomize", "true", ["-", "="], False),
    ("select_one_from_file f.csv", "value", "a-b.c", [".", "-", "_"], True),
    ("select_one_from_file f.csv", "label", "a_b", [".", "-", "_"], True),
    ("audit", "location-min-interval", "10", [".", "-"], False),
    ("audit", "track-changes", "true", ["-"], False),
]


def separator_cases():
    L = [{"list_name": "l", "name": "a", "label": "A"}]
    T = {"type": "text", "name": "a0", "label": "A"}
    k = 0
    for typ, par, val, seps, with_row in PARAM_GRAMMARS:
        for v in boundary_variants(val, seps):
            cells = [f"{par}={v}"]
            if par == "seed":
                cells = [f"randomize=true {par}={v}"]
            if par == "location-min-interval":
                cells = [f"location-priority=balanced location-max-age=100 {par}={v}"]
            for cell in cells:
                row = {"type": typ.replace("LIST", "l"), "parameters": cell}
                if typ != "audit":
                    row["name"] = "p0"
                    row["label"] = "P"
                rows = [dict(T), row] if k % 2 else [row, dict(T)]
                k += 1
                yield {"stream": "separators", "param": par, "value": v, "row": rows.index(row) + 2, "with_row": with_row,
                       "form": {"survey": rows, "choices": [dict(x) for x in L]}, "via": "dict"}
    # the parameters cell's own grammar: `;` `,` blank and `=`
    for cell in boundary_variants("rows=3", [";", ",", " ", "="]) + boundary_variants("rows=3;rows=4", [";"]) + ["rows=3 ; x", "rows = 3"]:
        row = {"type": "text", "name": "p0", "label": "P", "parameters": cell}
        yield {"stream": "separators", "param": "<cell>", "value": cell, "row": 2, "with_row": False,
               "form": {"survey": [row, dict(T)]}, "via": "dict"}


def separator_case(ctx, case):
    r = run_case(case)
    ctx.count(f"S:{case['param']}:{r['class']}")
    if not check_no_internal(ctx, case, r):
        return
    extra = {"mutation": "separator_boundary", "site": [case["param"], case["value"]], "msg": r.get("msg", "")[:300]}
    if case["param"] == "app":
        valid = pkg_ok(case["value"].lower().strip())
        if r["class"] == "ok" and not valid:
            ctx.fail(Failure("accepted-broken", f"app={case['value']!r} is not a package name but was accepted", case, extra=extra))
        if r["class"] == "pyxform" and valid:
            ctx.fail(Failure("rejected-wellformed", f"app={case['value']!r} is a package name but was rejected: {r['msg'][:120]}", case, extra=extra))
    if r["class"] == "pyxform" and case["with_row"] and "Expecting parameters" not in r["msg"] and "Accepted parameters" not in r["msg"] \
            and f"[row : {case['row']}]" not in r["msg"]:
        ctx.fail(Failure("not-located", f"{case['param']}={case['value']!r}: rejection does not cite [row : {case['row']}]: {r['msg'][:160]!r}",
                         case, extra=extra))


# ------------------------------------------------------------------------------- stream P: header splitting, settings reads

ODD_HEADERS = ["x:jr", "a:b:jr", "jr", "jr:jr", "a:jr:b", "bind:jr:count", " x : jr ", "jr:", "label:jr", "x:jr:y:jr",
               "hint:en", "a:b", "bind: relevant", "jr:count", "x : y : jr", "media:image:jr"]
SETTING_KEYS_READ = ["clean_text_values", "add_none_option", "allow_choice_duplicates", "omit_instanceID", "children",
                     "flat", "public_key", "instance_name", "default_language", "form_title"]


def preloop_cases():
    T = [{"type": "text", "name": "a", "label": "A"}]
    L = [{"list_name": "l", "name": "a", "label": "A"}]
    for h in ODD_HEADERS:
        for dbl in (False, True):
            row = {"type": "text", "name": "b", "label": "B", h: "v"}
            if dbl:
                row["label::en"] = "B"
                row.pop("label")
            yield {"stream": "preloop", "kind": "header", "header": h, "useDouble": dbl, "form": {"survey": T + [row]}, "via": "dict"}
    for key in SETTING_KEYS_READ:
        for shape in ("plain", "grouped"):
            for val in ("yes", "x"):
                for choices in (False, True):
                    for rows in (True, False):
                        k = key if shape == "plain" else key + "::x"
                        st = {k: val}
                        if not rows:
                            st["omit_instanceID" if key != "omit_instanceID" else "form_id"] = "yes" if key != "omit_instanceID" else "f"
                        f = {"survey": T if rows else [], "survey_cols": ["type", "name", "label"], "settings": [st]}
                        if choices:
                            f["choices"] = L
                            if rows:
                                f["survey"] = T + [{"type": "select_one l", "name": "s", "label": "S"}]
                        yield {"stream": "preloop", "kind": "settings", "key": k, "form": f, "via": "dict"}


def preloop_case(ctx, case):
    form = case["form"]
    r = run_case(case)
    check_no_internal(ctx, case, r)
    in_fn = r["class"] == "internal"
    if case["kind"] == "header":
        m = ctx.driver.call("c17.header", header=case["header"], useDouble=case["useDouble"])
        here = in_fn and r.get("site") == "sheet_headers.py:process_header"
    else:
        st = form["settings"][0]
        if any(typed_rows({"survey": [st]}) is None for _ in (0,)):
            return
        row = typed_rows({"survey": [st]})[0]
        # ALIAS_TOKENS is for the survey sheet; settings keys are not dealiased there except the id / title aliases
        row = [[k, v] for k, v in row]
        omit = str(st.get("omit_instanceID", "")).lower() in YES
        appends = bool(form["survey"]) or not omit or "instance_name" in st
        m = ctx.driver.call("c17.settings", row=row, hasChoices=bool(form.get("choices")), appends=appends)
        here = in_fn and r.get("site") == "xls2json.py:workbook_to_json"
    ctx.count(f"P:{case['kind']}:model:{m['outcome']}/impl:{'internal-here' if here else r['class']}")
    if m["outcome"] == "internal":
        if not (here and r.get("exc") == m["exc"]):
            ctx.mismatch("pre-loop: model predicts an internal exception the implementation does not raise there", case,
                         {k: r.get(k) for k in ("class", "exc", "site", "msg")}, m)
    elif here:
        ctx.mismatch("pre-loop: the implementation raises an internal exception there, the model does not", case,
                     {k: r.get(k) for k in ("class", "exc", "site", "msg")}, m)


# ---- H: header rules (model Pyxv.HeaderRules.sheetHeaders on Pyxv.Headers.dealiasAndGroupHeaders; theorems
# Pyxv.C17.Hdr.alias_clash_rejected / missing_required_rejected / accepted_has_required)
HDR_PREFIX = "Invalid headers provided for sheet: "


def header_spellings(sheet):
    """every alias of the sheet's alias table with the canonical spelling of its column, plus case / blank / language variants"""
    from pyxform import aliases

    table = aliases.survey_header if sheet == "survey" else aliases.list_header
    out = []
    for a, canon in table.items():
        if "jr" in a.split(":"):
            continue  # `jr:count` as a header: IndexError class of F-process-header (stream P)
        c = "::".join(canon) if isinstance(canon, tuple) else canon
        out.append((a, c))
    return out


def headers_cases(rng, n_random):
    T = [{"type": "text", "name": "a", "label": "A"}]
    L = [{"list_name": "l", "name": "a", "label": "A"}]
    S1 = T + [{"type": "select_one l", "name": "s", "label": "S"}]

    def mk(kind, sheet, cols, rows=None, other=None):
        f = {"survey": T, "survey_cols": ["type", "name", "label"]}
        if sheet == "survey":
            f["survey"] = T if rows is None else rows
            f["survey_cols"] = cols
            if other:
                f["choices"] = L
                f["survey"] = S1 if rows is None else rows
        else:
            f["survey"] = S1
            f["choices"] = L if rows is None else rows
            f["choices_cols"] = cols
        return {"stream": "headers", "kind": kind, "sheet": sheet, "form": f, "via": "dict"}

    for sheet, base in (("survey", ["type", "name", "label"]), ("choices", ["list_name", "name", "label"])):
        for a, c in header_spellings(sheet):
            if a == c:
                continue
            for pair in ([c, a], [a, c], [a, a.upper()], [a.title(), a], [a, a + " "], [c, c + "::en"], [a + "::en", c + "::en"],
                         [a + ":en", c + ":en"], [a, a]):
                yield mk("clash", sheet, base + pair)
                yield mk("clash", sheet, pair + base)
    # required column missing / present under another spelling
    for cols in (["name", "label"], ["Type", "name", "label"], ["TYPE ", "name"], ["command", "name", "label"], ["type::x", "name"],
                 ["bind::type", "name", "label"], ["name", "label", "typ"], ["label"], ["types", "name"], ["name", "label", "type"]):
        yield mk("required", "survey", cols)
        yield mk("required", "survey", cols, rows=[])
        yield mk("required", "survey", cols, rows=[{"name": "a", "label": "A"}], other=True)
    for cols in (["list_name", "label"], ["list_name", "value", "label"], ["list_name", "tag", "label"], ["list_name", "Name", "label"],
                 ["list_name", "name::en", "label"], ["list name", "label"], ["label"], ["list_name", "label", "name"]):
        yield mk("required", "choices", cols)
        yield mk("required", "choices", cols, rows=[{"list_name": "l", "label": "A"}])
        yield mk("required", "choices", cols, rows=[{"list_name": "l", "label": "A"}, {"list_name": "l", "label": "B"}])
    # seeded: a few columns drawn from the spellings of the sheet's table, anywhere in the header row
    for _ in range(n_random):
        sheet = rng.choice(["survey", "choices"])
        base = ["type", "name", "label"] if sheet == "survey" else ["list_name", "name", "label"]
        pool = []
        for a, c in header_spellings(sheet):
            pool += [a, c, a.upper(), a + "::en", c + "::fr", " " + a, a.replace("_", " ")]
        cols = list(base)
        if rng.random() < 0.25:
            cols.remove(rng.choice(cols))
        for h in rng.sample(pool, rng.randint(1, 4)):
            cols.insert(rng.randint(0, len(cols)), h)
        seen = []
        for h in cols:
            if h not in seen:
                seen.append(h)
        yield mk("random", sheet, seen)


def headers_case(ctx, case):
    """the header stage of the choices and the survey sheet: the model's diagnosis (sheet, header names) against the
    message of convert(), both ways"""
    form = case["form"]
    r = run_case(case)
    check_no_internal(ctx, case, r)
    pred = None
    for sheet in ("choices", "survey"):
        if sheet == "choices" and not form.get("choices"):
            continue
        rows = [[[k, str(v)] for k, v in row.items() if v not in (None, "")] for row in form.get(sheet, [])]
        cols = impl.headers_of(form.get(sheet, []), form.get(sheet + "_cols"))
        m = ctx.driver.call("c17.sheet_headers", sheet=sheet, cols=cols, rows=rows, dl="default")
        if m["outcome"] == "unsupported":
            ctx.count("H:unsupported")
            return
        if m["outcome"] != "pass":
            pred = (sheet, m)
            break
    got = {k: r.get(k) for k in ("class", "exc", "site", "msg")}
    if pred is None:
        ctx.count(f"H:{case['kind']}:model:pass/impl:{r['class']}")
        if r["class"] == "pyxform" and r.get("msg", "").startswith((HDR_PREFIX + "'survey'", HDR_PREFIX + "'choices'")):
            ctx.mismatch("headers: the implementation refuses the header row, the model accepts it", case, got, {"outcome": "pass"})
        return
    sheet, m = pred
    ctx.count(f"H:{case['kind']}:model:{m['outcome']}:{sheet}/impl:{r['class']}")
    if m["outcome"] == "reject":
        if not (r["class"] == "pyxform" and r.get("msg") == m["msg"]):
            ctx.mismatch("headers: the model's located diagnosis is not the message of convert()", case, got, m)
    elif m["outcome"] == "internal" and r["class"] != "internal":
        ctx.mismatch("headers: model predicts an internal exception the implementation does not raise", case, got, m)


# ---- Q: missing survey sheet + range parameter cell (model Pyxv.PreRules; theorems Pyxv.C17.Pre.*): the model's
# message against the message of convert(), both ways
MUST_HAVE_SURVEY = "You must have a sheet named 'survey'. "
RANGE_MSGS = ("Expecting parameters to be in the form of", "Accepted parameters are '", "Range parameters 'start', 'end' or 'step'")


def prerules_cases(rng, n_random):
    from pyxform import constants

    key = "survey"
    alpha = "abcsuvyrez_ S1"
    near = {key, key.upper(), key.title(), "Surveys", "_survey", "_surve", "survey ", " survey", "sur vey", "surv", "sury", "srvy",
            "choices", "settings", "entities", "osm", "external_choices", "Settings", "SURVE", "purvey", "surveyor", "surveyors",
            "servey", "survay", "s", "", "data", "Sheet1", "survey_", "survey__", "__survey", "chioces"}
    for i in range(len(key) + 1):
        for c in "xS_ ":
            near.add(key[:i] + c + key[i:])
            near.add(key[:i] + c + key[i + 1:])
        near.add(key[:i] + key[i + 1:])
        for j in range(i + 1, len(key)):
            near.add(key[:i] + key[i + 1:j] + key[j + 1:])
    near = sorted(near)
    sup = sorted(constants.SUPPORTED_SHEET_NAMES)

    def wb(names, state):
        raw = {"sheet_names": list(names)}
        if state == "empty":
            raw["survey"] = []
            raw["survey_header"] = []
        elif state == "header":
            raw["survey"] = []
            raw["survey_header"] = [{"type": None, "name": None, "label": None}]
        elif state == "rows":
            raw["survey"] = [{"type": "text", "name": "a", "label": "A"}]
            raw["survey_header"] = [{"type": None, "name": None, "label": None}]
        elif state == "rows-no-header":
            raw["survey"] = [{"type": "text", "name": "a", "label": "A"}]
        return {"stream": "prerules", "kind": "survey:" + state, "raw": raw, "via": "dict_raw"}

    for n in near:
        yield wb([n], "absent")
        yield wb(["choices", n, "settings"], "empty")
    for state in ("absent", "empty", "header", "rows", "rows-no-header"):
        yield wb([], state)
        yield wb(["survey"], state)
        yield wb(["surveys", "Survey", "_survey", "survey2", "choices"], state)
    for _ in range(n_random):
        names = []
        for _ in range(rng.randint(0, 5)):
            r = rng.random()
            if r < 0.5:
                names.append(rng.choice(near))
            elif r < 0.7:
                names.append(rng.choice(sup))
            else:
                w = list(key)
                for _ in range(rng.randint(1, 3)):
                    op = rng.randint(0, 2)
                    i = rng.randint(0, len(w))
                    if op == 0:
                        w.insert(i, rng.choice(alpha))
                    elif op == 1 and w:
                        w.pop(min(i, len(w) - 1))
                    elif w:
                        w[min(i, len(w) - 1)] = rng.choice(alpha)
                names.append("".join(w))
        yield wb(names, rng.choice(["absent", "absent", "empty", "empty", "header", "rows"]))
    # range parameter cells
    keys = ["start", "end", "step", "START", " End", "step ", "foo", "bar", "rows", "steps", "star", "", "a b", "Zed", "_x", "end2"]
    vals = ["1", "10", "1.5", "-2", "+3", ".5", "5.", "0", "0.0", "abc", "", "q", "1e3", "nan", "inf", "0x10", "1_0", "--1", "1.2.3",
            "1,5", "2 3", "TRUE", "one", "1.", "-", ".", "+.5", "١", "1=2", "$", "12abc", "3%"]
    seps = [" ", ";", ",", "; ", " ;", ", ", "  "]

    def rc(cell, depth=0, before=0):
        rows = [{"type": "text", "name": f"t{i}", "label": "T"} for i in range(before)]
        inner = [{"type": "range", "name": "r", "label": "R", "parameters": cell}]
        for d in range(depth):
            inner = [{"type": "begin group", "name": f"g{d}", "label": "G"}] + inner + [{"type": "end group"}]
        return {"stream": "prerules", "kind": "range", "cell": cell, "form": {"survey": rows + inner}, "via": "dict"}

    for k in keys:
        for v in vals:
            yield rc(f"{k}={v}")
    for v in vals:
        yield rc(f"start=1 end={v} step=1")
        yield rc(f"start={v};end=x;foo=1")
    for cell in ("", " ", "start", "start end", "start=1 end", "=", "==", "a=b=c", "start=1;;end=2", "start=1,end=2,", ";", ",",
                 "start=1 , end=2", "foo=1 bar=2", "zz=1 Ab=2 ab=3", "start=1 start=x", "start=x start=1", "END=9 end=z",
                 "step=1.5;end=2;start=0.5", "label=A value=B", "foo", "foo bar=1"):
        yield rc(cell)
    for _ in range(n_random):
        parts = []
        for _ in range(rng.randint(1, 4)):
            r = rng.random()
            k = rng.choice(keys[:3]) if r < 0.6 else rng.choice(keys)
            v = rng.choice(vals[:9]) if rng.random() < 0.6 else rng.choice(vals)
            parts.append(k if rng.random() < 0.07 else f"{k}={v}")
        yield rc(rng.choice(seps).join(parts), depth=rng.randint(0, 2), before=rng.randint(0, 3))


def prerules_case(ctx, case):
    r = run_case(case)
    check_no_internal(ctx, case, r)
    got = {k: r.get(k) for k in ("class", "exc", "site", "msg")}
    msg = r.get("msg") or ""
    if case["kind"].startswith("survey:"):
        raw = case["raw"]
        m = ctx.driver.call("c17.survey_precheck", sheet_names=raw["sheet_names"], has_rows=bool(raw.get("survey")),
                            has_header=bool(raw.get("survey_header")))
        mine = r["class"] == "pyxform" and msg.startswith(MUST_HAVE_SURVEY)
    else:
        m = ctx.driver.call("c17.range_cell", raw=case["cell"])
        mine = r["class"] == "pyxform" and msg.startswith(RANGE_MSGS)
    ctx.count(f"Q:{case['kind']}:model:{m['outcome']}/impl:{r['class']}")
    if m["outcome"] == "unsupported":
        return
    if m["outcome"] == "reject":
        if not (r["class"] == "pyxform" and msg == m["msg"]):
            ctx.mismatch("prerules: the model's diagnosis is not the message of convert()", case, got, m)
    elif mine or (case["kind"] == "range" and r["class"] != "ok"):
        ctx.mismatch("prerules: the implementation refuses what the model accepts", case, got, m)



def every_kind_prefix(langs):
    """a valid block containing one row of every kind the row loop distinguishes (state that the loop carries
    from row to row — parameter lists, table-list flag, stack, question names — is exercised before the mutated row)"""
    def lab(row, text):
        if langs:
            for lg in langs:
                row[f"label::{lg}"] = text
        else:
            row["label"] = text
        return row
    rows = [
        lab({"type": "select_one_from_file ek_places.csv", "name": "ek_sff", "parameters": "value=code label=title"}, "F"),
        lab({"type": "select_multiple_from_file ek_towns.xml", "name": "ek_smf"}, "F"),
        lab({"type": "begin group", "name": "ek_tl", "appearance": "table-list"}, "T"),
        lab({"type": "select_one ek_list", "name": "ek_t1"}, "A"),
        lab({"type": "select_one ek_list", "name": "ek_t2"}, "B"),
        {"type": "end group"},
        lab({"type": "begin repeat", "name": "ek_rep", "repeat_count": "2"}, "R"),
        lab({"type": "text", "name": "ek_src"}, "Q"),
        {"type": "end repeat"},
        lab({"type": "select_one ${ek_src}", "name": "ek_dyn"}, "D"),
        lab({"type": "select_one ek_list or_other", "name": "ek_oo"}, "O"),
        lab({"type": "select_multiple ek_list", "name": "ek_rand", "parameters": "randomize=true seed=3"}, "R"),
        lab({"type": "rank ek_list", "name": "ek_rank"}, "K"),
        lab({"type": "range", "name": "ek_range", "parameters": "start=1 end=5 step=1"}, "G"),
        lab({"type": "image", "name": "ek_img", "parameters": "max-pixels=100"}, "I"),
        lab({"type": "audio", "name": "ek_aud", "parameters": "quality=low"}, "A"),
        lab({"type": "geopoint", "name": "ek_geo", "parameters": "capture-accuracy=5"}, "P"),
        lab({"type": "text", "name": "ek_txt", "parameters": "rows=3"}, "T"),
        {"type": "calculate", "name": "ek_calc", "calculation": "1 + 1"},
        {"type": "background-geopoint", "name": "ek_bg", "trigger": "${ek_txt}"},
        {"type": "xml-external", "name": "ek_ext"},
        {"type": "audit", "parameters": "track-changes=true"},
        lab({"type": "note", "name": "ek_note"}, "N"),
    ]
    ch = []
    for nm in ("e1", "e2"):
        ch.append(lab({"list_name": "ek_list", "name": nm}, nm.upper()))
    return rows, ch


NO_PREFIX = {"empty_survey", "missing_survey", "missing_type_col", "no_choices_sheet", "missing_choice_name_col",
             "choice_no_name"}  # mutations that remove a sheet / column: the prefix would put it back


def form_langs(f):
    return sorted({k.split("::", 1)[1] for r in f["survey"] + (f.get("choices") or []) for k in r if k.startswith("label::")})


def with_prefix(f, expect, langs):
    """the every-kind block in front of the (mutated) form: survey row numbers of the expectation move down,
    the block's choices go to the end of the choices sheet (choices row numbers stay)"""
    rows, ch = every_kind_prefix(langs)
    g = dict(f)
    g["survey"] = rows + f["survey"]
    g["choices"] = (f.get("choices") or []) + ch
    if expect is not None:
        e = dict(expect)
        n = len(rows)
        if "row" in e and e.get("sheet") != "choices":
            e["row"] += n
        if "any" in e:
            e["any"] = [["row", a[1] + n] if a and a[0] == "row" else a for a in e["any"]]
        expect = e
    return g, expect


def base_form(rng, big):
    return base_form0(rng, big)


def base_form0(rng, big):
    kw = dict(p_select=rng.choice([0.25, 0.4]), n=(3, 30 if big else 14), types=gen.SIMPLE_TYPES + ["calculate", "calculate", "range"],
              langs=rng.choice([[], [], ["en"], ["en", "fr"]]))
    if rng.random() < 0.3:
        kw.update(p_default=0.3, p_settings=0.4)
    return formcommon.structure_form(rng, tier_big=big, **kw)


def explore(ctx, factor, bs):
    rng = ctx.rng
    big = not ctx.quick()
    # ---- D: directed reproductions
    if factor == 1:
        for fid, case in directed_cases():
            r = run_case(case)
            ctx.count(f"D:{fid}:{r['class']}")
            check_no_internal(ctx, case, r)
            ctx.record(case, True)
    # ---- R: partial operations of the row loop (model Pyxv.RowLoop, theorem rowLoop_no_internal)
    if factor == 1:
        for kind, odd, f in rowloop_forms(rng):
            case = {"stream": "rowloop", "kind": kind, "odd": odd, "form": f, "via": "dict"}
            rowloop_case(ctx, case)
            ctx.record(case, True)
    # ---- T: every near miss of every name of the type table is an unknown type
    if factor == 1:
        for case in near_miss_cases():
            near_miss_case(ctx, case)
            ctx.record(case, True)
    # ---- S: boundary placements of the separators of every structured parameter value
    if factor == 1:
        for case in separator_cases():
            separator_case(ctx, case)
            ctx.record(case, True)
    # ---- P: header splitting and the settings reads (model Pyxv.PreLoop)
    if factor == 1:
        for case in preloop_cases():
            preloop_case(ctx, case)
            ctx.record(case, True)
    # ---- H: header rules — alias clash, required column (model Pyxv.HeaderRules, theorems Pyxv.C17.Hdr.*)
    if factor == 1:
        for case in headers_cases(rng, ctx.pick(150, 1500)):
            headers_case(ctx, case)
            ctx.record(case, True)
    # ---- Q: missing survey sheet, range parameter cell — message level (model Pyxv.PreRules, theorems Pyxv.C17.Pre.*)
    if factor == 1:
        for case in prerules_cases(rng, ctx.pick(120, 1200)):
            prerules_case(ctx, case)
            ctx.record(case, True)
    # ---- A: catalogue
    n_forms = ctx.pick(12, 70) * factor
    site_cap = ctx.pick(32, 110)
    applicable = {m[0]: 0 for m in c17_mut.CATALOGUE}
    done = 0
    tries = 0
    while done < n_forms and tries < n_forms * 5:
        tries += 1
        form = base_form(rng, big)
        # half of the base forms get, in front, a block with one row of every kind the row loop distinguishes
        langs = form_langs(form)
        prefixed = rng.random() < 0.5
        if impl.run(with_prefix(form, None, langs)[0] if prefixed else form)["class"] != "ok":
            ctx.count("A:base-not-valid")
            continue
        ctx.count("A:base-with-every-kind-prefix" if prefixed else "A:base-plain")
        done += 1
        for mid, sites, apply in c17_mut.CATALOGUE:
            ss = sites(form)
            if len(ss) > site_cap:  # every site up to the cap, a seeded sample beyond (counted in the evidence)
                ctx.count("A:sites-sampled", len(ss) - site_cap)
                ss = rng.sample(ss, site_cap)
            for s in ss:
                f2, expect = apply(form, s)
                if f2 is None or expect is None:
                    continue
                if prefixed and mid not in NO_PREFIX:
                    f2, expect = with_prefix(f2, expect, langs)
                applicable[mid] += 1
                case = {"stream": "catalogue", "mutation": mid, "site": s, "form": f2, "expect": expect,
                        "via": expect.get("via", "dict")}
                catalogue_case(ctx, case)
                ctx.record(case, True)
    ctx.notes["catalogue_applications"] = applicable
    ctx.notes["catalogue_base_forms"] = done
    # ---- B: vocabulary fuzz
    n_fuzz = ctx.pick(6000, 90000) * factor
    for i in range(n_fuzz):
        k = i % 10
        if k < 5:
            case = {"stream": "fuzz", "kind": "valid+", "form": c17_fuzz.fuzz_valid_plus(rng), "via": "dict"}
            fuzz_case(ctx, case, correspond=True)
        elif k < 9:
            case = {"stream": "fuzz", "kind": "sheet", "form": c17_fuzz.fuzz_form(rng), "via": "dict"}
            fuzz_case(ctx, case)
        else:
            case = {"stream": "fuzz", "kind": "odd-headers", "form": c17_fuzz.fuzz_form(rng, crashy=True), "via": "dict"}
            fuzz_case(ctx, case)
        ctx.record(case, bool(case["form"].get("survey")))
    ma = {k: v for k, v in ctx.dist.items() if k.startswith("A:model:")}
    tot = sum(ma.values()) or 1
    ctx.notes["model_fragment_share"] = {k: round(v / tot, 3) for k, v in ma.items()}
    ctx.notes["oracle_notes"] = [
        "range step=0 / step larger than the span, and a header-only survey sheet, are accepted by design in the pinned "
        "version: not part of the catalogue (an oracle demanding rejection would be stricter than the property)",
        "tree-level errors (duplicate names, unknown / ambiguous references, instance clashes) must name the element or "
        "reference, not a row; precedence between simultaneous errors is not compared",
    ]


def replay(ctx, payload, bs):
    case = payload["case"]
    before = len(ctx.failures), len(ctx.mismatches)
    if case.get("stream") == "catalogue":
        catalogue_case(ctx, case)
    elif case.get("stream") == "fuzz":
        fuzz_case(ctx, case, correspond=case.get("kind") == "valid+")
    elif case.get("stream") == "rowloop":
        rowloop_case(ctx, case)
    elif case.get("stream") == "preloop":
        preloop_case(ctx, case)
    elif case.get("stream") == "headers":
        headers_case(ctx, case)
    elif case.get("stream") == "prerules":
        prerules_case(ctx, case)
    elif case.get("stream") == "near-miss":
        near_miss_case(ctx, case)
    elif case.get("stream") == "separators":
        separator_case(ctx, case)
    else:
        check_no_internal(ctx, case, run_case(case))
    return (len(ctx.failures), len(ctx.mismatches)) == before


def main(argv):
    return vcore.run_check(PROP, explore, RULE, matchers=MATCHERS, replay=replay, argv=argv)
