"""
C10 — defaults and triggered calculations are applied exactly once.

Theorems: Pyxv/Proofs/C10.lean.  Model: Pyxv/Model/Lexer.lean (re.Scanner + the 26 lexer rules +
default_is_dynamic), Pyxv/Model/Defaults.lean (instance text / template copies / setvalue placement /
trigger tables / nested set-nodes / bind calculate).

Tie (1) lexer: `Lexer.scan`, `defaultIsDynamic`, `refSyntaxOk` vs `parse_expression`,
`default_is_dynamic`, `validate_pyxform_reference_syntax` on ≥ 20 000 generated token strings per quick
run, and the character classes of the real scanner vs the model's over code-point ranges.
Tie (2) mechanism: generated element trees (type × default class × nesting × trigger pairing) through
the implementation and `defaults.model`; compared: instance leaves (path, in-template, text),
first-load setvalues (location, ref, event, value), nested value-changed set-nodes (control, tag, ref,
value), bind calculate, acceptance.
Oracle (on the implementation's XForm, independent of the mechanism model): the property's case
table, using the model's classification of each default.
"""

from __future__ import annotations

import re

import c10_forms as F
import c10_lexgen as LG
import impl
import vcore
from vcore import Failure

PROP = "C10"
RULE = (
    "forms: random element trees (questions of 22 types × default text over literals/dates/numbers/negatives/"
    "function calls/arithmetic/quoted/tricky/references/random token strings; groups and repeats nested to depth 3 "
    "(quick) / 4 (thorough); trigger pairings: visible question, select, in/out of repeats, two refs, prose, section, "
    "hidden question, invalid; targets calculate / typed calculate / background-geopoint) + directed F8 cases; "
    "lexer: token strings built from rule-boundary fragments; distinct by canonical hash; "
    "non-trivial form = accepted and holding a default or a trigger"
)

REF_RE = re.compile(r"\$\{(.*?)\}")


# --------------------------------------------------------------------------- lexer correspondence


def lexer_cases(ctx, cases):
    """cases: list of (text, type)"""
    res = ctx.driver.call("lexer.batch", items=[[s, t] for s, t in cases])
    if isinstance(res, dict) and res.get("unsupported"):
        ctx.count("lexer:unsupported", len(cases))
        ctx.mismatch("lexer rule table is not the pinned one (model answers unsupported)", {"lex": cases[0]}, "rules changed", "unsupported")
        return
    for (s, t), r in zip(cases, res):
        toks, rem, dyn, ref_ok = LG.impl_scan(s, t)
        mt = [[n, v] for n, v, _, _ in toks]
        case = {"lex": [s, t]}
        if mt != r[0] or rem != r[1]:
            ctx.mismatch("Lexer.scan vs parse_expression", case, [mt, rem], [r[0], r[1]])
        if dyn != r[2]:
            ctx.mismatch("defaultIsDynamic vs default_is_dynamic", case, dyn, r[2])
        if ref_ok != r[3]:
            ctx.mismatch("refSyntaxOk vs validate_pyxform_reference_syntax", case, ref_ok, r[3])
        # oracle facts about the implementation's lexer that the property's reasoning rests on
        if "".join(v for _, v, _, _ in toks) + rem != s:
            ctx.fail(Failure("lexer-loses-text", f"token values + remainder differ from the input {s!r}", case))
        pos = 0
        for n, v, a, b in toks:
            if a != pos or b != pos + len(v):
                ctx.fail(Failure("lexer-positions", f"token positions not contiguous in {s!r}", case))
                break
            pos = b
        ctx.evaluations += 1
    ctx.count("lexer:strings", len(cases))


def class_map(ctx, lo, hi):
    from pyxform.parsing.expression import _EXPRESSION_LEXER as L

    def names(t):
        return [x.name for x in L.scan(t)[0]]

    exp, last = [], None
    for cp in range(lo, hi):
        if 0xD800 <= cp <= 0xDFFF:
            continue
        c = chr(cp)
        n = names(c)
        b = (1 if n == ["NUMBER"] else 0) + (2 if n == ["WHITESPACE"] else 0) + (4 if n == ["NAME"] else 0)
        if not b & 4 and names("a" + c) == ["NAME"]:
            b += 8
        elif b & 4 and c in "-.0123456789":
            b += 8
        if b != last:
            exp.append([cp, b])
            last = b
    got = ctx.driver.call("lexer.classes", lo=lo, hi=hi)
    # the model reports "extra" also for characters that are start characters; normalise
    norm, last = [], None
    for cp, b in got:
        if b & 4:
            b &= ~8
        if b != last:
            norm.append([cp, b])
            last = b
    exp2, last = [], None
    for cp, b in exp:
        if b & 4:
            b &= ~8
        if b != last:
            exp2.append([cp, b])
            last = b
    if norm != exp2:
        d = next((x for x in zip(exp2, norm) if x[0] != x[1]), (exp2[-1:], norm[-1:]))
        ctx.mismatch("character classes (\\d, \\s, name start, name extra) of the scanner", {"range": [lo, hi]}, d[0], d[1])
    ctx.count("lexer:codepoints", hi - lo)


# --------------------------------------------------------------------------- forms


def hidden_q(q):
    return q["type"] == "calculate" or ((q["calc"] or q["trigger"]) and not q["labelled"])


def shown(q):
    return not hidden_q(q) and F.has_ctl(q["type"])


def abs_sub(text, paths):
    return REF_RE.sub(lambda m: " " + paths.get(m.group(1), "?") + " ", text)


def rel_regex(text, paths):
    out, pos = [], 0
    for m in REF_RE.finditer(text):
        out.append(re.escape(text[pos:m.start()]))
        leaf = re.escape(m.group(1))
        out.append(r" (?:" + re.escape(paths.get(m.group(1), "?")) + r"|(?:current\(\)/)?(?:\.\./)+(?:[^ /]+/)*" + leaf + r") ")
        pos = m.end()
    out.append(re.escape(text[pos:]))
    return re.compile("".join(out) + r"\Z")


def value_ok(expected_text, ctx_reps, info, got):
    """does the value attribute `got` express `expected_text` (references resolved)?"""
    paths, reps_of = info
    if got is None:
        return False
    refs = REF_RE.findall(expected_text)
    may_rel = any(ctx_reps and reps_of.get(r) and reps_of[r][0] == ctx_reps[0] for r in refs)
    if not may_rel:
        return got == abs_sub(expected_text, paths)
    return bool(rel_regex(expected_text, paths).match(got))


def trigger_shape(key, by_name, sections):
    refs = REF_RE.findall(key)
    if len(refs) == 1 and key == "${%s}" % refs[0]:
        if refs[0] in sections:
            return "section"
        t = by_name.get(refs[0])
        if t is None:
            return "unknown"
        return "question" if shown(t) else "hidden-question"
    return "not-a-single-ref"


def norm_val(v, text, ctx_reps, info):
    """canonical value for comparing model and implementation: exact text unless a reference may be relative"""
    return v


def form_case(ctx, els, directed=None):
    form = F.form_of(els)
    case = {"els": els}
    r = impl.run(form)
    m = ctx.driver.call("defaults.model", els=F.model_els(els), root="data")
    ctx.count(f"form:impl:{r['class']}/model:{m['outcome']}")
    # the oracle reasons about what xls2json stores: a photo's default is prefixed with jr://images/
    walked = [(dict(q, default=F.image_default(q["type"], q["default"])), p, reps) for q, p, reps in F.walk(els)]
    has_mech = any(q["default"] or q["trigger"] for q, _, _ in walked)
    if m["outcome"] == "unsupported":
        ctx.count("form:unsupported:" + m.get("why", ""))
    # ---- acceptance
    if r["class"] == "internal":
        ctx.mismatch("implementation crashed inside the modelled fragment", case, r["msg"][:300], m["outcome"])
        ctx.record(case, False)
        return
    if m["outcome"] == "error" and r["ok"]:
        ctx.mismatch("model rejects, implementation accepts", case, "ok", m["err"])
    if m["outcome"] == "ok" and not r["ok"]:
        ctx.mismatch("implementation rejects, model accepts", case, r["msg"][:300], "ok")
    if not r["ok"]:
        ctx.record(case, False)
        return
    obs = F.observe(r["xform"])
    paths = {q["name"]: p for q, p, _ in walked}
    reps_of = {q["name"]: reps for q, _, reps in walked}
    info = (paths, reps_of)
    by_name = {q["name"]: q for q, _, _ in walked}
    sections = set()

    def secs(es):
        for e in es:
            if e["k"] != "q":
                sections.add(e["name"])
                secs(e["kids"])

    secs(els)
    qpaths = set(paths.values())
    # ---- correspondence: model observation vs implementation observation
    if m["outcome"] == "ok":
        def canon_sets(items, is_model):
            out = []
            for it in items:
                loc_or_ctl, tag, ref, ev, val = it
                out.append([loc_or_ctl, tag, ref, ev, val])
            return sorted(out, key=lambda x: [str(y) for y in x])

        def relax(items_impl, items_model):
            """values are compared EXACTLY: the model expands references with C03's model (`Pyxv.Refs.refFor` through
            `Defaults.subRefs`), relative paths included"""
            return canon_sets(items_impl, False), canon_sets(items_model, True)

        li = sorted([l for l in obs["leaves"] if l[0] in qpaths], key=str)
        lm = sorted([l for l in m["leaves"] if l[0] in qpaths], key=str)
        if li != lm:
            ctx.mismatch("instance leaves (path, in template, text)", case, li, lm)
        si, sm = relax([s for s in obs["sets"] if s[1] == "setvalue"], m["sets"])
        if si != sm:
            ctx.mismatch("first-load setvalues (location, ref, event, value)", case, si, sm)
        ti, tm = relax(obs["trigs"], m["trigs"])
        if ti != tm:
            ctx.mismatch("nested value-changed set-nodes (control, tag, ref, value)", case, ti, tm)
        bi = sorted([[p, c] for p, cs in obs["binds"].items() if p in qpaths for c in cs], key=str)
        bm_raw = [[p, c] for p, c in m["binds"] if p in qpaths]
        bm = sorted(bm_raw, key=str)
        if bi != bm:
            ctx.mismatch("bind calculate per question", case, bi, bm)
        mdyn = {n: d for n, d in m["dyn"]}
    else:
        mdyn = None
    # the oracle's classification: the PINNED lexicon and sets (= default_is_dynamic of the source as long as
    # lexer_rules_pinned / dynamic_sets_pinned / classification_is_pinned check; independent of the source afterwards)
    with_default = [q for q, _, _ in walked if q["default"]]
    pinned = ctx.driver.call("lexer.pinned", items=[[q["default"], q["type"]] for q in with_default]) if with_default else []
    dyn = {q["name"]: bool(b) for q, b in zip(with_default, pinned)}
    if mdyn is not None and any(mdyn.get(n) != b for n, b in dyn.items()):
        ctx.mismatch("classification of a default: current tables vs pinned lexicon", case, mdyn, dyn)
    ctx.count("value:relative-reference", sum(1 for x in obs["sets"] + obs["trigs"] if x[4] and " ../" in x[4])
              + sum(1 for cs in obs["binds"].values() for c in cs if c and " ../" in c))
    ctx.count("value:absolute-reference", sum(1 for x in obs["sets"] + obs["trigs"] if x[4] and " /data/" in x[4]))
    # ---- oracle on the implementation's XForm
    if obs["stray"]:
        ctx.fail(Failure("stray-set-node", f"set-node outside model / repeat / control: {obs['stray'][:2]}", case))
    for q, p, reps in walked:
        ctx.count("q:type:" + q["type"])
        leaves = [l for l in obs["leaves"] if l[0] == p]
        inst = [l[2] for l in leaves if not l[1]]
        tmpl = [l[2] for l in leaves if l[1]]
        sets = [s for s in obs["sets"] if s[2] == p and s[1] == "setvalue"]
        is_dyn = bool(q["default"]) and dyn.get(q["name"])
        cls = "none" if not q["default"] else ("dynamic" if is_dyn else "static")
        ctx.count(f"default:{q.get('dclass', '?')}:{cls}:{'repeat' if reps else 'flat'}")
        exp_text = q["default"] if cls == "static" else ""
        site = {"q": q["name"], "type": q["type"], "default": q["default"], "path": p, "class": cls, "data_type": F.data_type(q["type"])}
        if inst != [exp_text]:
            ctx.fail(Failure("instance-text", f"{cls} default {q['default']!r} ({q['type']}): instance node text {inst!r}, expected [{exp_text!r}]", case, extra=site))
        if any(t != exp_text for t in tmpl) or bool(tmpl) != bool(reps):
            ctx.fail(Failure("template-text", f"{cls} default {q['default']!r}: template node texts {tmpl!r}, expected {exp_text!r} ({'some' if reps else 'none'})", case, extra=site))
        if cls == "dynamic":
            want_loc = reps[-1] if reps else None
            want_ev = "odk-instance-first-load odk-new-repeat" if reps else "odk-instance-first-load"
            ok = len(sets) == 1 and sets[0][0] == want_loc and sets[0][3] == want_ev and value_ok(q["default"], reps, info, sets[0][4])
            if not ok:
                ctx.fail(Failure("dynamic-setvalue", f"dynamic default {q['default']!r} at {p}: setvalues {sets!r}, expected exactly one at {want_loc or 'model'} with event {want_ev!r}", case, extra=site))
        elif sets:
            ctx.fail(Failure("unexpected-setvalue", f"{cls} default {q['default']!r} at {p} also has setvalue(s) {sets!r}", case, extra=site))
        # triggers
        trigs = [t for t in obs["trigs"] if t[2] == p]
        calcs = obs["binds"].get(p, [])
        has_calc_attr = any(c is not None for c in calcs)
        if q["trigger"]:
            key = F.clean(q["trigger"])
            shape = trigger_shape(key, by_name, sections)
            ctx.count(f"trigger:{shape}:{'geo' if q['type'] == 'background-geopoint' else ('calculate' if q['type'] == 'calculate' else 'typed')}")
            tsite = {"q": q["name"], "trigger": key, "shape": shape, "type": q["type"], "has_calculate": has_calc_attr, "n_nested": len(trigs)}
            if has_calc_attr:
                ctx.fail(Failure("trigger-and-calculate", f"{p}: trigger {key!r} set but bind calculate is emitted too", case, extra=tsite))
            want_tag = "odk:setgeopoint" if q["type"] == "background-geopoint" else "setvalue"
            if shape == "question":
                t = by_name[REF_RE.findall(key)[0]]
                tp = paths[t["name"]]
                ok = (len(trigs) == 1 and trigs[0][0] == tp and trigs[0][1] == want_tag and trigs[0][3] == "xforms-value-changed"
                      and ((trigs[0][4] is None and not q["calc"]) or (q["calc"] and value_ok(q["calc"], reps, info, trigs[0][4]))))
                if not ok:
                    ctx.fail(Failure("trigger-setvalue", f"{p}: trigger {key!r}: nested set-nodes {trigs!r}, expected one {want_tag} in {tp}", case, extra=tsite))
            elif len(trigs) != 1:
                # the calculation neither became a nested set-node nor stayed a bind calculate
                ctx.fail(Failure("trigger-dropped", f"{p}: trigger cell {key!r} ({shape}): {len(trigs)} nested set-nodes and "
                                 f"{'a' if has_calc_attr else 'no'} bind calculate — the calculation is lost", case, extra=tsite))
        else:
            if trigs:
                ctx.fail(Failure("unexpected-trigger-node", f"{p} has no trigger but nested set-nodes {trigs!r}", case))
            if q["calc"] and not (len(calcs) == 1 and value_ok(F.bind_conv(q["calc"]), reps, info, calcs[0])):
                ctx.fail(Failure("calculate-lost", f"{p}: calculation {q['calc']!r} without trigger: bind calculate {calcs!r}", case))
            if not q["calc"] and has_calc_attr:
                ctx.fail(Failure("unexpected-calculate", f"{p}: bind calculate {calcs!r} without calculation", case))
    ctx.record(case, has_mech and m["outcome"] == "ok")


def q(name, cell="text", **kw):
    tname = dict(F.TYPES).get(cell, cell)
    d = {"k": "q", "name": name, "cell": cell, "type": tname, "default": "", "calc": "", "trigger": "", "labelled": True, "dclass": "directed"}
    d.update(kw)
    return d


def directed_forms():
    """trigger cells that are not one reference to a visible question (formerly finding F8: now rejected by
    Survey._is_usable_trigger — reverting that repair makes the oracle report `trigger-dropped`) and the corner
    cases of the mechanism"""
    a, b = q("a"), q("b", "integer")
    out = []
    for trig in ["${a}, ${b}", "x ${a}", "${a} ${b}", "(${a})"]:
        out.append([dict(a), dict(b), q("c", "calculate", calc="1 + 1", trigger=trig, labelled=False)])
    out.append([{"k": "grp", "name": "g", "kids": [dict(a)]}, q("c", "calculate", calc="1 + 1", trigger="${g}", labelled=False)])
    out.append([{"k": "rep", "name": "r", "kids": [dict(a)]}, q("c", "calculate", calc="1 + 1", trigger="${r}", labelled=False)])
    out.append([q("h", "hidden", labelled=False), q("c", "calculate", calc="1 + 1", trigger="${h}", labelled=False)])
    out.append([q("h", "hidden", labelled=False), q("c", "background-geopoint", trigger="${h}", labelled=False)])
    out.append([q("k", "calculate", calc="1", labelled=False), q("c", "background-geopoint", trigger="${k}", labelled=False)])
    out.append([dict(a), q("c", "integer", calc="${a} + 1", trigger="${a}, ${a}")])
    # well-formed pairings
    out.append([dict(a), q("c", "calculate", calc="${a} + 1", trigger="${a}", labelled=False), q("d", "background-geopoint", trigger="${a}", labelled=False),
                q("e", "decimal", calc="2 * 2", trigger="${a}")])
    out.append([{"k": "rep", "name": "r", "kids": [dict(a), q("c", "calculate", calc="${a} + 1", trigger="${a}", labelled=False),
                                                   {"k": "grp", "name": "g", "kids": [q("d", default="now()"), q("e", "date", default="2020-01-01"),
                                                                                      {"k": "rep", "name": "r2", "kids": [q("f", "integer", default="1 + 1"), q("f2", default="${a}")]}]}]},
                q("z", default="uuid()")])
    # calculation texts that an alias table converts (yes/no/true/false spellings): with a trigger the text goes RAW into
    # the nested setvalue and nothing into the bind; without a trigger the bind carries the converted text
    for i, t in enumerate(F.alias_texts()):
        out.append([dict(a), q("c", "calculate", calc=t, trigger="${a}", labelled=False), q("d", ["text", "integer", "select_one L"][i % 3], calc=t, trigger="${a}"),
                    q("e", "calculate", calc=t, labelled=False), q("f", "decimal", calc=t)])
    # d989f12: a hyphenated date/geo default stays dynamic when a reference or a function call occurs anywhere in it
    out.append([dict(a), q("d1", "date", default="2020-01-01 - ${a}"), q("d2", "q date", default="1 - today()"),
                q("d3", "gps", default="- ${a}"), q("d4", "dateTime", default="1 - 2"), q("d5", "geopoint", default="now() - 1")])
    # former F47 (fixed by 5a69025; regression case): other spellings of the hyphen data types with a lone `-` token in the default
    out.append([q("a", "datetime", default="2020-01-01 - 1"), q("b", "gps", default="- 5"),
                {"k": "rep", "name": "r", "kids": [q("c", "q date", default="1 - 2"), q("d", "location", default="12.3 - 45.6")]}])
    # … and what is NOT affected: well-formed literals are single tokens under every spelling
    out.append([q("a", "datetime", default="2020-01-01T00:00:00"), q("b", "date time", default="2020-01-01T10:20:30+05:30"),
                q("c", "q date", default="2020-01-01"), q("d", "gps", default="12.3 -45.6 0 0"), q("e", "dateTime", default="2020-01-01 - 1")])
    # prefix-related names between a repeat and elements outside it (string-prefix vs path-segment confusion)
    for rep_name, outside in [("r", ["r_x", "rs", "r2"]), ("abc", ["abcd", "abc.e", "abc-f"])]:
        els = [{"k": "rep", "name": rep_name, "kids": [q("in_" + rep_name, default="now()")]}]
        for i, nm in enumerate(outside):
            if i == 1:
                els.append({"k": "grp", "name": nm, "kids": [q("w" + nm.replace(".", "").replace("-", ""), default="1 + 1"), q("s" + str(i), default="abc")]})
            else:
                els.append(q(nm, "integer" if i else "text", default="today()" if i else "uuid()"))
        out.append(els)
        out.append([{"k": "grp", "name": "top", "kids": list(reversed(els))}])
    return out


def explore(ctx, factor, bs):
    rng = ctx.rng
    # lexer correspondence
    n_lex = ctx.pick(24000, 400000) * (1 if factor == 1 else 2)
    batch = []
    for _ in range(n_lex):
        batch.append((LG.token_string(rng), rng.choice(LG.TYPES)))
        if len(batch) == 1000:
            lexer_cases(ctx, batch)
            batch = []
    if batch:
        lexer_cases(ctx, batch)
    if ctx.quick():
        class_map(ctx, 0, 0x3100)
        for _ in range(6):
            lo = rng.randrange(0x3100, 0x110000 - 0x800)
            class_map(ctx, lo, lo + 0x800)
    else:
        class_map(ctx, 0, 0x110000)
    # the mechanism
    if factor == 1:
        for els in directed_forms():
            form_case(ctx, els)
        # every type of the type table × dynamic / static default × no logic columns, outside and inside sections
        for i, t in enumerate(F.enumerable_types()):
            x = q("x", t, default="now()")
            form_case(ctx, [q("a"), x])
            y = q("y", t, default=["abc", "2020-01-01", "7", "a.png"][i % 4])
            inner = [q("a"), dict(x), y]
            form_case(ctx, [{"k": ["grp", "rep"][i % 2], "name": "s", "kids": inner}, q("z", t, default="1 + 1", labelled=F.has_ctl(t))])
    n = ctx.pick(2000, 40000) * factor
    for _ in range(n):
        g = F.Gen(rng, big=not ctx.quick())
        form_case(ctx, g.tree())
    ctx.notes["fragment_share"] = {
        "forms_model_answered": sum(v for k, v in ctx.dist.items() if k.startswith("form:impl:") and not k.endswith("unsupported")),
        "forms_unsupported": sum(v for k, v in ctx.dist.items() if k.startswith("form:impl:") and k.endswith("unsupported")),
        "lexer_strings": ctx.dist.get("lexer:strings", 0),
        "lexer_unsupported": ctx.dist.get("lexer:unsupported", 0),
    }


def replay(ctx, payload, bs):
    before = len(ctx.failures), len(ctx.mismatches)
    case = payload.get("case") or {}
    if "els" in case:
        form_case(ctx, case["els"])
    elif "lex" in case:
        lexer_cases(ctx, [tuple(case["lex"])])
    elif "range" in case:
        class_map(ctx, *case["range"])
    else:
        for mm in payload.get("correspondence_mismatches", []):
            c = mm.get("case", {})
            if "els" in c:
                form_case(ctx, c["els"])
            elif "lex" in c:
                lexer_cases(ctx, [tuple(c["lex"])])
    return (len(ctx.failures), len(ctx.mismatches)) == before and bs.proof_ok


def main(argv):
    return vcore.run_check(PROP, explore, RULE, matchers={}, replay=replay, argv=argv)
