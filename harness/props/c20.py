"""
C20 — advisory warnings fire exactly when their trigger is present.

Theorem side: Pyxv/Proofs/C20.lean (`lev_correct`, `misspelling_iff`, `missing_translation_iff`,
`iana_iff`, the row-level `…_iff`s, `warnings_advisory`) about the model Pyxv/Model/Warnings.lean.

Tie (correspondence), all on inputs generated here, model run through the compiled driver:
  * `utils.levenshtein_distance`              vs `Warn.levenshtein` (and the textbook `Spec.lev` on short strings);
  * `find_sheet_misspellings`                 vs `Warn.findSheetMisspellings`;
  * `sheet_headers.process_header`            vs `Warn.processHeader`;
  * `translations_checks.SheetTranslations`   vs `Warn.findTranslations/findMissing/seenDefaultOnly`;
  * `get_languages_with_bad_tags`             vs `Warn.languagesWithBadTags` (subtag files read here, at run time);
  * whole conversions (`xls2xform.convert` on the workbook dict): the multiset of (kind, subject, row) parsed
    from `ConvertResult.warnings` vs the model's `workbookToJson` + `ianaWarning`.
Oracle (decides the property on the implementation's own output): that multiset equals the one *due* by the
trigger predicates `Warn.Spec.dueOn` / `Spec.ianaDueW` evaluated in Lean on the workbook; and "advisory only":
the XForm does not depend on the warnings list passed in nor on extra (misspelt) sheet names, and the list
passed in is only appended to.
"""

from __future__ import annotations

import copy
import itertools
import json
import re
import xml.etree.ElementTree as ET

import gen
import vcore
from vcore import Failure, REPO

PROP = "C20"
RULE = (
    "bounded-exhaustive: or_other spellings x language on survey only / choices only / both / none x column; settings sheets with form_id / id_string headers in both orders x each/both/neither cell filled; begin group/repeat x 6 label shapes x 7 appearances (field-list / table-list combinations) x 3 placements; every 3-choice list over 2 names x labeled/unlabeled x duplicates allowed or not; every subset of 3 translatable columns x {default, 2 languages} on the survey sheet and on the "
    "choices sheet (512 each per column triple, converted), every string within edit radius 1 of each supported sheet "
    "name over a 31-letter alphabet, each also in upper / title / mixed case; the similar-names hint of the missing-sheet errors (survey, choices, external_choices) (+ samples of radius 2/3, case variants, underscore prefixes), language labels x "
    "bracketed-code shapes; random: generated forms with row-level triggers (disabled, comment rows, deprecated types, "
    "unlabeled groups/repeats/choices, image parameters, select_one_external, or_other, duplicate id headers, "
    "misspelt sheet names, 0-3 languages with sparse translations) placed at random; direct function-level "
    "correspondence for levenshtein / misspellings / process_header / SheetTranslations / IANA. "
    "distinct = canonical hash of the case; non-trivial = conversion accepted (workbook cases) or inputs differing "
    "(function cases)"
)

# --------------------------------------------------------------------------- parsing the implementation's warnings

SUPPRESS = (
    " If you do not mean to include a sheet, to suppress this message, prefix the sheet name with an underscore. "
    "For example 'setting' becomes '_setting'."
)
DUP_ID = (
    "The form_id and id_string column headers are both specified in the settings sheet provided. This may cause "
    "errors during conversion. In future, its best to avoid specifying both column headers in the settings sheet."
)
OR_OTHER = (
    "This form uses or_other and translations, which is not recommended. An untranslated input question label and "
    "choice label is generated for 'other'. Learn more: https://xlsform.org/en/#specify-other)."
)
PATTERNS = [
    ("misspell", re.compile(r"When looking for a sheet named '([a-z_]+)', the following sheets with similar names were found: (.*)\." + re.escape(SUPPRESS), re.S)),
    ("choice_header", re.compile(r"\[row : 1\] On the 'choices' sheet, the '(.*)' value is invalid\. Column headers must not be empty and must not contain spaces\. Learn more: https://xlsform\.org/en/#setting-up-your-worksheets", re.S)),
    ("choice_no_label", re.compile(r"\[row : (\d+)\] On the 'choices' sheet, the 'label' value is invalid\. Choices should have a label\. Learn more: https://xlsform\.org/en/#setting-up-your-worksheets")),
    ("disabled", re.compile(r"\[row : (\d+)\] The 'disabled' column header is not part of the current spec\. We recommend using relevant instead\.")),
    ("skipped", re.compile(r"\[row : (\d+)\] Row without name, text, or label is being skipped:\n.*", re.S)),
    ("deprecated", re.compile(r"\[row : (\d+)\] (.*) is no longer supported on most devices\. Only old versions of Collect on Android versions older than 11 still support it\.", re.S)),
    ("no_label", re.compile(r"\[row : (\d+)\] (Group|Repeat|Loop) has no label: \{'name': .*, 'type': .*\}", re.S)),
    ("ext_no_filter", re.compile(r"\[row : (\d+)\] select one external is only meant for filtered selects\.")),
    ("no_max_pixels", re.compile(r"\[row : (\d+)\] Use the max-pixels parameter to speed up submission sending and save storage space\. Learn more: https://xlsform\.org/#image")),
    ("iana", re.compile(r"The following language declarations do not contain valid machine-readable codes: (.*)\. Learn more: http://xlsform\.org#multiple-language-support", re.S)),
]
MISSING_LINE = re.compile(r"Language '(.*)' is missing the (survey|choices) (?:(\S+) column|columns (.*))\.", re.S)


def split_quoted(s: str):
    if not (s.startswith("'") and s.endswith("'")):
        return None
    return s[1:-1].split("', '")


def parse_warning(text: str) -> list:
    """One warning string -> list of observation entries [kind, subject…, row]."""
    if text == DUP_ID:
        return [["dup_id"]]
    if text == OR_OTHER:
        return [["or_other"]]
    if text.startswith("Language '"):
        out = []
        # one line per language (language labels never contain "\nLanguage '" in generated inputs)
        for line in re.split(r"\n(?=Language ')", text):
            m = MISSING_LINE.fullmatch(line)
            if not m:
                return [["unparsed", text]]
            lang, sheet, one, many = m.groups()
            cols = [one] if one is not None else many.split(", ")
            if many is not None and cols != sorted(cols):
                return [["unparsed", text]]
            out += [["missing_tr", sheet, lang, c] for c in cols]
        return out
    for kind, pat in PATTERNS:
        m = pat.fullmatch(text)
        if not m:
            continue
        g = m.groups()
        if kind == "misspell":
            cands = split_quoted(g[1])
            if cands is None:
                break
            return [["misspell", g[0], cands]]
        if kind == "choice_header":
            return [["choice_header", g[0]]]
        if kind in ("choice_no_label", "disabled", "skipped", "ext_no_filter", "no_max_pixels"):
            return [[kind, int(g[0])]]
        if kind == "deprecated":
            return [["deprecated", int(g[0]), g[1]]]
        if kind == "no_label":
            return [["no_label", int(g[0]), g[1].lower()]]
        if kind == "iana":
            return [["iana", g[0].split(", ")]]
    return [["unparsed", text]]


def canon(obs: list) -> list:
    return sorted(json.dumps(o, ensure_ascii=False) for o in obs)


# --------------------------------------------------------------------------- cases

SHEETS = ("survey", "choices", "settings", "external_choices", "entities")


def cols_of(case, s):
    cols = list(case.get(s + "_cols") or [])
    for r in case.get(s) or []:
        for k in r:
            if k not in cols:
                cols.append(k)
    return cols


def to_dict(case: dict) -> dict:
    """The workbook dict accepted by convert(): rows hold only non-empty cells."""
    out = {}
    names = []
    for s in SHEETS:
        if case.get(s) is not None:
            out[s] = [{k: v for k, v in r.items() if v not in (None, "")} for r in case[s]]
            cols = cols_of(case, s)
            out[s + "_header"] = [{c: None for c in cols}] if cols else []
            names.append(s)
    out["sheet_names"] = list(case["sheet_names"]) if case.get("sheet_names") is not None else names
    return out


def view_of(case: dict) -> dict:
    """What the Lean model reads of the workbook."""
    d = to_dict(case)

    def rows(s):
        return [[[k, str(v)] for k, v in r.items()] for r in d.get(s, [])]

    return {
        "sheet_names": d["sheet_names"],
        "survey_header": cols_of(case, "survey"),
        "survey": rows("survey"),
        "choices_header": cols_of(case, "choices"),
        "choices": rows("choices"),
        "settings_header": cols_of(case, "settings"),
        "settings_rows": len(d.get("settings", [])),
        "has_entities": bool(d.get("entities")),
    }


def run_impl(case: dict, warnings=None, sheet_names=None) -> dict:
    from pyxform.errors import PyXFormError
    from pyxform.xls2xform import convert

    d = to_dict(case)
    if sheet_names is not None:
        d["sheet_names"] = sheet_names
    w = warnings
    try:
        res = convert(xlsform=copy.deepcopy(d), warnings=w)
    except PyXFormError as e:
        return {"class": "pyxform", "ok": False, "msg": str(e)}
    except RecursionError:
        return {"class": "internal", "ok": False, "msg": "RecursionError"}
    except Exception as e:  # noqa: BLE001
        return {"class": "internal", "ok": False, "msg": f"{type(e).__name__}: {e}"}
    return {"class": "ok", "ok": True, "xform": res.xform, "warnings": list(res.warnings), "_survey": res._survey}


XF = "{http://www.w3.org/2002/xforms}"
_TAGS = None


def iana_tags() -> set:
    global _TAGS
    if _TAGS is None:
        d = REPO / "pyxform" / "validators" / "pyxform" / "iana_subtags"
        _TAGS = set()
        for f in ("iana_subtags_2_characters.txt", "iana_subtags_3_or_more_characters.txt"):
            with open(d / f, encoding="utf-8") as fh:
                _TAGS |= {line.strip() for line in fh}
    return _TAGS


def relevant_tags(langs) -> list:
    """The subtag table restricted to substrings of the labels (the model only ever asks about those)."""
    tags = iana_tags()
    out = set()
    for l in langs:
        for i in range(len(l)):
            for j in range(i, min(len(l), i + 12) + 1):
                if l[i:j] in tags:
                    out.add(l[i:j])
    return sorted(out)


def xform_languages(xform: str) -> list:
    root = ET.fromstring(xform)
    return [t.get("lang") for t in root.iter(XF + "translation")]


# --------------------------------------------------------------------------- known findings (precise shapes)


def strip_short_langs(obs: list) -> tuple[list, bool]:
    """Remove from the *due* IANA warning the languages of fewer than 3 characters (F39's shape)."""
    hit = False
    out = []
    for o in obs:
        if o[0] == "iana":
            keep = [l for l in o[1] if len(l) >= 3]
            if len(keep) != len(o[1]):
                hit = True
                if keep:
                    out.append(["iana", keep])
                continue
        out.append(o)
    return out, hit


# --------------------------------------------------------------------------- one workbook case


def workbook_case(ctx, case: dict, tag: str, advisory: bool = False, must_convert: str | None = None):
    r = run_impl(case)
    ctx.count(f"{tag}:impl_{r['class']}")
    if not r["ok"] and must_convert:
        # the same workbook without the warning's trigger converts: warnings never suppress the conversion result
        ctx.fail(Failure("conversion-suppressed", f"{must_convert}: {r['class']}: {r['msg'][:200]}",
                         {"kind": "workbook", "case": case, "must_convert": must_convert}, signature="advisory-abort"))
    if not r["ok"]:
        # no warnings are observable; errors are C17's business
        ctx.record({"wb": case}, False)
        return None
    impl_obs = [e for w in r["warnings"] for e in parse_warning(w)]
    langs = xform_languages(r["xform"])
    m = ctx.driver.call("warn.workbook", **view_of(case))
    ctx.count("model:" + m["outcome"])
    if m["outcome"] == "unsupported":
        ctx.count("unsupported:" + m.get("why", ""))
        ctx.record({"wb": case}, True)
        return r
    if m.get("old_fragment"):
        ctx.count("model:old_fragment")
    if m["outcome"] == "error":
        ctx.mismatch("model predicts an error, implementation converts", case, r["warnings"], m)
        ctx.record({"wb": case}, True)
        return r
    ia = iana_from_model(ctx, case, r, langs)
    model_obs = m["model"] + ia["model"]
    spec_obs = m["spec"] + ia["spec"]
    for o in impl_obs:
        ctx.count("warning:" + o[0])
    if not impl_obs:
        ctx.count("warning:none")
    if canon(impl_obs) != canon(model_obs):
        # a repaired known defect (implementation = what is due, model = due modulo the finding's shape) is not a
        # disagreement: the model carries the defect's copy until the finding is closed
        s2, _ = strip_short_langs(spec_obs)
        if canon(impl_obs) == canon(spec_obs) and canon(model_obs) == canon(s2):
            ctx.count("known-finding-repaired-in-implementation")
        else:
            ctx.mismatch("warnings multiset: model vs implementation", case, canon(impl_obs), canon(model_obs))
    # the oracle, on the implementation's output
    if canon(impl_obs) != canon(spec_obs):
        s2, f39 = strip_short_langs(spec_obs)
        if f39 and canon(impl_obs) == canon(s2):
            ctx.fail(Failure("iana-short-language", "a language label shorter than 3 characters has no valid code but is not reported",
                             {"kind": "workbook", "case": case}, signature="F39",
                             extra={"impl": canon(impl_obs), "due": canon(spec_obs)}))
        else:
            extra = sorted(set(canon(impl_obs)) - set(canon(spec_obs)))
            lack = sorted(set(canon(spec_obs)) - set(canon(impl_obs)))
            ctx.fail(Failure("warnings-differ", f"emitted but not due: {extra[:4]}; due but not emitted: {lack[:4]}",
                             {"kind": "workbook", "case": case}, signature="warnings-differ",
                             extra={"impl": canon(impl_obs), "due": canon(spec_obs), "raw": r["warnings"]}))
    if advisory:
        advisory_case(ctx, case, r)
    ctx.record({"wb": case}, True)
    return r


def iana_from_model(ctx, case, r, xform_langs):
    """The IANA warning computed on the language set of the *model* (C07's itext model run on the built survey,
    `warn.iana_survey`); outside that model's fragment the languages are read from the implementation's XForm."""
    import itext_common as ic

    cand = set(xform_langs)
    for s_ in ("survey", "choices"):
        for c in cols_of(case, s_):
            cand.update(p.strip() for p in c.split("::")[1:])
            cand.update(p.strip() for p in c.split(":")[1:] if p.strip())
    for row in case.get("settings") or []:
        cand.update(str(v) for v in row.values())
    tags = relevant_tags(sorted(cand))
    try:
        x = ic.extract(r["_survey"])
        v = ctx.driver.call("warn.iana_survey", survey=x, tags=tags)
    except ic.Unsupported:
        v = {"outcome": "unsupported"}
    if v["outcome"] == "ok":
        ctx.count("iana:languages_from_itext_model")
        if v["langs"] != xform_langs:
            ctx.count("iana:model_languages_differ_from_xform")
        return v
    ctx.count("iana:languages_from_xform")
    return ctx.driver.call("warn.iana", langs=xform_langs, tags=relevant_tags(xform_langs))


def advisory_case(ctx, case, r):
    """Warnings are advisory only: the list passed in is only appended to and the XForm does not depend on it;
    sheet names that only trigger spelling warnings do not alter the XForm."""
    pre = ["<sentinel>", "x"]
    w = list(pre)
    r2 = run_impl(case, warnings=w)
    ctx.count("advisory:prefilled")
    if not r2["ok"] or r2["xform"] != r["xform"] or w[: len(pre)] != pre or w[len(pre):] != r["warnings"] or r2["warnings"] != w:
        ctx.fail(Failure("advisory-prefilled", "conversion depends on (or rewrites) the warnings list passed in",
                         {"kind": "advisory", "case": case}, signature="advisory",
                         extra={"first": r["warnings"], "second": w, "ok": r2["ok"]}))
    names = list(to_dict(case)["sheet_names"]) + ["setings", "entitys", "Chioces"]
    r3 = run_impl(case, sheet_names=names)
    ctx.count("advisory:extra_sheet_names")
    if not r3["ok"] or r3["xform"] != r["xform"]:
        ctx.fail(Failure("advisory-sheet-names", "extra (misspelt) sheet names suppress or alter the conversion result",
                         {"kind": "advisory", "case": case}, signature="advisory",
                         extra={"ok": r3["ok"], "msg": r3.get("msg")}))


# --------------------------------------------------------------------------- function-level correspondence

ALPHA = list("abcdefghijklmnopqrstuvwxyz") + ["_", "S", "E", "1", " "]
SUPPORTED = ["survey", "choices", "settings", "external_choices", "osm", "entities"]


def radius1(s: str):
    out = {s}
    for i in range(len(s)):
        out.add(s[:i] + s[i + 1:])
        for c in ALPHA:
            out.add(s[:i] + c + s[i + 1:])
    for i in range(len(s) + 1):
        for c in ALPHA:
            out.add(s[:i] + c + s[i:])
    return out


def rand_edit(rng, s: str) -> str:
    k = rng.randint(0, 2)
    i = rng.randint(0, len(s))
    c = rng.choice(ALPHA + ["É", "T", "x"])
    if k == 0 and s:
        i = min(i, len(s) - 1)
        return s[:i] + s[i + 1:]
    if k == 1 and s:
        i = min(i, len(s) - 1)
        return s[:i] + c + s[i + 1:]
    return s[:i] + c + s[i:]


def lev_cases(ctx, n):
    from pyxform.utils import levenshtein_distance

    rng = ctx.rng
    words = SUPPORTED + ["", "a", "ab", "kitten", "sitting", "Settings", "_settings", "flaw", "lawn", "ééé", "日本語", "aaaa", "abab", "baba"]
    for _ in range(n):
        a = rng.choice(words)
        b = rng.choice(words) if rng.random() < 0.5 else a
        for _ in range(rng.randint(0, 4)):
            a = rand_edit(rng, a)
        for _ in range(rng.randint(0, 3)):
            b = rand_edit(rng, b)
        if rng.random() < 0.1:
            a = "".join(rng.choice("ab") for _ in range(rng.randint(0, 7)))
            b = "".join(rng.choice("ab") for _ in range(rng.randint(0, 7)))
        i = levenshtein_distance(a, b)
        mo = ctx.driver.call("warn.lev", a=a, b=b)
        ctx.count("lev:pairs")
        if i != mo:
            ctx.mismatch("levenshtein: model vs implementation", {"a": a, "b": b}, i, mo)
        if len(a) <= 6 and len(b) <= 6:
            sp = ctx.driver.call("warn.lev_spec", a=a, b=b)
            ctx.count("lev:spec_pairs")
            if i != sp:
                ctx.fail(Failure("levenshtein-wrong", f"levenshtein_distance({a!r}, {b!r}) = {i}, edit distance is {sp}",
                                 {"kind": "lev", "a": a, "b": b}, signature="lev"))
        ctx.record({"lev": [a, b]}, a != b)


def misspell_direct(ctx, key: str, keys: list):
    """find_sheet_misspellings called directly on a batch of sheet names."""
    from pyxform.validators.pyxform.sheet_misspellings import find_sheet_misspellings

    # the model's `lower` is ASCII: names with other characters go through the implementation only (counted)
    nonascii = [k for k in keys if not k.isascii()]
    if nonascii:
        ctx.count("misspell:non_ascii_names_skipped", len(nonascii))
        find_sheet_misspellings(key=key, keys=nonascii)  # must not raise
        keys = [k for k in keys if k.isascii()]
        if not keys:
            return
    msg = find_sheet_misspellings(key=key, keys=keys)
    if msg is None:
        impl = None
    else:
        m = re.fullmatch(r"When looking for a sheet named '(.*)', the following sheets with similar names were found: (.*)\.", msg, re.S)
        impl = split_quoted(m.group(2)) if m and m.group(1) == key else ["<unparsed>", msg]
    v = ctx.driver.call("warn.misspell", key=key, keys=keys)
    ctx.count("misspell:names", len(keys))
    if v["outcome"] != "ok":
        ctx.count("misspell:unsupported")
        return
    if impl != v["model"]:
        ctx.mismatch("find_sheet_misspellings: model vs implementation", {"key": key, "keys": keys[:50]}, impl, v["model"])
    # oracle: candidates = names within distance 2 that are not a spelling of a supported sheet, not underscore-prefixed
    due = v["spec"]
    got = impl or []
    if got != due:
        ctx.fail(Failure("misspelling-candidates", f"key {key}: reported but not due {[c for c in got if c not in due][:6]}, due but not reported {[c for c in due if c not in got][:6]}",
                         {"kind": "misspell", "key": key, "keys": keys}, signature="misspell-direct"))


def case_variants(s: str) -> list:
    """upper, title, and two mixed-case spellings of a name"""
    alt = "".join(c.upper() if i % 2 else c.lower() for i, c in enumerate(s))
    return [s.upper(), s.capitalize(), alt, alt.swapcase()]


def misspell_cases(ctx, factor):
    rng = ctx.rng
    for key in SUPPORTED:
        names = sorted(radius1(key))
        ctx.count("misspell:radius1_exhaustive", len(names))
        # every near miss also in upper / title / mixed case (the comparison is made on the lower-cased name)
        cased = sorted({v for n in names for v in case_variants(n)} - set(names))
        ctx.count("misspell:radius1_case_variants", len(cased))
        names = names + cased
        for i in range(0, len(names), 400):
            misspell_direct(ctx, key, names[i:i + 400])
            ctx.record({"misspell": [key, i]}, True)
        # radius 2 / 3 samples, case variants, underscore prefixes
        pool = []
        for _ in range(ctx.pick(300, 4000) * factor):
            s = key
            for _ in range(rng.choice([2, 2, 3])):
                s = rand_edit(rng, s)
            if rng.random() < 0.15:
                s = "_" + s
            if rng.random() < 0.4:
                s = rng.choice(case_variants(s))
            if "'" not in s:
                pool.append(s)
        pool += [key.upper(), key.capitalize(), "_" + key, key + "s", key[:-1]] + SUPPORTED
        for i in range(0, len(pool), 400):
            misspell_direct(ctx, key, pool[i:i + 400])
            ctx.record({"misspell2": [key, pool[i:i + 3]]}, True)


HEADER_WORDS = [
    "label", "Label", "hint", "guidance_hint", "image", "big-image", "audio", "video", "media::image", "constraint_message",
    "required_message", "constraint message", "Constraint_Message", "bind::jr:constraintMsg", "bind::jr:requiredMsg",
    "type", "name", "Type", " name ", "relevant", "calculation", "appearance", "parameters", "choice_filter", "disabled",
    "Disabled", "my col", "", "caption", "list_name", "list name", "List_Name", "value", "repeat_count", "read_only",
    "body::accuracyThreshold", "instance::x", "bind::relevant", "control::appearance", "default", "trigger", "note",
    "sms_field", "save_to", "jr:count", "requiredmsg", "noapperrorstring", "extra", "Extra Col", "media::audio",
]
LANG_WORDS = ["en", "fr", "English (en)", "Français (fr)", "French", " es ", "default", "a b", "x::y", "(en)", "E"]


def header_cases(ctx, n):
    from pyxform import aliases
    from pyxform.parsing.sheet_headers import process_header
    from pyxform.question import MultipleChoiceQuestion, Option

    rng = ctx.rng
    tabs = {
        "survey": (aliases.survey_header, set(MultipleChoiceQuestion.get_slot_names())),
        "choices": (aliases.list_header, set(Option.get_slot_names())),
    }
    for _ in range(n):
        h = rng.choice(HEADER_WORDS)
        k = rng.random()
        if k < 0.45:
            h = h + rng.choice(["::", " :: ", "::  "]) + rng.choice(LANG_WORDS)
        elif k < 0.5:
            h = h + "::" + rng.choice(LANG_WORDS) + "::" + rng.choice(LANG_WORDS)
        elif k < 0.55:
            h = h + ":" + rng.choice(LANG_WORDS)
        elif k < 0.75:
            # phase 8: the single-colon branch, with `jr` tokens in every position (last position: IndexError)
            toks = [rng.choice(HEADER_WORDS + ["jr", "jr", " jr ", "bind", "media"])]
            for _ in range(rng.choice([0, 1, 1, 2, 3])):
                toks.append(rng.choice(LANG_WORDS + ["jr", "jr", " jr", "constraintMsg", "count", "JR", "jr "]))
            h = rng.choice([":", ":", " : "]).join(toks)
        use_dc = "::" in h or rng.random() < 0.5
        sheet = rng.choice(["survey", "choices"])
        try:
            impl = list(process_header(header=h, use_double_colon=use_dc, header_aliases=tabs[sheet][0], header_columns=tabs[sheet][1])[1])
        except Exception as e:  # noqa: BLE001
            impl = ["<exception>", type(e).__name__]
        mo = ctx.driver.call("warn.header", header=h, use_dc=use_dc, sheet=sheet)
        ctx.count("header:cases")
        if ":" in h.replace("::", "") and not use_dc:
            ctx.count("header:single_colon")
        if impl[:1] == ["<exception>"]:
            ctx.count("header:impl_raises_" + impl[1])
        if mo is None:
            ctx.count("header:unsupported")
        elif impl != mo:
            ctx.mismatch("process_header: model vs implementation", {"header": h, "use_dc": use_dc, "sheet": sheet}, impl, mo)
        ctx.record({"header": [h, use_dc, sheet]}, True)


def translations_direct(ctx, sv: list, ch: list):
    """SheetTranslations on token tuples, compared with the model and with the documented trigger."""
    from pyxform.validators.pyxform.translations_checks import SheetTranslations

    st = SheetTranslations(survey_sheet=tuple(tuple(h) for h in sv), choices_sheet=tuple(tuple(h) for h in ch))
    impl = {
        "survey": sorted((l, sorted(c)) for l, c in st.survey.missing.items()),
        "choices": sorted((l, sorted(c)) for l, c in st.choices.missing.items()),
        "sdo": st.survey.seen_default_only(),
        "cdo": st.choices.seen_default_only(),
    }
    v = ctx.driver.call("warn.translations", survey=sv, choices=ch)
    model = {
        "survey": sorted((l, sorted(c)) for l, c in v["survey"]),
        "choices": sorted((l, sorted(c)) for l, c in v["choices"]),
        "sdo": v["survey_default_only"],
        "cdo": v["choices_default_only"],
    }
    ctx.count("translations:direct")
    if json.dumps(impl, sort_keys=True) != json.dumps(model, sort_keys=True):
        ctx.mismatch("SheetTranslations: model vs implementation", {"survey": sv, "choices": ch}, impl, model)
    w = []
    st.missing_check(w)
    got = canon([e for x in w for e in parse_warning(x)])
    due = canon(v["spec"])
    if got != due:
        ctx.fail(Failure("missing-translations", f"reported {got[:5]} due {due[:5]}",
                         {"kind": "translations", "survey": sv, "choices": ch}, signature="translations-direct"))
    ctx.record({"tr": [sv, ch]}, bool(sv or ch))


SURVEY_TR = ["label", "hint", "guidance_hint", "image", "big-image", "audio", "video", "constraint_message", "required_message"]
CHOICES_TR = ["label", "image", "big-image", "audio", "video"]
TOKENS = {
    "label": ["label"], "hint": ["hint"], "guidance_hint": ["guidance_hint"], "image": ["media", "image"],
    "big-image": ["media", "big-image"], "audio": ["media", "audio"], "video": ["media", "video"],
    "constraint_message": ["bind", "jr:constraintMsg"], "required_message": ["bind", "jr:requiredMsg"],
}


def cell_value(col: str, lang) -> str:
    if col in ("image", "big-image"):
        return "p.png"
    if col == "audio":
        return "a.mp3"
    if col == "video":
        return "v.mp4"
    return f"{col} {lang or ''}".strip()


def translation_form(sv_cells, ch_cells, extra_survey=None):
    """A small valid form whose survey / choices sheets have exactly the given (column, language|None) headers."""
    def hdr(c, l):
        return c if l is None else f"{c}::{l}"

    q = {"type": "select_one l1", "name": "q"}
    for c, l in sv_cells:
        q[hdr(c, l)] = cell_value(c, l)
    if any(c == "constraint_message" for c, _ in sv_cells):
        q["constraint"] = ". != 'x'"
    if any(c == "required_message" for c, _ in sv_cells):
        q["required"] = "yes"
    c1 = {"list_name": "l1", "name": "a"}
    c2 = {"list_name": "l1", "name": "b"}
    for c, l in ch_cells:
        c1[hdr(c, l)] = cell_value(c, l)
        c2[hdr(c, l)] = cell_value(c, l)
    case = {
        "survey": [q] + (extra_survey or []),
        "survey_cols": ["type", "name"] + [hdr(c, l) for c, l in sv_cells],
        "choices": [c1, c2],
        "choices_cols": ["list_name", "name"] + [hdr(c, l) for c, l in ch_cells],
    }
    return case


def translation_enum(ctx, factor):
    """All subsets of (3 columns x {default, L1, L2}) on one sheet (512), the other sheet rotating through
    the same family; converted by the implementation."""
    rng = ctx.rng
    lang_sets = [[None, "English (en)", "fr"], [None, "French", "Español (es)"], [None, "de", "Deutsch (xx)"]]
    n_triples = ctx.pick(1, 4) * factor
    for t in range(n_triples):
        sv_cols = ["label"] + rng.sample(SURVEY_TR[1:], 2) if t else ["label", "hint", "image"]
        ch_cols = ["label"] + rng.sample(CHOICES_TR[1:], 2) if t else ["label", "image", "audio"]
        langs = lang_sets[t % len(lang_sets)]
        sv_all = [(c, l) for c in sv_cols for l in langs]
        ch_all = [(c, l) for c in ch_cols for l in langs]
        subsets = list(range(512))
        for s in subsets:
            sv_cells = [x for i, x in enumerate(sv_all) if s >> i & 1]
            o = (s * 37 + 11) % 512
            ch_cells = [x for i, x in enumerate(ch_all) if o >> i & 1]
            for a, b in ((sv_cells, ch_cells), (ch_cells_to_sv(ch_cells, sv_cols, ch_cols), sv_cells_to_ch(sv_cells, sv_cols, ch_cols))):
                # function level (always), conversion level (first orientation in quick, both in thorough)
                sv_t = [["type"], ["name"]] + [TOKENS[c] + ([l] if l else []) for c, l in a]
                ch_t = [["list name"], ["name"]] + [TOKENS[c] + ([l] if l else []) for c, l in b]
                translations_direct(ctx, sv_t, ch_t)
            ctx.count("translations:enumerated_subsets")
            workbook_case(ctx, translation_form(sv_cells, ch_cells), "tr_enum")
            if not ctx.quick():
                workbook_case(ctx, translation_form(ch_cells_to_sv(ch_cells, sv_cols, ch_cols), sv_cells_to_ch(sv_cells, sv_cols, ch_cols)), "tr_enum")
    # small full product: 2 columns x 2 languages on both sheets (16 x 16)
    if not ctx.quick() or factor > 1:
        sv_all = [(c, l) for c in ("label", "hint") for l in (None, "fr")]
        ch_all = [(c, l) for c in ("label", "audio") for l in (None, "fr")]
        for s in range(16):
            for o in range(16):
                workbook_case(ctx, translation_form([x for i, x in enumerate(sv_all) if s >> i & 1],
                                                    [x for i, x in enumerate(ch_all) if o >> i & 1]), "tr_product")


def ch_cells_to_sv(cells, sv_cols, ch_cols):
    m = dict(zip(ch_cols, sv_cols))
    return [(m[c], l) for c, l in cells]


def sv_cells_to_ch(cells, sv_cols, ch_cols):
    m = dict(zip(sv_cols, ch_cols))
    return [(m[c], l) for c, l in cells]


LANG_NAMES = ["English", "Français", "e", "", "Acoli", "x y", "default", "日本語", "a(b"]
CODE_SHAPES = ["", "(en)", " (en)", "(fr)", " (ach)", "(bos)", " (schm)", "()", "(", ")", "((en))", "(en)(fr)", " (en) ", "(en)x",
               "(EN)", " (zh-Hans)", "(x)(en)", "\n(en)", "(e\nn)", "(en)\n", " (fr", "fr)", "(fr))", " ( fr )"]


def iana_boundary_codes() -> list:
    """Codes at the boundaries of the two subtag tables (own reading of the files: split on newlines, strip): first /
    last / shortest / longest entries, their neighbours, and near misses (truncations, extensions, case variants)."""
    d = REPO / "pyxform" / "validators" / "pyxform" / "iana_subtags"
    out = []
    for f in ("iana_subtags_2_characters.txt", "iana_subtags_3_or_more_characters.txt"):
        own = [x.strip() for x in (d / f).read_text(encoding="utf-8").split("\n") if x.strip()]
        bylen = sorted(own, key=len)
        members = own[:3] + own[-3:] + bylen[:3] + bylen[-3:]
        out += members
        for m in members:
            out += [m[:-1], m[1:], m + "x", m + m[-1], m.upper(), m[:-1] + "q"]
    return [c for c in dict.fromkeys(out) if c and "'" not in c]


def iana_cases(ctx, n):
    from pyxform.validators.pyxform.iana_subtags.validation import get_languages_with_bad_tags

    rng = ctx.rng
    labels = [a + b for a in LANG_NAMES for b in CODE_SHAPES] + ["en", "fr", "ab", "(a)", "a()", "abc", "default"]
    boundary = [f"Lang {i} ({c})" for i, c in enumerate(iana_boundary_codes())]
    ctx.count("iana:boundary_codes", len(boundary))
    labels += boundary
    ctx.count("iana:labels_enumerated", len(labels))
    batches = [labels[i:i + 40] for i in range(0, len(labels), 40)]
    for _ in range(n):
        batches.append(rng.sample(labels, rng.randint(1, 5)))
    for langs in batches:
        impl = list(get_languages_with_bad_tags(langs))
        v = ctx.driver.call("warn.iana", langs=langs, tags=relevant_tags(langs))
        ctx.count("iana:batches")
        due = v["spec"][0][1] if v["spec"] else []
        if impl != v["bad"]:
            if impl == due and v["bad"] == [l for l in due if len(l) >= 3]:
                ctx.count("known-finding-repaired-in-implementation")  # F39 repaired; the model still carries its copy
            else:
                ctx.mismatch("get_languages_with_bad_tags: model vs implementation", {"langs": langs}, impl, v["bad"])
        if impl != due:
            s2, f39 = strip_short_langs(v["spec"])
            if f39 and impl == (s2[0][1] if s2 else []):
                ctx.fail(Failure("iana-short-language", "a language label shorter than 3 characters has no valid code but is not reported",
                                 {"kind": "iana", "langs": langs}, signature="F39"))
            else:
                ctx.fail(Failure("iana-differs", f"reported {impl[:5]} due {due[:5]}", {"kind": "iana", "langs": langs}, signature="iana-direct"))
        ctx.record({"iana": langs}, True)


# --------------------------------------------------------------------------- generated forms with row-level triggers

LANG_POOL = ["English (en)", "French (fr)", "fr", "Español", "Deutsch (de)", "Bosnian (bos)", "en", "Acoli (ach)", "Klingon (tlh) "]
BAD_SHEETS = ["setting", "Settings", "setings", "_settings", "entity", "entitie", "Entities", "ENTITIES", "choice", "survy",
              "osm", "notes", "stings", "settingss", "settinsg", "sett", "entities2", "_entities", "SETTINGS", "external_choice",
              "SETTING", "Setingz", "STETINGS", "sEtTiNg", "ENTITIE", "Entitys", "eNtItIeZ", "SETINGS", "Sett1ngs"]


def triggered_form(rng, big=False) -> dict:
    nl = rng.choice([0, 0, 1, 2, 2, 3])
    langs = rng.sample(LANG_POOL, nl)
    form = gen.gen_form(
        rng, langs=langs, n=(1, 25 if big else 10), max_depth=rng.choice([1, 2, 3]), p_group=0.18, p_repeat=0.12,
        p_select=0.25, p_meta=0.08, p_settings=0.4, p_hint=0.5, p_logic=0.25, plain_text=True,
        types=gen.SIMPLE_TYPES + ["image", "image", "photo", "subscriberid", "simserial", "deviceid", "audit"],
    )
    survey = form["survey"]
    choices = form.get("choices")
    case = {"survey": survey}
    external = False
    for row in survey:
        t = row.get("type", "")
        r = rng.random()
        if t in ("image", "photo"):
            p = rng.choice([None, None, "max-pixels=1024", "max-pixels=640;app=com.example.app", "app=com.example.app",
                            "MAX-PIXELS=100", "max-pixels=5, app=com.a.b", "app=com.a.b max-pixels=3"])
            if p:
                row["parameters"] = p
        if t == "audit":
            row.pop("name", None)
            for k in [k for k in row if k.startswith(("label", "hint"))]:
                row.pop(k)
        if t.startswith("begin "):
            if r >= 0.35 and rng.random() < 0.25:
                row["appearance"] = rng.choice(["field-list", "table-list", "field-list compact", "table-list compact", "compact"])
            if r < 0.35:
                for k in [k for k in row if k.startswith("label")]:
                    row.pop(k)
                r2 = rng.random()
                if r2 < 0.2 and t == "begin group":
                    row["appearance"] = rng.choice(["field-list", "field-list", "field-list compact", "table-list"])
                elif r2 < 0.3:
                    row["image" + (("::" + rng.choice(langs)) if langs and rng.random() < 0.5 else "")] = "g.png"
            if rng.random() < 0.2:
                row["type"] = t.replace(" ", "_", 1)
        if t.startswith(("select_one ", "select_multiple ")) and "choice_filter" not in row:
            if r < 0.2:
                row["type"] = t + rng.choice([" or_other", " or other", " or specify other"])
            elif r < 0.35 and t.startswith("select_one "):
                ln = t.split(" ")[1]
                row["type"] = "select_one_external " + ln
                external = True
                if rng.random() < 0.5:
                    row["choice_filter"] = "state=1"
    # disabled column
    if rng.random() < 0.3:
        text = json.dumps(survey)
        for row in survey:
            if rng.random() < 0.4:
                # switching a row off must not unbalance the sections nor orphan a ${reference}
                structural = row.get("type", "").startswith(("begin", "end")) or ("${%s}" % row.get("name")) in text
                row["disabled"] = rng.choice(["no", "x", "NO", "false"] if structural and rng.random() < 0.95
                                             else ["yes", "no", "true()", "x", "NO", "Yes", "false"])
    # comment rows
    for _ in range(rng.choice([0, 0, 0, 1, 2])):
        i = rng.randint(0, len(survey))
        survey.insert(i, rng.choice([{"hint": "just a comment"}, {"relevant": "1"}, {"appearance": "x"}]))
    # rebuild balanced structure is unaffected: inserted rows carry no type
    if choices:
        if rng.random() < 0.4:
            for c in choices:
                if rng.random() < 0.3:
                    for k in [k for k in c if k.startswith("label")]:
                        c.pop(k)
                    if rng.random() < 0.3:
                        c["image"] = "c.png"
        if rng.random() < 0.15:
            for c in choices:
                if rng.random() < 0.5:
                    c[rng.choice(["my col", "extra"])] = "1"
        if langs and rng.random() < 0.3:
            extra_col = rng.choice(["audio", "image", "label"]) + "::" + rng.choice(langs)
            for c in choices:
                c[extra_col] = "x.mp3"
        if rng.random() < 0.3:
            # repeated choice names within a list (accepted only with allow_choice_duplicates), labeled or not
            allow = rng.random() < 0.8
            for _ in range(rng.randint(1, 3)):
                src = rng.choice(choices)
                dup = {k: v for k, v in src.items() if not (k.startswith("label") and rng.random() < 0.6)}
                choices.insert(rng.randint(choices.index(src) + 1, len(choices)), dup)
            if allow:
                st0 = (form.get("settings") or [{}])[0]
                form["settings"] = [dict(st0, allow_choice_duplicates=rng.choice(["yes", "Yes", "true()"]))]
        case["choices"] = choices
    if external and choices:
        case["external_choices"] = [{"list_name": c["list_name"], "name": c["name"], "state": "1"} for c in choices]
    # sparse survey translations: extra translatable column in one language only
    if langs and rng.random() < 0.4:
        col = rng.choice(["hint", "constraint_message", "guidance_hint", "image", "label"]) + rng.choice(["", "::" + rng.choice(langs)])
        for row in survey:
            if row.get("type") in ("text", "integer", "note") and rng.random() < 0.5:
                row[col] = "t.png" if col.startswith("image") else "more"
    # settings
    k = rng.random()
    st = form.get("settings")
    if k < 0.2:
        st = [dict(st[0] if st else {}, form_id="fid", id_string="ids")]
    elif k < 0.3:
        st = [dict(st[0] if st else {}, id_string="ids")]
    if st is not None:
        case["settings"] = st
    elif k > 0.85:
        case["settings"] = []  # header-only settings sheet
        case["settings_cols"] = ["form_title"]
    names = [s for s in SHEETS if case.get(s) is not None]
    k = rng.random()
    if k < 0.5:
        names = names + rng.sample(BAD_SHEETS, rng.randint(1, 3))
        if rng.random() < 0.3 and "settings" in names and not case.get("settings"):
            names[names.index("settings")] = rng.choice(["Settings", "SETTINGS", "settings"])
        rng.shuffle(names)
    elif k < 0.55:
        names = None
    case["sheet_names"] = names
    return case


def choice_list_enum(ctx):
    """All lists of 3 choices over names {a, b} x labeled / unlabeled (64), with duplicates allowed and not allowed,
    interleaved with a second list: which rows get the 'should have a label' warning."""
    for names in itertools.product("ab", repeat=3):
        for labeled in itertools.product((True, False), repeat=3):
            for allow in ("yes", None):
                rows = []
                for i, (n, lab) in enumerate(zip(names, labeled)):
                    rows.append({"list_name": "l1", "name": n, **({"label": f"L{i}"} if lab else {})})
                    if i == 0:
                        rows.append({"list_name": "l2", "name": "a", "label": "other list"})
                rows.append({"list_name": "l2", "name": "a", **({} if labeled[0] else {"label": "x"})})
                case = {
                    "survey": [{"type": "select_one l1", "name": "q1", "label": "Q1"},
                               {"type": "select_multiple l2", "name": "q2", "label": "Q2"}],
                    "choices": rows,
                }
                if allow:
                    case["settings"] = [{"allow_choice_duplicates": allow}]
                ctx.count("choice_enum:cases")
                workbook_case(ctx, case, "choice_enum")


def section_label_enum(ctx):
    """begin group / repeat x {labelled, labelled in a language, media only, hint only, bare} x appearance
    (none, field-list, table-list and combinations) with two selects sharing one list inside (so that table-list is
    a valid layout), at top level and after/inside another section: which rows get the 'has no label' warning."""
    labels = [{"label": "Sec"}, {"label::English (en)": "Sec"}, {"image": "s.png"}, {"hint": "only a hint"}, {},
              {"label": "Sec", "hint": "and a hint"}]
    appearances = [None, "field-list", "table-list", "table-list compact", "field-list compact", "compact", "table-list field-list"]
    for ctl in ("group", "repeat"):
        for lab in labels:
            for ap in appearances:
                for nest in (0, 1, 2):
                    sec = {"type": f"begin {ctl}", "name": "s1", **lab}
                    if ap:
                        sec["appearance"] = ap
                    inner = [sec,
                             {"type": "select_one yn", "name": "q1", "label": "Q1"},
                             {"type": "select_one yn", "name": "q2", "label": "Q2"},
                             {"type": f"end {ctl}"}]
                    if nest == 1:
                        rows = [{"type": "begin repeat", "name": "r0", "label": "R"}, {"type": "text", "name": "t0", "label": "T"},
                                {"type": "end repeat"}] + inner
                    elif nest == 2:
                        rows = [{"type": "begin group", "name": "g0"}] + inner + [{"type": "end group"}]
                    else:
                        rows = inner
                    case = {"survey": rows,
                            "choices": [{"list_name": "yn", "name": "y", "label": "Yes"}, {"list_name": "yn", "name": "n", "label": "No"}]}
                    ctx.count("section_enum:cases")
                    workbook_case(ctx, case, "section_enum", must_convert="section with/without label, field-list / table-list appearance")


HINT = re.compile(r"When looking for a sheet named '([a-z_]+)', the following sheets with similar names were found: (.*?)'\.(?: |$)", re.S)


def error_hint_cases(ctx):
    """The missing-sheet *errors* (survey, choices, external_choices) carry the same 'similar names' hint: for near
    misses of the missing sheet's name in lower / upper / title / mixed case the hint must name exactly the candidates
    due (and be absent when there is none)."""
    from pyxform.errors import PyXFormError
    from pyxform.xls2xform import convert

    rng = ctx.rng
    builders = {
        "survey": lambda names: {"choices": [{"list_name": "l", "name": "a", "label": "A"}], "sheet_names": names},
        "choices": lambda names: {"survey": [{"type": "select_one l", "name": "q", "label": "Q"}], "sheet_names": names},
        "external_choices": lambda names: {
            "survey": [{"type": "select_one_external l", "name": "q", "label": "Q", "choice_filter": "a=1"}],
            "choices": [{"list_name": "l", "name": "a", "label": "A"}], "sheet_names": names},
    }
    for key, build in builders.items():
        near = sorted(radius1(key) - {key})
        for _ in range(ctx.pick(12, 120)):
            picks = rng.sample(near, 2)
            far = rand_edit(rng, rand_edit(rng, rand_edit(rng, key)))
            names = [n for n in ["survey"] + [v for p in picks for v in rng.sample([p] + case_variants(p), 2)]
                     + [rng.choice(case_variants(far)), "_" + picks[0]] if n.isascii() and "'" not in n and n != key]
            rng.shuffle(names)
            case = {k: v for k, v in to_dict(dict(build(names), sheet_names=names)).items()}
            try:
                convert(xlsform=copy.deepcopy(case))
                ctx.count("error_hint:converted")
                continue
            except PyXFormError as e:
                msg = str(e)
            except Exception as e:  # noqa: BLE001
                ctx.count("error_hint:internal")
                continue
            ctx.count("error_hint:cases")
            m = HINT.search(msg)
            got = split_quoted(m.group(2) + "'") if m and m.group(1) == key else []
            v = ctx.driver.call("warn.misspell", key=key, keys=names)
            if v["outcome"] != "ok":
                continue
            if (got or None) != v["model"]:
                ctx.mismatch("missing-sheet error hint: model vs implementation", {"key": key, "names": names}, got, v["model"])
            if got != v["spec"]:
                ctx.fail(Failure("misspelling-hint", f"missing sheet {key}: hint names {got}, due {v['spec']}",
                                 {"kind": "hint", "key": key, "case": case}, signature="hint",
                                 extra={"msg": msg[:600]}))
            ctx.record({"hint": [key, names]}, True)


def or_other_enum(ctx):
    """or_other x which sheet carries a language (none / survey only / choices only / both) x which translatable
    column carries it (label, hint, media; on the choices sheet label, media) x or_other spelling: the or_other +
    translations warning is due iff an or_other select is present and *either* sheet uses a language."""
    sv_cols = {"none": [], "label": ["label::French (fr)"], "hint": ["hint::French (fr)"], "image": ["image::French (fr)"]}
    ch_cols = {"none": [], "label": ["label::French (fr)"], "audio": ["audio::French (fr)"]}
    for other in (" or_other", " or other", " or specify other", ""):
        for sk, sc in sv_cols.items():
            for ck, cc in ch_cols.items():
                q = {"type": "select_one l1" + other, "name": "q", "label": "Q"}
                t = {"type": "text", "name": "t", "label": "T"}
                for c in sc:
                    t[c] = "x.png" if c.startswith("image") else "fr text"
                    if c.startswith("label"):
                        q[c] = "Q fr"
                c1 = {"list_name": "l1", "name": "a", "label": "A"}
                c2 = {"list_name": "l1", "name": "b", "label": "B"}
                for c in cc:
                    c1[c] = c2[c] = "a.mp3" if c.startswith("audio") else "fr"
                case = {"survey": [q, t], "choices": [c1, c2]}
                ctx.count("or_other_enum:cases")
                workbook_case(ctx, case, "or_other_enum", must_convert="or_other select with translations on one or both sheets")


def settings_id_enum(ctx):
    """The duplicate form_id / id_string headers: which of the two headers are present x header order x which of
    the two cells are filled x other settings cells.  The warning is about *headers*; a form whose twin without the
    extra header converts must convert as well (the trigger only adds a warning)."""
    base = {"survey": [{"type": "text", "name": "q", "label": "Q"}]}
    ok0 = run_impl(dict(base, settings=[{"form_id": "fid"}]))["ok"]
    for cols in (["form_id", "id_string"], ["id_string", "form_id"], ["form_id"], ["id_string"],
                 ["form_title", "id_string", "version", "form_id"], ["form_id", "form_title", "id_string"]):
        for fill in itertools.product((True, False), repeat=2):
            for other in (True, False):
                row = {}
                for c in cols:
                    if c == "form_id" and fill[0]:
                        row[c] = "fid"
                    elif c == "id_string" and fill[1]:
                        row[c] = "ids"
                    elif c == "form_title" and other:
                        row[c] = "A title"
                    elif c == "version" and other:
                        row[c] = "3"
                case = dict(base, settings=[row], settings_cols=list(cols))
                ctx.count("settings_enum:cases")
                workbook_case(ctx, case, "settings_enum", advisory=True,
                              must_convert="settings sheet with form_id / id_string headers" if ok0 else None)
    # two data rows, header-less dict input (headers guessed from the rows)
    workbook_case(ctx, dict(base, settings=[{"form_id": "a"}, {"id_string": "b"}], settings_cols=["form_id", "id_string"]), "settings_enum")


def directed_cases(ctx):
    """The former F28 witness (a present, data-less sheet spelled in another letter case) and its neighbours, also
    through the md reader; short / coded / uncoded language labels."""
    base = {"survey": [{"type": "note", "name": "n", "label": "a"}]}
    for nm in ("Settings", "settings", "SETTINGS", "setting"):
        case = dict(base, settings=[], settings_cols=["form_title"], sheet_names=["survey", nm])
        workbook_case(ctx, case, "directed", advisory=True)
    for nm in ("Settings", "setting", "_setting"):
        case = dict(base, settings=[{"form_title": "T"}], sheet_names=["survey", nm])
        workbook_case(ctx, case, "directed")
    case = dict(base, sheet_names=["survey", "Entities", "entitie", "_entity", "stings"])
    workbook_case(ctx, case, "directed")
    # languages: short labels (F39), valid / invalid codes
    for langs in (["fr", "English (en)"], ["English", "French (fr)"], ["en"], ["Bosnian (bos)", "xx"], ["English (en)", "Acoli (ach)"]):
        row = {"type": "text", "name": "q"}
        for l in langs:
            row["label::" + l] = "L " + l
        workbook_case(ctx, {"survey": [row]}, "directed")
    # table boundaries through the whole conversion: first / last entries of each subtag file and their truncations
    codes = iana_boundary_codes()
    for i in range(0, len(codes), 3):
        row = {"type": "text", "name": "q"}
        for c in codes[i:i + 3]:
            row[f"label::Lang {c} ({c})"] = "L " + c
        workbook_case(ctx, {"survey": [row]}, "directed_iana_boundary", must_convert="language labels with bracketed codes")
    # md route (the sheet is really present in the file)
    from pyxform.xls2xform import convert

    md = "| survey |\n| | type | name | label |\n| | note | n | a |\n| %s |\n| | form_title |\n"
    for nm, due in (("Settings", 0), ("settings", 0), ("setting", 1)):
        w = convert(xlsform=md % nm, file_type=".md").warnings
        ctx.count("directed:md")
        if len(w) != due:
            ctx.fail(Failure("warnings-differ", f"md: sheet spelled {nm!r} without data rows: {len(w)} warning(s), {due} due: {w}",
                             {"kind": "md", "sheet": nm}, signature="md-directed"))


# --------------------------------------------------------------------------- explore / replay



# --------------------------------------------------------------------------- phase 8: single-colon headers, jr:, begin-row defaults

BEGIN_DEFAULTS = ["1", "abc", "today()", "now()", "1 + 2", "a - b", "2020-01-01", "-1", "a | b", "x[1]", "uuid()", "a  b", "${q1}"]


def recolon(rng, header: str, mode: str) -> str:
    """`a::b` -> `a:b` (mode single), with optional spaces around the delimiter"""
    if "::" not in header or mode == "double":
        return header
    d = rng.choice([":", ":", " : ", ": "])
    return d.join(header.split("::"))


def rekey(rows, f):
    return [{f(k): v for k, v in r.items()} for r in rows]


def colon_default_case(rng, big=False) -> dict:
    """a generated form whose grouped headers use the single-colon delimiter on one / both / part of the sheets,
    with `jr:`-prefixed columns and `default` cells on begin rows"""
    case = triggered_form(rng, big=big)
    k = rng.random()
    sheets = ["survey", "choices"] if k < 0.5 else (["survey"] if k < 0.8 else ["choices"])
    partial = rng.random() < 0.15  # only some headers re-delimited: the sheet still counts as double-colon
    for s_ in sheets:
        if not case.get(s_):
            continue
        keys = cols_of(case, s_)
        m = {}
        for c in keys:
            m[c] = recolon(rng, c, "double" if (partial and rng.random() < 0.5) else "single")
        if len(set(m.values())) != len(m):
            continue
        case[s_] = rekey(case[s_], lambda c, m=m: m[c])
        if case.get(s_ + "_cols"):
            case[s_ + "_cols"] = [m.get(c, c) for c in case[s_ + "_cols"]]
    survey = case["survey"]
    # jr: columns
    if rng.random() < 0.5:
        col = rng.choice(["jr:constraintMsg", "bind:jr:constraintMsg", "bind : jr : requiredMsg", "jr:requiredMsg", "jr:count",
                          "bind::jr:constraintMsg", "jr:noAppErrorString", "bind:jr:constraintMsg:English (en)",
                          "constraint_message:French (fr)", "media:image:French (fr)", "media:audio", "hint: fr"])
        hit = False
        for row in survey:
            t = row.get("type", "")
            if col == "jr:count":
                if t.startswith("begin repeat") or t.startswith("begin_repeat"):
                    row[col] = "3"
                    hit = True
            elif t in ("text", "integer", "note") and rng.random() < 0.6:
                row[col] = "m.png" if "image" in col else ("m.mp3" if "audio" in col else "msg")
                hit = True
        if not hit:
            case["survey_cols"] = list(case.get("survey_cols") or []) + [col]
    # default on begin rows
    names = [r.get("name") for r in survey if r.get("type") in ("text", "integer") and r.get("name")]
    for row in survey:
        t = row.get("type", "")
        if t.startswith(("begin ", "begin_")) and rng.random() < 0.6:
            d = rng.choice(BEGIN_DEFAULTS)
            if d == "${q1}":
                if not names:
                    continue
                d = "${%s}" % rng.choice(names)
            row["default"] = d
            if rng.random() < 0.5:
                for k_ in [k_ for k_ in row if k_.startswith(("label", "image", "media"))]:
                    row.pop(k_)
    return case


def colon_default_enum(ctx):
    """seed-independent: translatable columns with each delimiter spelling on either sheet (missing-translation and
    IANA warnings through the single-colon branch), and begin group / repeat x default value x label or not"""
    yn = [{"list_name": "yn", "name": "y", "label": "Yes"}, {"list_name": "yn", "name": "n", "label": "No"}]
    for d in (":", " : ", "::", ": "):
        for cols in (["label{d}English (en)", "hint{d}French (fr)"], ["label{d}English (en)", "label{d}fr", "image{d}English (en)"],
                     ["label", "hint{d}Deutsch (de)"], ["label{d}English (en)", "bind{d}jr:constraintMsg{d}French"],
                     ["label{d}English (en)", "media{d}audio{d}Klingon (tlh)"], ["label{d}English (en)", "constraint_message{d}English (en)"]):
            hs = [c.format(d=d) for c in cols]
            for sheet in ("survey", "choices"):
                q = {"type": "select_one yn or_other" if sheet == "choices" and d != "::" else "select_one yn", "name": "q1"}
                ch = [dict(c) for c in yn]
                if sheet == "survey":
                    for h in hs:
                        q[h] = "a.png" if "image" in h else ("a.mp3" if "audio" in h else "text")
                    if not any(h.startswith("label") for h in hs):
                        q["label"] = "Q"
                else:
                    q["label"] = "Q"
                    for c in ch:
                        for h in hs:
                            if h.startswith(("label", "image", "media")):
                                c[h] = "a.png" if "image" in h else ("a.mp3" if "audio" in h else "text")
                        if any(h.startswith("label") and h != "label" for h in hs):
                            c.pop("label", None)
                case = {"survey": [q], "choices": ch}
                ctx.count("colon_enum:cases")
                workbook_case(ctx, case, "colon_enum")
    for ctl in ("group", "repeat"):
        for dflt in BEGIN_DEFAULTS:
            for lab in ({}, {"label": "Sec"}, {"hint": "h"}, {"appearance": "field-list"}):
                sec = {"type": f"begin {ctl}", "name": "s1", "default": dflt, **lab}
                case = {"survey": [{"type": "text", "name": "q1", "label": "Q1"}, sec,
                                   {"type": "text", "name": "q2", "label": "Q2"}, {"type": f"end {ctl}"}]}
                ctx.count("begin_default_enum:cases")
                workbook_case(ctx, case, "begin_default_enum")


def colon_default_stream(ctx, n):
    import random

    rng = random.Random(f"C20:colon:{ctx.seed}")
    pre = {k: ctx.dist.get(k, 0) for k in ("model:ok", "model:unsupported", "model:error", "model:old_fragment")}
    for i in range(n):
        case = colon_default_case(rng, big=not ctx.quick() and i % 5 == 0)
        workbook_case(ctx, case, "colon", advisory=(i % 8 == 0))
    d = {k: ctx.dist.get(k, 0) - v for k, v in pre.items()}
    tot = d["model:ok"] + d["model:unsupported"] + d["model:error"]
    ctx.notes["colon_default_stream"] = {
        "converted_by_impl": tot, "model_answered": d["model:ok"], "unsupported_now": d["model:unsupported"],
        "answered_by_the_phase7_model": d["model:old_fragment"],
        "unsupported_share_before": round(1 - d["model:old_fragment"] / tot, 4) if tot else None,
        "unsupported_share_after": round(d["model:unsupported"] / tot, 4) if tot else None,
    }


def explore(ctx, factor, bs):
    rng = ctx.rng
    directed_cases(ctx)
    choice_list_enum(ctx)
    section_label_enum(ctx)
    settings_id_enum(ctx)
    or_other_enum(ctx)
    error_hint_cases(ctx)
    lev_cases(ctx, ctx.pick(3000, 40000) * factor)
    misspell_cases(ctx, factor)
    header_cases(ctx, ctx.pick(1500, 20000) * factor)
    iana_cases(ctx, ctx.pick(100, 2000) * factor)
    translation_enum(ctx, factor)
    n = ctx.pick(700, 30000) * factor
    for i in range(n):
        case = triggered_form(rng, big=not ctx.quick() and i % 5 == 0)
        workbook_case(ctx, case, "gen", advisory=(i % 4 == 0))
    colon_default_enum(ctx)
    colon_default_stream(ctx, ctx.pick(400, 6000) * factor)
    ok = ctx.dist.get("model:ok", 0)
    tot = ok + ctx.dist.get("model:unsupported", 0) + ctx.dist.get("model:error", 0)
    ctx.notes["fragment_share"] = {"model_answered": ok, "converted_by_impl": tot, "share": round(ok / tot, 4) if tot else None}
    ctx.notes["exhaustive_substream"] = {
        "translation_subsets_per_triple": 512,
        "sheet_name_radius1": ctx.dist.get("misspell:radius1_exhaustive", 0),
        "language_labels": ctx.dist.get("iana:labels_enumerated", 0),
    }


def replay(ctx, payload, bs):
    case = payload["case"]
    before = len(ctx.failures)
    k = case.get("kind")
    if k in ("workbook", "advisory"):
        workbook_case(ctx, case["case"], "replay", advisory=True)
    elif k == "lev":
        from pyxform.utils import levenshtein_distance

        sp = ctx.driver.call("warn.lev_spec", a=case["a"], b=case["b"])
        if levenshtein_distance(case["a"], case["b"]) != sp:
            return False
    elif k == "misspell":
        misspell_direct(ctx, case["key"], case["keys"])
    elif k == "translations":
        translations_direct(ctx, case["survey"], case["choices"])
    elif k == "iana":
        iana_cases(ctx, 0)
    elif k == "md":
        directed_cases(ctx)
    return len(ctx.failures) == before and not ctx.mismatches


MATCHERS = {
    "F39-iana-short-language": lambda f: f.signature == "F39" and f.kind == "iana-short-language",
}


def main(argv):
    return vcore.run_check(PROP, explore, RULE, matchers=MATCHERS, replay=replay, argv=argv)
