"""
C16 — the JSON intermediate form is a faithful, reloadable representation.

Theorems (lean/Pyxv/Proofs/C16.lean): `loads_dumps` / `parseRaw_print` — the model of `json.loads`
inverts the model of `json.dumps` on every JSON value (all strings: every Unicode scalar value, the
`\\uXXXX` escapes and surrogate pairs included); `dump_stable`, `survey_json_roundtrip_partial` for the
model of `to_json_dict` and the builder's reading of its output (see the file for the guards).

Check, for every generated form (c16_gen: group logic, extra choice columns, parameters, translations,
media, settings, triggers, type-table hints):
  path 1  workbook → `_pyxform` dict → json.dumps → json.loads → create_survey_element_from_dict → XForm
          must equal the direct conversion (whether the loaded dict equals the dumped one is only recorded);
  path 2  survey → to_json_dict → json.dumps → create_survey_element_from_json → (a) to_json_dict equal to
          the first dump (dump, load, dump), (b) XForm equal to the original's.
  Oracle = text equality of XForms / equality of dicts; a difference is broken down by c16_obs.diff_items
  into one failure per lost/changed node, which the matchers triage into the known loss shapes
  (F39: osm dump crash; F47: search() select dumped after to_xml()) — anything else is a VIOLATION.
  Correspondence: Lean `JV.print` = `json.dumps` and Lean `JV.parse` = `json.loads` on the `_pyxform` dict and
  on the survey dump of every case, and on adversarial values/texts; Lean `ToJson.toJson` = `to_json_dict` on
  the element trees of the generated surveys.
"""

from __future__ import annotations

import copy
import json
import os
import traceback
from pathlib import Path

import c16_gen
import c16_obs
import impl
import vcore
from vcore import Failure

PROP = "C16"

# The JSON text must be data for the library's own loader (utils.get_pyobj_from_json, which also accepts a
# path): anything in the loader that treats the text as something else — shell-like expansion of `${name}` /
# `$name` / `~`, path handling — would rewrite references.  Make such a rewrite visible: the names the
# generators use for questions are defined as environment variables of this process (deterministic values).
for _n in ["a", "b", "c", "t", "w", "v", "age", "city", "kids", "hh", "r", "r2", "grp", "rep"] + [f"q{i}" for i in range(0, 16)]:
    os.environ.setdefault(_n, "ENV-" + _n.upper())
RULE = (
    "generated forms (gen.FormGen decorated by c16_gen: bind/message/custom columns and appearances on groups "
    "and repeats, extra choice columns with and without choice filters, per-type parameters, 0–3 languages on "
    "labels/hints/guidance/messages/media, media on questions and choices, settings incl. attribute::/namespaces, "
    "triggers, dynamic defaults, or_other, type-table hint types), plus directed cases for every known loss shape; "
    "distinct by canonical hash of the workbook; non-trivial = accepted by pyxform and carrying at least one of: "
    "group/repeat, choice list, translation, parameters, settings"
)

_QTD = None


def qtd():
    global _QTD
    if _QTD is None:
        from pyxform.question_type_dictionary import QUESTION_TYPE_DICT

        _QTD = QUESTION_TYPE_DICT
    return _QTD


# --------------------------------------------------------------------------- the two paths


def site_of(e: BaseException) -> str:
    tb = traceback.extract_tb(e.__traceback__)
    for fr in reversed(tb):
        if "/pyxform/" in fr.filename:
            return f"{Path(fr.filename).name}:{fr.name}"
    return ""


def to_xml(survey) -> str:
    return survey.to_xml(validate=False, pretty_print=False)


def element_index(survey):
    """xpath → element, for triage."""
    idx = {}
    for e in survey.iter_descendants():
        try:
            idx[e.get_xpath()] = e
        except Exception:  # noqa: BLE001
            pass
    return idx


def workbook_json(form: dict) -> dict:
    """workbook → JSON-serialisable dict, exactly as convert() produces it (before the builder sees it)."""
    from pyxform.xls2json import workbook_to_json
    from pyxform.xls2xform import get_xlsform

    wb = get_xlsform(xlsform=copy.deepcopy(impl.wb_dict(c16_gen.strip_meta(form))), file_type=None)
    return workbook_to_json(workbook_dict=wb, form_name=None, fallback_form_name=wb.fallback_form_name,
                            default_language=None, warnings=[])


def run_paths(form: dict) -> dict:
    """Everything the property observes for one form (implementation only)."""
    from pyxform.builder import create_survey_element_from_dict, create_survey_element_from_json

    r = impl.run(c16_gen.strip_meta(form), want_survey=True)
    out = {"class": r["class"], "ok": r["ok"], "msg": r.get("msg", "")}
    if not r["ok"]:
        return out
    x0 = r["xform"]
    # the dict as workbook_to_json returns it (ConvertResult._pyxform has already been through the builder,
    # which may write into it — e.g. add_none_option, the survey title)
    try:
        pyx = workbook_json(form)
    except Exception as e:  # noqa: BLE001
        out.update(x0=x0, pyx=r["_pyxform"], survey=r["_survey"],
                   problems=[("p1-crash", f"workbook_to_json alone: {type(e).__name__}: {e} @ {site_of(e)}", None)])
        return out
    out.update(x0=x0, pyx=pyx, survey=r["_survey"], problems=[])
    P = out["problems"]
    # ---- path 1
    try:
        t0 = json.dumps(pyx)
        out["t0"] = t0
        d1 = json.loads(t0)
        # not demanded by the property (a tuple would come back as a list): recorded in the evidence only
        out["p1_dict_identical"] = d1 == pyx
        s1 = create_survey_element_from_dict(d1)
        x1 = to_xml(s1)
        if x1 != x0:
            P.append(("p1-xform", "XForm from the reloaded workbook JSON differs", c16_obs.diff_items(x0, x1)))
        # the same text through the library's own loader (create_survey_element_from_json)
        x1b = to_xml(create_survey_element_from_json(t0))
        if x1b != x0 and x1b != x1:
            P.append(("p1-xform", "XForm from the workbook JSON text loaded by create_survey_element_from_json differs",
                      c16_obs.diff_items(x0, x1b)))
    except Exception as e:  # noqa: BLE001
        P.append(("p1-crash", f"{type(e).__name__}: {e} @ {site_of(e)}", None))
    # ---- path 2: a fresh survey from a copy of the same dict; dump BEFORE generating XML (F36)
    try:
        sA = create_survey_element_from_dict(copy.deepcopy(pyx))
        out["sA"] = sA
        j1 = sA.to_json_dict()
        t1 = json.dumps(j1)
        out.update(j1=j1, t1=t1)
    except Exception as e:  # noqa: BLE001
        P.append(("p2-dump-crash", f"{type(e).__name__}: {e} @ {site_of(e)}", None))
        return out
    try:
        s2 = create_survey_element_from_json(t1)
    except Exception as e:  # noqa: BLE001
        P.append(("p2-load-crash", f"{type(e).__name__}: {e} @ {site_of(e)}", {"exc": type(e).__name__, "arg": str(e), "site": site_of(e)}))
        return out
    try:
        j2 = s2.to_json_dict()
        out["j2"] = j2
        if j2 != j1:
            P.append(("p2-dump-unstable", "dump, load, dump again gives a different dict: " + dict_diff(j1, j2), None))
        elif json.dumps(j2) != t1:
            P.append(("p2-dump-unstable", "dump, load, dump again gives a different text (key order)", None))
        x2 = to_xml(s2)
        out["x2"] = x2
        if x2 != x0:
            P.append(("p2-xform", "XForm of the reloaded survey differs", c16_obs.diff_items(x0, x2)))
    except Exception as e:  # noqa: BLE001
        P.append(("p2-reload-crash", f"{type(e).__name__}: {e} @ {site_of(e)}", None))
    # ---- path 3: the dump of the survey that has already generated its XForm (xml() leaves state behind in the
    # survey: search() itemsets, namespaces).  Only when it differs from the dump taken before: it must still load
    # and give the same XForm.
    try:
        jb = r["_survey"].to_json_dict()
        out["dump_after_xml_equal"] = jb == j1
    except Exception as e:  # noqa: BLE001
        out["dump_after_xml_equal"] = None
        P.append(("p3-dump-crash", f"{type(e).__name__}: {e} @ {site_of(e)}", None))
        return out
    if jb != j1:
        try:
            s3 = create_survey_element_from_json(json.dumps(jb))
        except Exception as e:  # noqa: BLE001
            P.append(("p3-load-crash", f"{type(e).__name__}: {e} @ {site_of(e)}",
                      {"exc": type(e).__name__, "arg": str(e), "site": site_of(e)}))
            return out
        try:
            j3 = s3.to_json_dict()
            if j3 != jb:
                P.append(("p3-dump-unstable", "dump taken after to_xml(): dump, load, dump again gives a different dict: "
                          + dict_diff(jb, j3), None))
            elif json.dumps(j3) != json.dumps(jb):
                P.append(("p3-dump-unstable", "dump taken after to_xml(): dump, load, dump again gives a different text", None))
            x3 = to_xml(s3)
            if x3 != x0:
                P.append(("p3-xform", "XForm of the survey reloaded from the dump taken after to_xml() differs",
                          c16_obs.diff_items(x0, x3)))
        except Exception as e:  # noqa: BLE001
            P.append(("p3-reload-crash", f"{type(e).__name__}: {e} @ {site_of(e)}", None))
    return out


def dict_diff(a, b, path="$") -> str:
    if type(a) is not type(b):
        return f"{path}: {type(a).__name__} vs {type(b).__name__}"
    if isinstance(a, dict):
        for k in dict.fromkeys(list(a) + list(b)):
            if k not in a:
                return f"{path}.{k}: only after"
            if k not in b:
                return f"{path}.{k}: only before"
            if a[k] != b[k]:
                return dict_diff(a[k], b[k], f"{path}.{k}")
        return f"{path}: key order"
    if isinstance(a, list):
        if len(a) != len(b):
            return f"{path}: length {len(a)} vs {len(b)}"
        for i, (x, y) in enumerate(zip(a, b)):
            if x != y:
                return dict_diff(x, y, f"{path}[{i}]")
    return f"{path}: {a!r} vs {b!r}"[:300]


# --------------------------------------------------------------------------- triage of a difference


def find_json(j: dict, xpath: str):
    """The element dict of `xpath` inside a survey dump."""
    parts = xpath.strip("/").split("/")
    if not parts or j.get("name") != parts[0]:
        return None
    cur = j
    for p in parts[1:]:
        nxt = None
        for c in cur.get("children", []) or []:
            if c.get("name") == p:
                nxt = c
                break
        if nxt is None:
            return None
        cur = nxt
    return cur


def _earlier_select_all(pyx: dict, nodeset) -> bool:
    """Is the question at `nodeset` a 'select all that apply' whose list is used by an earlier one in the
    workbook JSON (generated table-list header rows included)?"""
    name = (nodeset or "").rsplit("/", 1)[-1]
    seen = set()

    def walk(d):
        for c in d.get("children", []) or []:
            if not isinstance(c, dict):
                continue
            if str(c.get("type", "")).startswith("select all that apply"):
                if c.get("name") == name:
                    return c.get("itemset") in seen
                seen.add(c.get("itemset"))
            r = walk(c)
            if r is not None:
                return r
        return None

    return bool(walk(pyx))


def classify_item(item, obs) -> tuple[str, dict]:
    """signature + facts used by the matchers: which element, which class, what the dump says."""
    from pyxform.question import Question
    from pyxform.section import GroupedSection

    idx = obs.setdefault("_idx", element_index(obs["sA"]))
    j1 = obs["j1"]
    kind = item[0]
    facts = {"item": item[0]}
    if kind == "bind":
        ns, before, after = item[1], item[2], item[3]
        el = idx.get(ns)
        facts.update(
            nodeset=ns,
            lost=after is None,
            el_class=type(el).__name__ if el is not None else None,
            el_has_bind=bool(getattr(el, "bind", None)) if el is not None else None,
            dump_has_bind=("bind" in (find_json(j1, ns) or {})),
            before=before,
            after=after,
            earlier_select_all_same_list=_earlier_select_all(obs.get("pyx") or {}, ns),
        )
        return "bind", facts
    if kind == "itext":
        lang, tid, before, after = item[1:5]
        facts["lang_vanished"] = bool(item[5]) if len(item) > 5 else False
        present = before if after is None else (after if before is None else None)
        facts["is_padding"] = present is not None and all(v == "-" for _, v in present)
        m = c16_obs.ITEXT_ID.match(tid or "")
        path = m.group("path") if m else None
        what = m.group("what") if m else None
        el = idx.get(path) if path else None
        facts.update(
            text_id=tid, lang=lang, lost=after is None, what=what,
            el_class=type(el).__name__ if el is not None else None,
            el_type=getattr(el, "type", None) if el is not None else None,
            dump_has_bind=("bind" in (find_json(j1, path) or {})) if path else None,
            el_bind_keys=sorted((getattr(el, "bind", None) or {}).keys()) if el is not None else None,
            qtd_hint=(qtd().get(getattr(el, "type", None)) or {}).get("hint") if isinstance(el, Question) else None,
            dump_has_hint=("hint" in (find_json(j1, path) or {})) if path else None,
            before=before, after=after,
        )
        return "itext", facts
    if kind == "choice-col":
        iid, index, tag, before, after = item[1:6]
        s = obs["sA"]
        opt = None
        try:
            opt = s.choices[iid].options[index]
        except Exception:  # noqa: BLE001
            pass
        dumped = None
        try:
            dumped = j1["choices"][iid][index]
        except Exception:  # noqa: BLE001
            pass
        facts.update(
            list=iid, index=index, tag=tag, lost=after is None,
            in_extra_data=bool(opt is not None and opt.extra_data and tag in opt.extra_data),
            in_dump=bool(dumped is not None and tag in dumped),
        )
        return "choice-col", facts
    if kind == "body":
        ref, tag, before, after = item[1:5]
        el = idx.get(ref) if ref else None
        facts.update(
            ref=ref, tag=tag,
            el_class=type(el).__name__ if el is not None else None,
            el_type=getattr(el, "type", None) if el is not None else None,
            qtd_hint=(qtd().get(getattr(el, "type", None)) or {}).get("hint") if isinstance(el, Question) else None,
            el_hint=getattr(el, "hint", None) if el is not None else None,
            dump_has_hint=("hint" in (find_json(j1, ref) or {})) if ref else None,
            before=before, after=after,
        )
        return "body", facts
    facts.update(detail=[str(x)[:300] for x in item[1:]])
    return kind, facts


# ---- matchers: one per loss shape (input shape + code site), see known_findings.d/C16.json


def m_osm_dump_crash(f: Failure) -> bool:
    """OSM_QUESTION_FIELDS is built from SELECT_QUESTION_EXTRA_FIELDS instead of OSM_QUESTION_EXTRA_FIELDS
    (question.py:66-67), so copy() asks an OsmUploadQuestion for a `choices` slot it does not have."""
    return (
        f.kind == "p2-dump-crash" and "OsmUploadQuestion" in f.detail and "'choices'" in f.detail
        and f.detail.startswith("AttributeError") and "survey_element.py:__getitem__" in f.detail
        and any(str(r.get("type", "")).split(" ")[0] == "osm" for r in f.case["form"].get("survey", []))
    )



def m_search_dump_after_xml(f: Failure) -> bool:
    """Survey._redirect_is_search_itext (run by xml()) empties the `itemset` of a search() select so that its
    choices are written in-line; the dump taken afterwards therefore has `children` but no `itemset`, and
    builder._create_question_from_dict indexes d['itemset'] for every question with children."""
    x = f.extra
    return (
        f.kind == "p3-load-crash" and x.get("exc") == "KeyError" and "itemset" in str(x.get("arg"))
        and "builder.py:_create_question_from_dict" in str(x.get("site"))
        and any("search(" in str(r.get("appearance", "")) for r in f.case["form"].get("survey", []))
    )


def _with_derived(fid, m):
    return lambda f: f.extra.get("derived_from") == fid or (not f.extra.get("derived_from") and m(f))


MATCHERS = {
    "F39-osm-question-dump-crash": m_osm_dump_crash,
    "F47-search-select-dump-after-xml-not-reloadable": m_search_dump_after_xml,
}
MATCHERS = {k: _with_derived(k, v) for k, v in MATCHERS.items()}


# --------------------------------------------------------------------------- one case


def features_of(form) -> list[str]:
    fs = []
    sv = form.get("survey", [])
    if any(str(r.get("type", "")).startswith("begin") for r in sv):
        fs.append("sections")
    if form.get("choices"):
        fs.append("choices")
    if any("::" in k and k.split("::")[0] in ("label", "hint", "guidance_hint", "constraint_message", "required_message", "media") for r in sv for k in r):
        fs.append("translations")
    if any("parameters" in r for r in sv):
        fs.append("parameters")
    if form.get("settings"):
        fs.append("settings")
    return fs


def form_case(ctx, form, origin="gen", model=True):
    case = {"form": c16_gen.strip_meta(form), "origin": origin}
    obs = run_paths(form)
    ctx.count(f"impl:{obs['class']}")
    if not obs["ok"]:
        if obs["class"] == "internal":
            ctx.count("impl-internal:" + obs["msg"][:60])
        ctx.record(case, False)
        return obs
    feats = features_of(form)
    if form.get("entities"):
        feats.append("entities")
    for f in feats + form.get("_features", []):
        ctx.count("feature:" + f)
    if obs.get("p1_dict_identical") is False:
        ctx.count("note:loaded-workbook-dict-not-identical")
    if obs.get("dump_after_xml_equal") is False:
        ctx.count("note:dump-after-xml-differs(F36-class)")
    clean = True
    for kind, detail, info in obs["problems"]:
        clean = False
        if kind in ("p1-xform", "p2-xform", "p3-xform") and info:
            classified = [classify_item(item, obs) for item in info]
            # a language that disappears (or appears) altogether takes its padding ('-') entries with it: such an item
            # is attributed to the finding that removed the language's real entries, provided every
            # real (non-padding) loss in that language is a listed one
            real = {}
            for sig, facts in classified:
                if sig == "itext" and not (facts.get("is_padding") and facts.get("lang_vanished")):
                    fid = next((i for i, m in MATCHERS.items() if m(Failure(kind, "", case, extra=facts))), None)
                    real.setdefault(facts.get("lang"), []).append(fid)
            for sig, facts in classified:
                if sig == "itext" and facts.get("is_padding") and facts.get("lang_vanished"):
                    fids = real.get(facts.get("lang"), [])
                    if fids and all(fids):
                        facts["derived_from"] = fids[0]
            for sig, facts in classified:
                res = ctx.fail(Failure(kind, f"{detail}: {sig} {json.dumps(facts, ensure_ascii=False, default=str)[:600]}",
                                       case, signature=f"{kind}:{sig}", extra=facts))
                ctx.count(f"oracle:{kind}:{sig}:{res}")
        else:
            res = ctx.fail(Failure(kind, detail, case, signature=kind, extra=info or {}))
            ctx.count(f"oracle:{kind}:{res}")
    ctx.count("roundtrip:" + ("clean" if clean else "lossy"))
    if model:
        model_case(ctx, case, obs)
    ctx.record(case, bool(feats))
    return obs


# --------------------------------------------------------------------------- model correspondence


def enc(v):
    """Python value → order-preserving tagged JSON for the driver (Lean's Json objects are sorted maps)."""
    if v is None or isinstance(v, (bool, str)):
        return v
    if isinstance(v, int):
        return {"i": str(v)}
    if isinstance(v, float):
        raise Unsupported("float")
    if isinstance(v, (list, tuple)):
        return {"a": [enc(x) for x in v]}
    if isinstance(v, dict):
        out = []
        for k, x in v.items():
            if not isinstance(k, str):
                raise Unsupported("non-string key")
            out.append([k, enc(x)])
        return {"o": out}
    raise Unsupported(type(v).__name__)


class Unsupported(Exception):
    pass


def has_surrogate(v) -> bool:
    if isinstance(v, str):
        return any(0xD800 <= ord(c) <= 0xDFFF for c in v)
    if isinstance(v, (list, tuple)):
        return any(has_surrogate(x) for x in v)
    if isinstance(v, dict):
        return any(has_surrogate(k) or has_surrogate(x) for k, x in v.items())
    return False


def jv_value(ctx, v, case, what):
    """Lean print = json.dumps, Lean parse of that text = the value."""
    try:
        if has_surrogate(v):
            raise Unsupported("lone surrogate")
        e = enc(v)
    except Unsupported as u:
        ctx.count(f"model:jv:unsupported:{u}")
        return
    r = ctx.driver.call("jv.dumps_loads", v=e)
    ctx.count("model:jv:answered")
    py = json.dumps(v)
    if r["text"] != py:
        ctx.mismatch(f"JV.print vs json.dumps ({what})", case, py[:2000], r["text"][:2000])
    elif r["back"] != enc(json.loads(py)):
        ctx.mismatch(f"JV.parse(JV.print v) vs json.loads(json.dumps v) ({what})", case, "equal", "different")


def jv_text(ctx, text, case):
    """Lean parse = json.loads on an arbitrary text (fragment: no floats / NaN / lone surrogates)."""
    if has_surrogate(text):
        ctx.count("model:jv-text:unsupported:raw lone surrogate")
        return
    # fragment test on everything the decoder *reads*, including members later overwritten by a duplicate key
    seen = {"float": False, "surrogate": False}

    def _float(x):
        seen["float"] = True
        return float(x)

    def _const(x):
        seen["float"] = True
        return float(x.replace("Infinity", "inf"))

    def _pairs(pairs):
        if any(has_surrogate(k) or has_surrogate(x) for k, x in pairs):
            seen["surrogate"] = True
        return dict(pairs)

    try:
        v = json.loads(text, parse_float=_float, parse_constant=_const, object_pairs_hook=_pairs)
        ok = True
    except (ValueError, RecursionError):
        v, ok = None, False
    r = ctx.driver.call("jv.loads", text=text)
    if ok:
        try:
            if seen["float"]:
                raise Unsupported("float")
            if seen["surrogate"] or has_surrogate(v):
                raise Unsupported("lone surrogate")
            e = enc(v)
        except Unsupported as u:
            ctx.count(f"model:jv-text:unsupported:{u}")
            if r is not None and r.get("ok"):
                ctx.mismatch("JV.parse accepts a text outside its fragment", {"text": text}, "unsupported", r)
            return
        ctx.count("model:jv-text:answered-ok")
        if not r.get("ok") or r["v"] != e:
            ctx.mismatch("JV.parse vs json.loads", {"text": text}, e, r)
    else:
        ctx.count("model:jv-text:answered-reject")
        if r.get("ok"):
            ctx.mismatch("JV.parse accepts what json.loads rejects", {"text": text}, "error", r)


def model_case(ctx, case, obs):
    jv_value(ctx, obs["pyx"], case, "_pyxform")
    if "j1" in obs:
        jv_value(ctx, obs["j1"], case, "to_json_dict")
        try:
            import c16_tojson

            c16_tojson.check(ctx, case, obs)
        except ImportError:
            pass


ADV_CHARS = [
    '"', "\\", "/", "\b", "\f", "\n", "\r", "\t", "\x00", "\x01", "\x1f", " ", "~", "\x7f", "\x80", "\xa0", "\xe9", "\xff",
    "\u0100", "\u07ff", "\u0800", "\u2028", "\u2029", "\ud7ff", "\ue000", "\ufffd", "\ufffe", "\uffff", "\U00010000",
    "\U0001F600", "\U000FFFFF", "\U00100000", "\U0010FFFF", "a", "Z", "0", "u", "\\u", "{", "}", "[", "]", ":", ",",
    "null", "true", "'", "\ud83d", "\udc00",
]


def adv_str(rng, n=6):
    return "".join(rng.choice(ADV_CHARS) if rng.random() < 0.8 else chr(rng.choice([rng.randrange(0, 0xD800), rng.randrange(0xE000, 0x110000)])) for _ in range(rng.randint(0, n)))


def adv_value(rng, depth=0):
    r = rng.random()
    if depth > 3 or r < 0.35:
        k = rng.random()
        if k < 0.55:
            return adv_str(rng)
        if k < 0.75:
            return rng.choice([0, -1, 1, 7, 10, 42, -30, 99, 100, 101, 2**31, -(2**63), 10**25, rng.randrange(-10**6, 10**6)])
        return rng.choice([None, True, False])
    if r < 0.65:
        return [adv_value(rng, depth + 1) for _ in range(rng.randint(0, 4))]
    return {adv_str(rng, 3): adv_value(rng, depth + 1) for _ in range(rng.randint(0, 4))}


def adv_text(rng):
    """JSON-ish texts: valid with noise (whitespace, \\/ and upper-case escapes, duplicate keys), and broken ones."""
    v = adv_value(rng)
    t = json.dumps(v, ensure_ascii=rng.random() < 0.6)
    ops = rng.randint(0, 3)
    for _ in range(ops):
        k = rng.random()
        pos = rng.randrange(0, len(t) + 1)
        if k < 0.3:
            t = t[:pos] + rng.choice([" ", "\t", "\n", "\r", "  "]) + t[pos:]
        elif k < 0.4:
            t = t.replace("\\u00", "\\u00".upper().replace("U", "u"), 1).replace("e9", "E9")
        elif k < 0.5:
            t = t.replace("/", "\\/")
        elif k < 0.6:
            t = t[:pos] + rng.choice(["0", "1", "-", ".5", "e3", "E+2", ",", ":", '"', "]", "}", "[", "{", "\\", "\\u12", "\\ud83d", "\\udc00", "\x01", "NaN", "Infinity", "nul", "tru", "\v", "\xa0"]) + t[pos:]
        elif k < 0.7 and len(t) > 0:
            t = t[:pos] + t[pos + 1:]
        elif k < 0.8:
            t = '{"a": 1, "b": [2], "a": ' + t + ', "c": {"x": 1, "x": 2}}'
        elif k < 0.9:
            t = "[" + t + rng.choice([",", ", ", " ,", ",]"]) + t + "]"
        else:
            t = rng.choice(["", " ", "01", "-", "-0", "- 1", "1.0", "1e2", "[1,]", "{,}", '{"a"}', '{"a":}', "[,1]", '"\\x"', '"\\', '"abc', "nullx", "[] []", '"\\ud83d\\ude00"', '"\\uD83D\\uDE00"', '"\\ud83d"', '"\\ud83dx"', '"\\ud83d\\u0041"', '"\\udc00"', '"\t"', "+1", "0x10", "1_000", "True", "None"])
    return t


def explore_jv(ctx, n):
    rng = ctx.rng
    for _ in range(n):
        v = adv_value(rng)
        jv_value(ctx, v, {"value": v}, "adversarial value")
        t = adv_text(rng)
        jv_text(ctx, t, {"text": t})
        ctx.evaluations += 2


# --------------------------------------------------------------------------- directed cases


def directed_forms():
    """One minimal form per known loss shape, and near misses that must round-trip cleanly."""
    ch = [{"list_name": "l", "name": "a", "label": "A", "pop": "1"}, {"list_name": "l", "name": "b", "label": "B"}]
    yield "group-relevant", {"survey": [{"type": "begin group", "name": "g", "label": "G", "relevant": "1 = 1"},
                                        {"type": "text", "name": "q", "label": "Q"}, {"type": "end group"}]}
    yield "group-required-message", {"survey": [{"type": "begin group", "name": "g", "label::en": "G", "required": "yes", "required_message::en": "need"},
                                                {"type": "text", "name": "q", "label::en": "Q"}, {"type": "end group"}]}
    yield "repeat-relevant", {"survey": [{"type": "begin repeat", "name": "r", "label": "R", "relevant": "1 = 1"},
                                         {"type": "text", "name": "q", "label": "Q"}, {"type": "end repeat"}]}
    yield "extra-choice-column", {"survey": [{"type": "select_one l", "name": "s", "label": "S", "choice_filter": "pop = '1'"}], "choices": ch}
    yield "extra-choice-column-unused", {"survey": [{"type": "select_multiple l", "name": "s", "label": "S"}], "choices": ch}
    yield "qtd-hint", {"survey": [{"type": "phone number", "name": "p", "label": "P", "hint": "my hint"}]}
    yield "qtd-hint-translated", {"survey": [{"type": "number of days in last year", "name": "p", "label::en": "P", "hint::en": "my hint", "hint::fr": "mon"}]}
    yield "qtd-hint-default", {"survey": [{"type": "phone number", "name": "p", "label": "P"}]}
    yield "plain", {"survey": [{"type": "text", "name": "q", "label": "Q", "hint": "h", "relevant": "1 = 1", "bind::foo": "bar"}],
                    "settings": [{"form_title": "T", "form_id": "f", "version": "3", "attribute::x": "1", "public_key": "K", "submission_url": "http://u"}]}
    yield "osm", {"survey": [{"type": "osm", "name": "o", "label": "O"}]}
    yield "osm-tags", {"survey": [{"type": "osm t", "name": "o", "label": "O"}, {"type": "select_one l", "name": "s", "label": "S"}],
                       "choices": ch[1:], "osm": [{"list_name": "t", "name": "a", "label": "A"}]}
    yield "select-from-file", {"survey": [{"type": "select_one_from_file x.csv", "name": "s", "label": "S"},
                                          {"type": "select_multiple_from_file y.xml", "name": "s2", "label": "S", "parameters": "value=v label=l"}]}
    yield "select-from-repeat", {"survey": [{"type": "begin repeat", "name": "r", "label": "R"}, {"type": "text", "name": "t", "label": "T"},
                                            {"type": "end repeat"}, {"type": "select_one ${t}", "name": "s", "label": "S"}]}
    yield "or-other", {"survey": [{"type": "select_one l or_other", "name": "s", "label": "S"}], "choices": ch[1:]}
    yield "external", {"survey": [{"type": "select_one_external l", "name": "s", "label": "S", "choice_filter": "x=1"}], "choices": ch[1:],
                       "external_choices": [{"list_name": "l", "name": "a", "label": "A", "x": "1"}]}
    yield "table-list", {"survey": [{"type": "begin group", "name": "g", "label": "G", "appearance": "table-list"},
                                    {"type": "select_one l", "name": "s", "label": "S"}, {"type": "select_one l", "name": "s2", "label": "S2"},
                                    {"type": "end group"}], "choices": ch[1:]}
    yield "audit-range-image", {"survey": [{"type": "audit", "name": "audit", "parameters": "location-priority=balanced location-min-interval=60 location-max-age=300"},
                                           {"type": "range", "name": "q", "label": "Q", "parameters": "start=1 end=5 step=1"},
                                           {"type": "image", "name": "i", "label": "I", "default": "a.png"}]}
    yield "loop", {"survey": [{"type": "begin loop over l", "name": "lp", "label": "L"}, {"type": "text", "name": "q", "label": "Q %(label)s"},
                              {"type": "end loop"}], "choices": ch[1:]}
    # languages / custom attributes named like keys that to_json_dict deletes at the top level: nested dicts
    # must keep them (the key collection handed to the recursive calls is an exhausted iterator)
    yield "nested-keys-named-like-deleted-keys", {"survey": [
        {"type": "begin group", "name": "g", "label::parent": "G", "label::extra_data": "G2"},
        {"type": "text", "name": "q", "label::parent": "Q", "label::extra_data": "Q2", "hint::parent": "H", "bind::hint": "x",
         "bind::control": "y", "body::bind": "z", "instance::parent": "w"},
        {"type": "end group"}]}
    yield "add-none-option-one", {"survey": [{"type": "select_multiple l", "name": "s", "label": "S"}], "choices": ch[1:],
                                  "settings": [{"add_none_option": "yes"}]}
    yield "add-none-option-shared", {"survey": [{"type": "select_multiple l", "name": "s", "label": "S", "constraint": ". != 'b'"},
                                                {"type": "select_multiple l", "name": "s2", "label": "S2"}], "choices": ch[1:],
                                     "settings": [{"add_none_option": "true"}]}
    yield "search-select", {"survey": [{"type": "select_one l", "name": "s", "label": "S", "appearance": "search('fruits')"}],
                            "choices": ch[1:]}
    # extra choices columns named like structural keys of the element classes (a cascade column is usually `parent`)
    yield "choice-column-parent", {"survey": [{"type": "select_one r", "name": "region", "label": "R"},
                                              {"type": "select_one l", "name": "s", "label": "S", "choice_filter": "parent = ${region}"}],
                                   "choices": [{"list_name": "r", "name": "n", "label": "N"},
                                               {"list_name": "l", "name": "a", "label": "A", "parent": "n", "extra_data": "e1"},
                                               {"list_name": "l", "name": "b", "label": "B", "parent": "n", "children": "c"}]}
    # entity declarations: create / update / upsert, save_to (dumps are serialised to text on all three paths; the
    # dump taken after to_xml() differs by the entities namespace and goes through path 3)
    ent_rows = [{"type": "text", "name": "eid", "label": "I"}, {"type": "text", "name": "q", "label": "Q", "save_to": "p"},
                {"type": "begin group", "name": "g", "label": "G"}, {"type": "integer", "name": "n", "label": "N", "save_to": "size"},
                {"type": "end group"}]
    yield "entity-create", {"survey": ent_rows, "entities": [{"dataset": "trees", "label": "concat(${q}, ' x')", "create_if": "${q} != ''"}]}
    yield "entity-update", {"survey": ent_rows, "entities": [{"dataset": "trees", "entity_id": "${eid}"}],
                            "settings": [{"namespaces": 'ex="http://example.org/ns"'}]}
    yield "entity-upsert", {"survey": ent_rows, "entities": [{"dataset": "trees", "entity_id": "${eid}", "label": "${q}",
                                                              "create_if": "${eid} = ''", "update_if": "${eid} != ''"}]}
    yield "group-appearance-only", {"survey": [{"type": "begin group", "name": "g", "label": "G", "appearance": "field-list"},
                                               {"type": "select_one l", "name": "s", "label": "S", "parameters": "randomize=true seed=3"},
                                               {"type": "end group"}], "choices": ch[1:]}


def explore(ctx, factor, bs):
    rng = ctx.rng
    if factor == 1:
        for name, form in directed_forms():
            form_case(ctx, form, origin="directed:" + name)
    # family: section nests with per-level dynamic defaults / triggers (code that walks the tree by `type`)
    for i in range(ctx.pick(60, 1500) * factor):
        form_case(ctx, c16_gen.nest_form(rng), origin="nest")
    n = ctx.pick(450, 9000) * factor
    for i in range(n):
        form = c16_gen.c16_form(rng, big=not ctx.quick() and rng.random() < 0.3, adversarial_text=rng.random() < 0.3)
        form_case(ctx, form)
    explore_jv(ctx, ctx.pick(1500, 40000) * factor)
    a = ctx.dist.get("model:jv:answered", 0)
    u = sum(v for k, v in ctx.dist.items() if k.startswith("model:jv:unsupported"))
    ctx.notes["fragment_share_jv"] = round(a / max(1, a + u), 4)
    ctx.notes["path1_failures"] = sum(v for k, v in ctx.dist.items() if k.startswith("oracle:p1"))
    ctx.notes["path2_clean_share"] = round(ctx.dist.get("roundtrip:clean", 0) / max(1, ctx.dist.get("impl:ok", 0)), 4)


def replay(ctx, payload, bs):
    before = len(ctx.failures), len(ctx.mismatches)
    case = payload.get("case") or {}
    if "form" in case:
        form_case(ctx, case["form"], origin="replay")
    elif "text" in case:
        jv_text(ctx, case["text"], case)
    elif "value" in case:
        jv_value(ctx, case["value"], case, "replay")
    for m in payload.get("correspondence_mismatches", []) or []:
        c = m.get("case") or {}
        if "text" in c:
            jv_text(ctx, c["text"], c)
        elif "value" in c:
            jv_value(ctx, c["value"], c, "replay")
        elif "form" in c:
            form_case(ctx, c["form"], origin="replay")
    return (len(ctx.failures), len(ctx.mismatches)) == before


def main(argv):
    return vcore.run_check(PROP, explore, RULE, matchers=MATCHERS, replay=replay, argv=argv)
