"""
C12 — container format and delivery channel do not matter.

Theorem side: Pyxv/Proofs/C12.lean about Pyxv/Model/Backends.lean (`getRows_spec`, `getHeaders_spec`,
`trimTrailing_*`, `cellText_*`, `csv_roundtrip`, `md_roundtrip`, `channel_independent`).

Check side (this file):
  * pipe: every generated abstract workbook is rendered into md, csv, xlsx, xlsm, a stand-in `.xls`
    Book and the dict container, delivered through path / PathLike / bytes / BytesIO / open binary
    file / str with explicit and implicit `file_type`, with random cell typing (int, integral float,
    decimal, bool, padded text, nbsp-padded text), blank row / column runs around the limits 60 / 20
    and trailing whitespace-only rows / columns.  Oracle: every channel yields the ConvertResult
    (outcome class, XForm, warnings, itemsets) of the dict container (a path additionally supplying
    `fallback_form_name` = its stem), and the parsed DefinitionData of the dict container.
  * fn: the Lean model functions (`mdToDict`, `csvToDict`, `csvRead`, `getHeaders`, `getRows`,
    `cellText`) against the Python functions of the same name on the rendered and on adversarial
    texts / typed grids.
  * legacy `.xls` fixtures of /repo/tests against their `.xlsx` twins (real xlrd decoding).
Known genuine divergences are *predicted exactly* (see `expected_for`): a deviation is a known
finding only when the channel's result equals the dict result of the workbook transformed the way
the finding says (blank rows dropped for md/csv: F16; interior nbsp read as space by xls/xlsx: F29 …).
"""

from __future__ import annotations

import copy
import csv
import dataclasses
import io
import json
import os
import random
import re
import traceback
from pathlib import Path

import backends_fn as FN
import backends_typed as BT
import containers as C
import gen
import vcore
from vcore import Failure

PROP = "C12"
RULE = (
    "generated forms (gen.FormGen: groups/repeats, selects, 0-2 languages, settings, adversarial text) turned into "
    "abstract workbooks and enriched (numeric / boolean / decimal looking cells, interior nbsp, interior blank rows, "
    "empty sheets, unrelated extra sheet, rows longer than the header, newline cells, external_choices) x containers "
    "{dict, md, csv, xlsx, xlsm, stand-in xls} x channels {path, PathLike, bytes, BytesIO, open file, str} x "
    "explicit/implicit file_type x cell typings x blank runs 59/60/61 rows, 19/20/21 columns x trailing "
    "whitespace-only rows/columns; plus adversarial md / csv texts and typed grids for the component functions, "
    "plus the legacy .xls/.xlsx fixture twins. distinct = canonical hash of (workbook, rendering choices); "
    "non-trivial = the dict channel converts (or fails with a PyXFormError) and at least 3 containers were compared"
)

NBSP = "\u00a0"
SCRATCH_ROOT = Path(os.environ.get("C12_TMPDIR") or (vcore.WORK / "c12tmp"))


# --------------------------------------------------------------------------- implementation runs


def classify_exc(e: Exception) -> dict:
    from pyxform.errors import PyXFormError

    if isinstance(e, PyXFormError):
        return {"class": "pyxform", "exc": type(e).__name__, "msg": str(e)}
    tb = traceback.extract_tb(e.__traceback__)
    site = ""
    for fr in reversed(tb):
        if "/pyxform/" in fr.filename:
            site = f"{Path(fr.filename).name}:{fr.name}"
            break
    return {"class": "internal", "exc": type(e).__name__, "msg": f"{type(e).__name__}: {e}"[:300], "site": site}


def run_convert(xlsform, file_type=None, form_name=None):
    from pyxform.xls2xform import convert

    try:
        res = convert(xlsform=xlsform, file_type=file_type, form_name=form_name)
    except RecursionError:
        return {"class": "internal", "exc": "RecursionError", "msg": "RecursionError", "site": ""}
    except Exception as e:  # noqa: BLE001
        return classify_exc(e)
    return {"class": "ok", "xform": res.xform, "warnings": list(res.warnings), "itemsets": res.itemsets}


def dd_to_obj(dd) -> dict:
    """DefinitionData as plain JSON-able data (dict keys that are None become null keys in pair lists)."""

    def rows(v):
        if v is None:
            return None
        return [[[k, x] for k, x in r.items()] for r in v]

    out = {}
    for f in dataclasses.fields(dd):
        v = getattr(dd, f.name)
        if f.name in ("sheet_names",):
            out[f.name] = list(v) if v is not None else None
        elif f.name == "fallback_form_name":
            out[f.name] = v
        elif f.name.endswith("_header"):
            out[f.name] = None if v is None else [list(d.keys()) for d in v]
        else:
            out[f.name] = rows(v)
    return out


def run_parse(xlsform, file_type=None):
    from pyxform.xls2json_backends import get_xlsform

    try:
        dd = get_xlsform(xlsform=xlsform, file_type=file_type)
    except Exception as e:  # noqa: BLE001
        return classify_exc(e)
    return {"class": "ok", "dd": dd_to_obj(dd)}


def dd_norm(obj: dict) -> dict:
    """DefinitionData compared as content: a missing header list and an empty one are the same,
    trailing blank rows are not content."""
    out = {}
    for k, v in obj.items():
        if k.endswith("_header"):
            # an unnamed (spacer) column is not content: csv keeps it as the key ""
            out[k] = [[h for h in d if h != ""] for d in (v or [])]
            out[k] = [d for d in out[k] if d]
        elif k in ("sheet_names", "fallback_form_name"):
            out[k] = v
        elif v is None:
            out[k] = None
        else:
            v = list(v)
            while v and not v[-1]:
                v.pop()
            out[k] = v
    return out


def obs_eq(a: dict, b: dict) -> bool:
    if a["class"] != b["class"]:
        return False
    if a["class"] == "ok":
        return a["xform"] == b["xform"] and a["warnings"] == b["warnings"] and a["itemsets"] == b["itemsets"]
    if a["class"] == "pyxform":
        return a["msg"] == b["msg"]
    return a["exc"] == b["exc"] and a.get("site") == b.get("site")


def parse_eq(a: dict, b: dict) -> bool:
    if a["class"] != b["class"]:
        return False
    if a["class"] == "ok":
        return dd_norm(a["dd"]) == dd_norm(b["dd"])
    return obs_eq(a, b)


def obs_brief(o: dict) -> dict:
    if o["class"] == "ok":
        return {"class": "ok", "xform": o["xform"], "warnings": o["warnings"], "itemsets": o["itemsets"]}
    return o


# --------------------------------------------------------------------------- abstract workbooks


def form_to_aw(form: dict) -> dict:
    sheets = []
    for s in ("survey", "choices", "settings", "external_choices", "entities"):
        if s in form and form[s] is not None:
            cols = []
            for r in form[s]:
                for k in r:
                    if k not in cols:
                        cols.append(k)
            rows = [[(str(r.get(c, "") or "")).strip() for c in cols] for r in form[s]]
            sheets.append({"name": s, "header": cols, "rows": rows})
    return {"sheets": sheets}


NUMERIC_TEXTS = ["0", "1", "7", "42", "-3", "1.5", "0.25", "-2.75", "3.14159", "100", "2024", "TRUE", "FALSE",
                 "1e3", "007", "1.0", "1.50", "12345678901", "0.1", "-0", "1,5", "true", "٣",
                 # doubles whose shortest round-tripping spelling has 16-17 significant digits
                 "3.141592653589793", "0.3333333333333333", "-33.86785123456789", "2.718281828459045",
                 "0.30000000000000004", "1.4142135623730951", "151.20929999999998", "0.1234567890123456"]


def precise_decimal(rng: random.Random) -> str:
    """A random double spelled by its shortest round-tripping decimal (mostly 15-17 significant digits)."""
    f = rng.choice([rng.random(), rng.uniform(-180, 180), rng.uniform(-1e6, 1e6), 1 / rng.randint(3, 99), rng.random() * 10 ** rng.randint(-5, 8)])
    t = repr(f)
    return t if C.RE_DEC.match(t) else "0.1"


def has_interior_blank(sheet: dict) -> bool:
    rows = C.strip_trailing_blank(C.canon_rows(sheet))
    return any(not r for r in rows)


def has_long_row(sheet: dict) -> bool:
    n = len(sheet["header"])
    return any(any(c != "" for c in r[n:]) for r in sheet["rows"])


def aw_features(aw: dict) -> dict:
    f = {
        "blank_row": any(has_interior_blank(s) for s in aw["sheets"]),
        "nbsp": any(NBSP in c for s in aw["sheets"] for r in [s["header"], *s["rows"]] for c in r),
        "extra_sheet": len(aw["sheets"]) > 1 and any(s["name"].lower() not in C.SUPPORTED for s in aw["sheets"]),
        "long_row": any(has_long_row(s) for s in aw["sheets"]),
        "empty_sheet": any(not s["header"] and not s["rows"] for s in aw["sheets"]),
        "headerless_value": any(h == "" and c != "" for s in aw["sheets"] for r in s["rows"] for h, c in zip(s["header"], r)),
        "blank_header": any(h == "" for s in aw["sheets"] for h in s["header"]),
        "newline": any("\n" in c for s in aw["sheets"] for r in [s["header"], *s["rows"]] for c in r),
    }
    return f


def enrich(rng: random.Random, aw: dict, knobs: dict) -> dict:
    """Add the content shapes C12 talks about.  Returns the list of enrichments applied."""
    applied = []
    survey = next((s for s in aw["sheets"] if s["name"] == "survey"), None)
    choices = next((s for s in aw["sheets"] if s["name"] == "choices"), None)
    if survey is None:
        return applied

    def col(sheet, name):
        if name not in sheet["header"]:
            sheet["header"].append(name)
            for r in sheet["rows"]:
                r.append("")
        return sheet["header"].index(name)

    if rng.random() < knobs.get("p_numeric", 0.6):
        # numeric / boolean looking cells in labels, hints, defaults, choice names and labels
        for sheet in (survey, choices):
            if sheet is None:
                continue
            for r in sheet["rows"]:
                for i, h in enumerate(sheet["header"]):
                    if i < len(r) and r[i] and (h.startswith(("label", "hint")) or h in ("constraint_message",)) and rng.random() < 0.35:
                        r[i] = rng.choice(NUMERIC_TEXTS) if rng.random() < 0.7 else precise_decimal(rng)
        if choices is not None and rng.random() < 0.5:
            ni = choices["header"].index("name") if "name" in choices["header"] else None
            if ni is not None:
                seen = {}
                for k, r in enumerate(choices["rows"]):
                    r[ni] = str(k + 1) if rng.random() < 0.7 else r[ni]
        applied.append("numeric")
    if rng.random() < knobs.get("p_nbsp", 0.12):
        cands = [(r, i) for r in survey["rows"] for i, h in enumerate(survey["header"]) if h.startswith(("label", "hint")) and r[i]]
        if cands:
            r, i = rng.choice(cands)
            r[i] = "A" + NBSP + "B " + r[i] if rng.random() < 0.5 else r[i] + NBSP + "z"
            applied.append("nbsp")
    if rng.random() < knobs.get("p_space_runs", 0.25):
        # runs of nbsp / spaces (nbsp next to a space, two nbsp, plain double spaces) in cells whose text is
        # not squeezed later: choice labels, form_title, external_choices, survey cells with clean_text_values = no
        seps = [NBSP * 2, " " + NBSP, NBSP + " ", "  ", NBSP + " " + NBSP, "   ", NBSP]
        settings = next((s for s in aw["sheets"] if s["name"] == "settings"), None)
        if settings is None:
            settings = {"name": "settings", "header": [], "rows": [[]]}
            aw["sheets"].append(settings)
        if not settings["rows"]:
            settings["rows"].append([""] * len(settings["header"]))
        settings["rows"][0].extend([""] * (len(settings["header"]) - len(settings["rows"][0])))
        ti = col(settings, "form_title")
        settings["rows"][0][ti] = "My" + rng.choice(seps) + "form" + rng.choice(["", rng.choice(seps) + "v2"])
        if rng.random() < 0.4:
            ci = col(settings, "clean_text_values")
            settings["rows"][0][ci] = "no"
        targets = []
        if choices is not None:
            targets += [(r, i) for r in choices["rows"] for i, h in enumerate(choices["header"]) if h.startswith("label") and i < len(r) and r[i]]
        targets += [(r, i) for r in survey["rows"] for i, h in enumerate(survey["header"]) if h.startswith(("label", "hint")) and i < len(r) and r[i]]
        for r, i in rng.sample(targets, k=min(len(targets), 3)):
            r[i] = rng.choice(["Red", "a", "x1"]) + rng.choice(seps) + rng.choice(["apple", "b", "Z"]) + rng.choice(["", rng.choice(seps) + "end"])
        applied.append("space_runs")
    if rng.random() < knobs.get("p_blank_row", 0.25):
        sheet = rng.choice([s for s in (survey, choices) if s is not None and s["rows"]] or [survey])
        if sheet["rows"]:
            pos = rng.randint(0, len(sheet["rows"]) - 1) if len(sheet["rows"]) > 1 else 0
            k = rng.choice([1, 1, 2, 3])
            for _ in range(k):
                sheet["rows"].insert(pos, [""] * len(sheet["header"]))
            applied.append("blank_row")
            # make the shift observable sometimes: a label-only row gets a generated name from its row number
            if sheet is survey and rng.random() < 0.6:
                ti, ni, li = col(survey, "type"), col(survey, "name"), col(survey, "label")
                row = [""] * len(survey["header"])
                row[ti], row[li] = "note", "N"
                survey["rows"].append(row)
                applied.append("unnamed_note")
    if rng.random() < knobs.get("p_extra_sheet", 0.1):
        aw["sheets"].insert(rng.randint(0, len(aw["sheets"])), {
            "name": rng.choice(["notes", "Sheet1", "extra", "surveys2", "lookup"]),
            "header": ["x", "y"], "rows": [["1", "two"], ["", "3"]]})
        applied.append("extra_sheet")
    if rng.random() < knobs.get("p_long_row", 0.08) and survey["rows"]:
        r = rng.choice(survey["rows"])
        r.extend([""] * (len(survey["header"]) - len(r)))
        r.append(rng.choice(["stray", "1", "note to self"]))
        applied.append("long_row")
    if rng.random() < knobs.get("p_empty_sheet", 0.08) and not any(s["name"] == "entities" for s in aw["sheets"]):
        name = rng.choice([n for n in ("choices", "settings", "external_choices") if not any(s["name"] == n for s in aw["sheets"])] or [None])
        if name:
            aw["sheets"].append({"name": name, "header": [], "rows": []})
            applied.append("empty_sheet")
    if rng.random() < knobs.get("p_newline", 0.08):
        cands = [(r, i) for r in survey["rows"] for i, h in enumerate(survey["header"]) if h.startswith(("label", "hint")) and r[i]]
        if cands:
            r, i = rng.choice(cands)
            r[i] = r[i] + "\nline two, \"quoted\""
            applied.append("newline")
    if rng.random() < knobs.get("p_case_sheet", 0.1):
        s = rng.choice(aw["sheets"])
        if s["name"].lower() in C.SUPPORTED:
            s["name"] = rng.choice([s["name"].upper(), s["name"].capitalize()])
            applied.append("sheet_case")
    if rng.random() < knobs.get("p_short_row", 0.2) and survey["rows"]:
        # ragged rows: trailing empty cells not written at all
        for r in survey["rows"]:
            if rng.random() < 0.5:
                while r and r[-1] == "":
                    r.pop()
        applied.append("ragged")
    return applied


def canonical_reading(aw: dict) -> dict:
    """What every file container reads: a U+00A0 in a cell *value* is a plain space (headers and sheet
    names are untouched).  The dict input is taken as it is, so the reference for the file containers is
    the dict container of this reading."""
    out = copy.deepcopy(aw)
    for s in out["sheets"]:
        s["rows"] = [[c.replace(NBSP, " ") for c in r] for r in s["rows"]]
    return out


# --------------------------------------------------------------------------- rendering choices


def make_layout(rng: random.Random, aw: dict, knobs: dict) -> dict:
    """Spreadsheet-only layout noise (never content): typing per cell, blank column runs inside the
    header, blank row runs inside the data, trailing whitespace-only rows / columns."""
    lay = {"typing_seed": rng.randrange(1 << 30), "p_typed": rng.choice([0.0, 0.5, 1.0]),
           "col_runs": {}, "row_runs": {}, "trail_rows": {}, "trail_cols": {}}
    for si, s in enumerate(aw["sheets"]):
        if s["header"] and rng.random() < knobs.get("p_col_run", 0.25):
            lay["col_runs"][str(si)] = [rng.randint(1, len(s["header"])) if len(s["header"]) > 0 else 0,
                                        rng.choice([1, 2, 19, 20, 20, 21])]
        if s["rows"] and rng.random() < knobs.get("p_row_run", 0.2):
            lay["row_runs"][str(si)] = [rng.randint(0, len(s["rows"]) - 1) if len(s["rows"]) > 1 else 0,
                                        rng.choice([1, 59, 60, 60, 61])]
        if rng.random() < knobs.get("p_trail", 0.3):
            lay["trail_rows"][str(si)] = rng.choice([1, 3, 60, 61, 70])
        if s["header"] and rng.random() < knobs.get("p_trail", 0.3):
            lay["trail_cols"][str(si)] = rng.choice([1, 2, 20, 21, 25])
    return lay


def apply_layout(aw: dict, lay: dict):
    """Returns (typed grids for xlsx/xls, the AW the dict channel must be compared with, truncating: bool).
    A blank run of <= 60 rows is content-neutral except that the blank rows are kept (row numbers);
    a blank run of columns is neutral.  Runs beyond the limits truncate: then no oracle applies
    (`truncating`), only the correspondence with the model."""
    rng = random.Random(lay["typing_seed"])
    p = lay["p_typed"]
    force = lay.get("force_typing") or {}

    def choose(text, is_header):
        if not is_header and text in force:
            return force[text]
        ts = C.typings(text)
        if is_header:
            ts = [t for t in ts if t in ("text", "padded", "nbsp_padded", "none", "blank")]
        if rng.random() < p:
            return rng.choice(ts)
        return ts[0]

    ref = copy.deepcopy(aw)
    phys = copy.deepcopy(aw)
    truncating = False
    for si, s in enumerate(phys["sheets"]):
        key = str(si)
        rs = ref["sheets"][si]
        if key in lay["row_runs"] and s["rows"]:
            pos, k = lay["row_runs"][key]
            pos = min(pos, len(s["rows"]))
            blank = [""] * len(s["header"])
            # only a run *followed by data* is interior
            s["rows"][pos:pos] = [list(blank) for _ in range(k)]
            rs["rows"][pos:pos] = [list(blank) for _ in range(k)]
            # the run may merge with neighbouring blank rows: measure the real maximum
        if key in lay["col_runs"] and s["header"]:
            pos, k = lay["col_runs"][key]
            pos = min(pos, len(s["header"]))
            s["header"][pos:pos] = [""] * k
            for r in s["rows"]:
                if len(r) >= pos:
                    r[pos:pos] = [""] * k
        if key in lay["trail_rows"]:
            width = max(1, len(s["header"]))
            s["rows"] = s["rows"] + [["" if j else "" for j in range(width)] for _ in range(lay["trail_rows"][key])]
            s["_trail_rows"] = lay["trail_rows"][key]
        if key in lay["trail_cols"]:
            s["_trail_cols"] = lay["trail_cols"][key]
        # does a limit truncate?  (longest interior blank run of rows > 60, of header cells > 20)
        # a row is empty for the spreadsheet readers when it has no cell *under a named header column*
        # (they read `len(headers)` columns only): a row whose only content lies beyond the header row
        # extends a run of empty rows
        if max_interior_run([row_data_empty(s["header"], r) for r in s["rows"]]) > 60:
            truncating = True
        if max_interior_run([h == "" for h in s["header"]]) > 20:
            truncating = True
    grids = []
    for s in phys["sheets"]:
        g = C.typed_grid({"sheets": [s]}, choose)[0]
        grid = g["grid"]
        tc = s.get("_trail_cols", 0)
        tr = s.get("_trail_rows", 0)
        if tc and grid:
            # whitespace-only cells to the right of the header row (and of some data rows)
            grid[0] = grid[0] + [("blank", " ")] * tc
        if tr:
            n = len(grid)
            for i in range(n - tr, n):
                if i >= 1:
                    grid[i] = [("blank", "  ")] + grid[i][1:] if grid[i] else [("blank", "  ")]
        grids.append({"name": s["name"], "grid": grid})
    return grids, ref, truncating


def row_data_empty(header: list[str], row: list[str]) -> bool:
    """No non-empty cell under a named header column (cells beyond the header width do not count)."""
    return not any(h != "" and c != "" for h, c in zip(header, row))


def max_interior_run(flags: list[bool]) -> int:
    """Longest run of True that is followed by a False (a trailing run is not interior)."""
    best = run = 0
    for f in flags:
        if f:
            run += 1
        else:
            best = max(best, run)
            run = 0
    return best


# --------------------------------------------------------------------------- one case


def md_representable(aw: dict) -> bool:
    for s in aw["sheets"]:
        if not C.md_ok_cell(s["name"]) or "|" in s["name"]:
            return False
        for r in [s["header"], *s["rows"]]:
            for c in r:
                if not C.md_ok_cell(c):
                    return False
    return True


def xlsx_representable(aw: dict) -> bool:
    names = [s["name"] for s in aw["sheets"]]
    if len({n.lower() for n in names}) != len(names):
        return False
    for s in aw["sheets"]:
        if not C.xlsx_sheet_title_ok(s["name"]):
            return False
        for r in [s["header"], *s["rows"]]:
            for c in r:
                if not C.xlsx_text_ok(c):
                    return False
    return True


KNOWN_SHAPES = {
    "F48": "csv: an unnamed (spacer) column on the choices sheet is kept as the header '' and draws the invalid-header warning; xls/xlsx/md/dict drop or ignore it",
}


UNNAMED_CHOICES_COLUMN_WARNING = ("[row : 1] On the 'choices' sheet, the '' value is invalid. "
                                  "Column headers must not be empty and must not contain spaces.")


def judge(ctx, case, container, channel, mode, obs, ref_obs, aw_ref, data_text=None, level="convert", stem=None,
          unnamed_choices_column=False):
    """Compare one channel's observation with the reference; classify a deviation."""
    eq = obs_eq if level == "convert" else parse_eq
    if eq(obs, ref_obs):
        return True
    feats = aw_features(aw_ref)
    where = {"container": container, "channel": channel, "mode": mode, "level": level}
    extra = {"where": where, "features": feats, "got": obs_brief(obs) if level == "convert" else obs,
             "expected": obs_brief(ref_obs) if level == "convert" else ref_obs}
    # F48: csv keeps an unnamed column of the choices sheet as the header "" and is warned about it
    if container == "csv" and level == "convert" and unnamed_choices_column and obs["class"] == "ok":
        extras = [w for w in obs["warnings"] if w.startswith(UNNAMED_CHOICES_COLUMN_WARNING)]
        if len(extras) == 1:
            e = dict(extra)
            e["unnamed_choices_column"] = True
            ctx.fail(Failure("channel-differs", f"F48: {KNOWN_SHAPES['F48']} ({container}/{channel}/{mode})", case,
                             signature="F48", extra=e))
            obs = dict(obs)
            obs["warnings"] = [w for w in obs["warnings"] if w not in extras]
            if eq(obs, ref_obs):
                return False

    def known(fid, **kw):
        e = dict(extra)
        e.update(kw)
        ctx.fail(Failure("channel-differs", f"{fid}: {KNOWN_SHAPES[fid]} ({container}/{channel}/{mode}, {level})", case,
                         signature=fid, extra=e))

    ctx.fail(Failure("channel-differs", f"{container} via {channel} ({mode} file_type), {level} level: result differs from the dict channel",
                     case, signature=f"differs:{container}:{level}", extra=extra))
    return False


def roundtrip_oracle(ctx, case, aw_ref):
    """The statements of `md_roundtrip` / `csv_roundtrip` evaluated on the implementation: inside the
    Lean guards (evaluated by the driver) the harness rendering is the model's rendering, and
    pyxform's parser returns the model's dict container `toBook`."""
    from pyxform import xls2json_backends as b

    try:
        json.dumps(aw_ref).encode("utf-8")
    except UnicodeEncodeError:
        return
    v = ctx.driver.call("be.render", sheets=aw_ref["sheets"])
    for kind, ok, fn, mine in (("md", v["mdok"], b.md_to_dict, C.to_md), ("csv", v["csvok"], b.csv_to_dict, C.to_csv)):
        ctx.count(f"guard:{kind}:{'inside' if ok else 'outside'}")
        if not ok:
            continue
        text = mine(aw_ref)
        if text != v[kind]:
            ctx.mismatch(f"harness {kind} rendering vs Backends.render{kind.capitalize()}", case, text, v[kind])
            continue
        py = FN.py_outcome(fn, text.encode("utf-8"))
        if py != {"outcome": "ok", "book": v["book"]}:
            ctx.fail(Failure(f"roundtrip-{kind}", f"{kind}_to_dict(render(wb)) is not the dict container of wb although the guard of {kind}_roundtrip holds",
                             case, signature=f"roundtrip:{kind}", extra={"text": text, "got": py, "expected": v["book"]}))


def excel_roundtrip_oracle(ctx, case, aw_ref, rng):
    """The statement of `excel_roundtrip` evaluated on the implementation: plain typed grids (header as
    text cells, data cells typed at random, no layout noise) that *show* the workbook (checked by the
    driver with `Excel.showsAllB`) inside `Excel.ExcelOK` must be read by pyxform's xls and xlsx code as
    the model's dict container."""
    from pyxform import xls2json_backends as b

    def choose(text, is_header):
        ts = C.typings(text)
        return "text" if is_header and text != "" else rng.choice(ts)

    if any(h == "" for s_ in aw_ref["sheets"] for h in s_["header"]):
        return
    grids = C.typed_grid(aw_ref, choose)
    for which in ("xlsx", "xls"):
        cells = [[[FN.cell_json(v if which == "xlsx" else C.xls_cell(t, v)[1] if t != "bool" else bool(v)) for t, v in row]
                  for row in g["grid"]] for g in grids]
        v = ctx.driver.call("be.excel_guard", sheets=aw_ref["sheets"], grids=cells)
        ctx.count(f"guard:{which}:{'inside' if v['ok'] else 'outside'}")
        if not v["ok"]:
            continue
        data = C.to_xlsx(grids) if which == "xlsx" else C.to_fake_xls(grids)
        py = FN.py_outcome(b.xlsx_to_dict if which == "xlsx" else b.xls_to_dict, data)
        if py != {"outcome": "ok", "book": v["book"]}:
            ctx.fail(Failure(f"roundtrip-{which}", f"{which}_to_dict of typed grids showing wb is not the dict container of wb although the guard of excel_roundtrip holds",
                             case, signature=f"roundtrip:{which}", extra={"grids": [[g["name"], [[repr(x) for _t, x in r] for r in g["grid"]]] for g in grids], "got": py, "expected": v["book"]}))


def with_spacer_columns(rng: random.Random, aw: dict, always: bool = False) -> dict:
    """Layout noise of the text containers: unnamed, empty spacer columns between named columns and
    empty columns to the right of the data (spreadsheet exports pad every row to the same width)."""
    out = copy.deepcopy(aw)
    for s in out["sheets"]:
        n = len(s["header"])
        if n < 2 or (not always and rng.random() < 0.3):
            continue
        width = max([n] + [len(r) for r in s["rows"]])
        pos = rng.randint(1, n - 1)
        k = rng.choice([1, 1, 2])
        tail = rng.choice([0, 0, 1, 3])
        s["header"] = s["header"][:pos] + [""] * k + s["header"][pos:] + [""] * (width - n + tail)
        rows = []
        for r in s["rows"]:
            r = r + [""] * (width - len(r))
            rows.append(r[:pos] + [""] * k + r[pos:] + [""] * tail)
        s["rows"] = rows
    return out


def case_run(ctx, case, scratch: C.Scratch, full: bool = True):
    """case = {"aw": …, "layout": …, "channels": seed}"""
    aw = case["aw"]
    lay = case["layout"]
    rng = random.Random(case.get("chan_seed", 0))
    grids, aw_ref, truncating = apply_layout(aw, lay)
    feats = aw_features(aw_ref)
    for k, v in feats.items():
        if v:
            ctx.count("feature:" + k)
    if truncating:
        ctx.count("layout:beyond-limit(no oracle)")
    if "expect_truncating" in case and case["expect_truncating"] != truncating:
        raise vcore.Infra(f"truncation predicate of the harness is wrong on a directed case: expected {case['expect_truncating']}")
    stem = case.get("stem", "data")

    aw_can = canonical_reading(aw_ref)
    ref_dict = C.to_dict(aw_can)
    ref = run_convert(copy.deepcopy(ref_dict))
    ref_dd = run_parse(copy.deepcopy(ref_dict))
    refs_by_stem = {}

    def ref_for(st, level):
        """the dict channel's result with `fallback_form_name` = the stem the harness reads off the file name"""
        if (st, level) not in refs_by_stem:
            d = C.to_dict(aw_can, fallback=st)
            refs_by_stem[(st, level)] = run_convert(copy.deepcopy(d)) if level == "convert" else run_parse(copy.deepcopy(d))
        return refs_by_stem[(st, level)]
    ctx.count("dict:" + ref["class"])
    compared = 0

    # the dict container with the unrelated sheet left in (F26)
    if feats["extra_sheet"]:
        o = run_convert(copy.deepcopy(C.to_dict(aw_can, keep_unsupported=True)))
        judge(ctx, case, "dict", "dict", "n/a", o, ref, aw_ref)
        compared += 1

    rendered = {}
    if md_representable(aw_ref) and not feats["headerless_value"]:
        rendered["md"] = C.to_md(aw_ref)
    else:
        ctx.count("md:not-representable")
    pad = (lambda c: rng.choice(["", " ", "  "]) + c + rng.choice(["", " ", "\t"])) if rng.random() < 0.4 else None
    rendered["csv"] = C.to_csv(aw_ref, quoting=rng.choice([csv.QUOTE_ALL, csv.QUOTE_MINIMAL]),
                               lineterminator=rng.choice(["\r\n", "\n"]), pad=pad)
    convert_only = set()
    unnamed_choices = False
    if not feats["long_row"] and rng.random() < case.get("p_spacer", 0.4):
        # the same content with unnamed spacer columns (content-neutral for every reader)
        aw_sp = with_spacer_columns(rng, aw_ref, always=case.get("p_spacer", 0) >= 1)
        unnamed_choices = any(s_["name"].lower() == "choices" and "" in s_["header"] for s_ in aw_sp["sheets"])
        rendered["csv"] = C.to_csv(aw_sp, quoting=rng.choice([csv.QUOTE_ALL, csv.QUOTE_MINIMAL]),
                                   lineterminator=rng.choice(["\r\n", "\n"]), pad=pad)
        ctx.count("layout:csv-spacer-columns")
        if "md" in rendered and rng.random() < 0.5:
            rendered["md"] = C.to_md(aw_sp)
            convert_only.add("md")  # md names an unnamed column "None" in the header list (not content)
            ctx.count("layout:md-spacer-columns")
    if xlsx_representable(aw_ref):
        x = C.to_xlsx(grids)
        rendered["xlsx"] = x
        rendered["xlsm"] = x
        rendered["xls"] = C.to_fake_xls(grids)
    else:
        ctx.count("xlsx:not-representable")

    roundtrip_oracle(ctx, case, aw_ref)
    if "xlsx" in rendered and rng.random() < case.get("p_sheet_pipe", 0.5):
        # pyxform's own sheet code (headers, rows, typed cells) against the model, grid by grid
        FN.sheet_pipe_case(ctx, grids, "xls")
        FN.sheet_pipe_case(ctx, grids, "xlsx")
        FN.workbook_pipe_case(ctx, grids, "xls", rendered["xls"])
        FN.workbook_pipe_case(ctx, grids, "xlsx", rendered["xlsx"])
        excel_roundtrip_oracle(ctx, case, aw_ref, rng)

    for container, data in rendered.items():
        chans = C.channels_for(container)
        plan = [(ch, mode) for ch in chans for mode in ("explicit", "implicit")]
        if not full:
            plan = rng.sample(plan, k=min(len(plan), case.get("per_container", 3)))
        first = True
        for ch, mode in plan:
            ft = C.EXT[container] if mode == "explicit" else None
            is_trunc = truncating and container in ("xlsx", "xlsm", "xls")
            text = data if isinstance(data, str) else None
            levels = ("convert", "parse") if first or rng.random() < case.get("p_both", 0.3) else (rng.choice(["convert", "parse"]),)
            if container in convert_only:
                levels = ("convert",)
            for level in levels:
                name = C.file_name(rng, container, stem) if ch in ("path", "pathlike") else None
                if name is not None and mode == "implicit" and container in ("xlsm",):
                    name = stem + C.EXT[container]  # xlsm bytes = xlsx bytes: nothing to sniff
                subdirs = None
                if ch in ("path", "pathlike", "file"):
                    dk = rng.choice(C.DIR_KINDS)
                    subdirs = C.unusual_dirs(rng, dk)
                    ctx.count(f"dir:{dk}/{ch}")
                arg, cleanup, gives_stem = C.deliver(container, data, ch, scratch, stem=stem, name=name, subdirs=subdirs)
                if gives_stem:
                    ctx.count("path-suffix:" + (name[len(stem):] or "(none)"))
                    if len(str(arg)) > 260:
                        ctx.count("path-length>260")
                try:
                    if ch == "bytesio_twice":
                        run_parse(arg, file_type=ft)  # first use of the stream; the second one is observed
                    o = run_convert(arg, file_type=ft) if level == "convert" else run_parse(arg, file_type=ft)
                finally:
                    cleanup()
                ctx.count(f"run:{container}/{ch}/{mode}/{level}")
                if is_trunc:
                    continue
                st = C.path_stem(name) if gives_stem else None
                exp = ref_for(st, level) if gives_stem else (ref if level == "convert" else ref_dd)
                judge(ctx, case, container, ch, mode, o, exp, aw_ref, data_text=text, level=level, stem=st,
                      unnamed_choices_column=unnamed_choices)
                compared += 1
            first = False
    ctx.record({"aw": aw, "layout": lay, "stem": stem}, nontrivial=ref["class"] in ("ok", "pyxform") and compared >= 3)
    return rendered, grids, aw_ref


# --------------------------------------------------------------------------- legacy fixtures


def fixtures_case(ctx):
    """Legacy .xls fixtures of the repo (real xlrd decoding) against their .xlsx twins."""
    root = vcore.REPO / "tests"
    n = 0
    for xls in sorted(root.rglob("*.xls")):
        xlsx = xls.with_suffix(".xlsx")
        if not xlsx.exists():
            continue
        a = run_parse(str(xls))
        b = run_parse(str(xlsx))
        n += 1
        ctx.count("fixture-twin")
        case = {"fixture": str(xls.relative_to(root))}
        if a["class"] != b["class"] or (a["class"] == "ok" and dd_norm(a["dd"]) != dd_norm(b["dd"])):
            ctx.fail(Failure("fixture-twin-differs", f"{xls.name} and {xlsx.name} parse differently", case,
                             signature="fixture-twin", extra={"xls": a, "xlsx": b}))
            continue
        ca = run_convert(str(xls))
        cb = run_convert(str(xlsx))
        if not obs_eq(ca, cb):
            ctx.fail(Failure("fixture-twin-differs", f"{xls.name} and {xlsx.name} convert differently", case,
                             signature="fixture-twin", extra={"xls": obs_brief(ca), "xlsx": obs_brief(cb)}))
        ctx.record(case, nontrivial=ca["class"] == "ok")
    return n


# --------------------------------------------------------------------------- directed cases


def directed_cases() -> list[dict]:
    base = {"sheets": [{"name": "survey", "header": ["type", "name", "label"],
                        "rows": [["text", "a", "A"], ["integer", "b", "B"]]}]}

    def mk(aw, lay=None, stem="data"):
        lay0 = {"typing_seed": 1, "p_typed": 0.0, "col_runs": {}, "row_runs": {}, "trail_rows": {}, "trail_cols": {}}
        lay0.update(lay or {})
        return {"aw": aw, "layout": lay0, "stem": stem, "chan_seed": 7}

    out = []
    # F16: blank row before a label-only note (generated_note_name_N)
    aw = copy.deepcopy(base)
    aw["sheets"][0]["rows"] = [["text", "a", "A"], ["", "", ""], ["note", "", "N"]]
    out.append(mk(aw))
    # F29: interior nbsp
    aw = copy.deepcopy(base)
    aw["sheets"][0]["rows"][0][2] = "A" + NBSP + "B"
    out.append(mk(aw))
    # runs of nbsp / spaces in cells that nothing squeezes later (choice label, form_title, clean_text_values = no)
    aw = copy.deepcopy(base)
    aw["sheets"][0]["rows"] = [["select_one l", "a", "Pick" + NBSP + NBSP + "one"], ["text", "b", "two  spaces " + NBSP + "here"]]
    aw["sheets"].append({"name": "choices", "header": ["list_name", "name", "label"],
                         "rows": [["l", "x", "Red" + NBSP + NBSP + "apple"], ["l", "y", "Green " + NBSP + "pear  tree"]]})
    aw["sheets"].append({"name": "settings", "header": ["form_title", "clean_text_values"], "rows": [["My" + NBSP + " form", "no"]]})
    out.append(mk(aw))
    # F26: unrelated sheet
    aw = copy.deepcopy(base)
    aw["sheets"].append({"name": "notes", "header": ["x"], "rows": [["1"]]})
    out.append(mk(aw))
    # F27: row longer than the header; sheet without rows
    aw = copy.deepcopy(base)
    aw["sheets"][0]["rows"][0].append("stray")
    out.append(mk(aw))
    aw = copy.deepcopy(base)
    aw["sheets"].append({"name": "choices", "header": [], "rows": []})
    out.append(mk(aw))
    # F39: csv with pipes, no hint
    aw = copy.deepcopy(base)
    aw["sheets"][0]["rows"][0][2] = "a|b|c|d|e|f"
    out.append(mk(aw))
    # spacer columns in md / csv (F48 on the choices sheet)
    aw = copy.deepcopy(base)
    aw["sheets"][0]["header"].append("required")
    aw["sheets"][0]["rows"] = [["select_one l", "a", "A", "yes"], ["integer", "b", "B", "yes"]]
    aw["sheets"].append({"name": "choices", "header": ["list_name", "name", "label"], "rows": [["l", "x", "X"], ["l", "y", "Y"]]})
    aw["sheets"].append({"name": "settings", "header": ["form_title", "version"], "rows": [["T", "7"]]})
    for seed in (1, 2, 3):
        c = mk(copy.deepcopy(aw))
        c["p_spacer"] = 1.0
        c["chan_seed"] = seed
        out.append(c)
    # a row whose only content lies beyond the header width is data-empty for xls/xlsx: 60 blank rows
    # before it make a run of 61 (truncation by design, no oracle), 59 make a run of 60 (nothing may be lost)
    aw = copy.deepcopy(base)
    aw["sheets"][0]["rows"] = [["text", "a", "A"], ["", "", "", "note to self"], ["integer", "b", "B"]]
    for k, trunc in ((60, True), (59, False)):
        c = mk(copy.deepcopy(aw), {"row_runs": {"0": [1, k]}})
        c["expect_truncating"] = trunc
        out.append(c)
    # limits
    for k in (59, 60, 61):
        out.append(mk(copy.deepcopy(base), {"row_runs": {"0": [1, k]}, "p_typed": 1.0}))
    for k in (19, 20, 21):
        out.append(mk(copy.deepcopy(base), {"col_runs": {"0": [2, k]}}))
    for k in (1, 60, 61, 200):
        out.append(mk(copy.deepcopy(base), {"trail_rows": {"0": k}, "trail_cols": {"0": min(k, 40)}}))
    # typed cells
    aw = copy.deepcopy(base)
    aw["sheets"][0]["header"] += ["default", "hint"]
    aw["sheets"][0]["rows"] = [["text", "a", "42", "1.5", "TRUE"], ["integer", "b", "-3", "7", "FALSE"], ["decimal", "c", "0.25", "3.14159", "100"],
                               ["decimal", "d", "0.3333333333333333", "-33.86785123456789", "0.30000000000000004"]]
    for seed in range(4):
        out.append(mk(copy.deepcopy(aw), {"p_typed": 1.0, "typing_seed": seed}, stem="my form-1"))
    # one column holding typed cells that are EQUAL as Python values but read differently: True == 1 == 1.0,
    # False == 0 == 0.0 (a reader that keys anything on the raw cell value confuses them); both orders,
    # numbers as int and as integral float, booleans as bool; the text containers spell TRUE / 1 / FALSE / 0
    for order, nums in ((["TRUE", "1", "FALSE", "0"], ("int", "ifloat")), (["1", "TRUE", "0", "FALSE"], ("int", "ifloat")),
                        (["0", "FALSE", "TRUE", "1", "1", "TRUE"], ("ifloat",))):
        for num in nums:
            aw = copy.deepcopy(base)
            aw["sheets"][0]["header"] += ["default"]
            aw["sheets"][0]["rows"] = [["text", f"q{i}", f"Q{i}", v] for i, v in enumerate(order)]
            out.append(mk(aw, {"force_typing": {"TRUE": "bool", "FALSE": "bool", "1": num, "0": num}}, stem="bool_vs_number"))
    return out


# --------------------------------------------------------------------------- explore


def gen_case(rng: random.Random, knobs: dict) -> dict:
    langs = rng.choice([[], [], ["en"], ["en", "fr"]])
    form = gen.gen_form(rng, langs=langs, plain_text=rng.random() < 0.5, n=(1, 8), p_settings=0.5, p_default=0.3,
                        p_select=0.3)
    aw = form_to_aw(form)
    enrich(rng, aw, knobs)
    lay = make_layout(rng, aw, knobs)
    stem = rng.choice(["data", "data", "my_form", "Form 2 (final)", "x.y", "été"])
    return {"aw": aw, "layout": lay, "stem": stem, "chan_seed": rng.randrange(1 << 30),
            "per_container": knobs.get("per_container", 3), "p_both": knobs.get("p_both", 0.3)}


def explore(ctx, factor, bs):
    C.install_fake_xlrd()
    os.environ.setdefault("C12_TMPDIR", str(SCRATCH_ROOT))
    scratch = C.Scratch()
    try:
        rng = ctx.rng
        if factor == 1:
            for case in directed_cases():
                case_run(ctx, case, scratch, full=True)
            fixtures_case(ctx)
        FN.explore_fn(ctx, rng, ctx.pick(400, 8000) * factor, scratch)
        n = ctx.pick(50, 700) * factor
        knobs = {"per_container": ctx.pick(3, 5), "p_both": 0.3}
        for i in range(n):
            case = gen_case(rng, knobs)
            case_run(ctx, case, scratch, full=(i % ctx.pick(20, 10) == 0))
        # typed cells of both backends (bool / number / date / time / error), after the older streams so that
        # their generated inputs are unchanged
        import time as _time
        _t0 = _time.time()
        BT.explore_typed(ctx, rng, ctx.pick(250, 4000) * factor, ctx.pick(60, 800) * factor, directed=(factor == 1))
        ctx.notes["typed_stream_s"] = round(ctx.notes.get("typed_stream_s", 0) + _time.time() - _t0, 2)
        uns = sum(v for k, v in ctx.dist.items() if k.endswith(":unsupported"))
        fn = sum(v for k, v in ctx.dist.items() if k.startswith(("fn:", "pipe:")) and not k.startswith("fn:cell_text"))
        ctx.notes["fragment"] = {
            "model_answered": fn - uns, "unsupported": uns,
            "share": round((fn - uns) / fn, 4) if fn else None,
            "guard_md_inside": ctx.dist.get("guard:md:inside", 0), "guard_md_outside": ctx.dist.get("guard:md:outside", 0),
            "guard_csv_inside": ctx.dist.get("guard:csv:inside", 0), "guard_csv_outside": ctx.dist.get("guard:csv:outside", 0),
        }
        ctx.notes["level_reached"] = "L2 for csv/md round trips and the trimming / cell-text layer; binary decoding outside the model"
    finally:
        scratch.close()


def replay(ctx, payload, bs):
    C.install_fake_xlrd()
    scratch = C.Scratch()
    try:
        before = len(ctx.failures), len(ctx.mismatches)
        case = payload["case"]
        if "fixture" in case:
            fixtures_case(ctx)
        else:
            case_run(ctx, case, scratch, full=True)
        return (len(ctx.failures), len(ctx.mismatches)) == before
    finally:
        scratch.close()


def _m(fid, pred):
    return lambda f: f.signature == fid and pred(f)


MATCHERS = {
    "F48-csv-unnamed-choices-column-warning": _m("F48", lambda f: f.extra["where"]["container"] == "csv" and f.extra.get("unnamed_choices_column")),
}


def main(argv):
    return vcore.run_check(PROP, explore, RULE, matchers=MATCHERS, replay=replay, argv=argv)
