"""
C11 — settings reach the form header verbatim.

Theorems: Pyxv/Proofs/C11.lean (`settings_header`: the model of `workbook_to_json`'s settings
handling + `Survey.xml/xml_model/xml_instance` computes, at every header location, the value the
setting → location table `Pyxv.Settings.Spec.want` prescribes; `no_leak`: a location depends only on
its own settings; alias spellings by `decide` over the regenerated alias table).

Check: for generated subsets of the settings columns × values × spellings × form_name /
default_language arguments × delivery channel
  1. the implementation (/repo, in-process) converts; the header tuple (h:title, primary instance
     root name + attributes, <submission> attributes, h:body/@class, xmlns declarations of h:html,
     meta/instanceID presence, calculate of meta/instanceName) is read from its XForm by expat/minidom;
  2. the Lean model (`settings.model`: header row + row 0 + arguments) predicts outcome and header tuple
     — correspondence;
  3. the oracle: the *intended* settings (canonical name ↦ text, known to the generator independently of
     pyxform's alias table) go through the Lean spec (`settings.spec`) and must equal what was read in 1.
"""

from __future__ import annotations

import copy
import io
import re
import shutil
import sys
import tempfile
from pathlib import Path

import gen
import impl
import vcore
from vcore import Failure

PROP = "C11"
RULE = (
    "subsets of 14 header-relevant settings columns (+4 neutral settings, +unknown columns) with adversarial text "
    "values, every alias spelling of the harness's own table (+case/space noise), attribute:: and namespaces "
    "interactions, form_name/default_language arguments, dict / path (.xlsx,.md) / in-memory (bytes, str) input; "
    "thorough additionally enumerates all 2^14 subsets; distinct by canonical hash; non-trivial = accepted with "
    "at least one header-relevant setting"
)

# --------------------------------------------------------------------------- vocabulary (independent of /repo)

# canonical setting -> documented spellings
SPELLINGS = {
    "title": ["form_title", "title", "set_form_title"],
    "id_string": ["form_id", "id_string", "set_form_id"],
}
CORE = [
    "title", "id_string", "version", "name", "instance_name", "submission_url", "public_key", "auto_send",
    "auto_delete", "style", "namespaces", "attribute", "omit_instanceID", "instance_xmlns",
]
EXTRA = ["prefix", "delimiter"]
NEUTRAL = ["default_language", "sms_keyword", "clean_text_values", "allow_choice_duplicates"]
UNKNOWN_COLS = ["foo", "instance_id", "my col", "Comment", "x-y", "notes"]
ROOT_NAMES = ["data", "root1", "Form", "my-form", "x.y", "_r", "survey1", "généré", "D"]
BAD_NAMES = ["1a", "a b", "$x", "-x", "a$b"]
# root names with a prefix: declared (accepted), reserved for declarations, undeclared (both rejected by the XML pass)
PREFIXED_ROOT_NAMES = ["jr:r", "odk:Root", "xmlns:r", "und:r", "p2:r"]
ROOT_DECL_PREFIXES = ["p2", "q9"]
STD_PREFIXES = ["jr", "orx", "odk", "ev", "xsd", "h"]
NS_PREFIXES = ["foo", "bar", "my-ns", "e_x", "p1", "ns.2", "q", "Foo", "x1", "Ünï", "abc", "_p"]
RESERVED_NS = ["http://www.w3.org/XML/1998/namespace", "http://www.w3.org/2000/xmlns/"]
URIS = ["http://foo", "http://example.com/ns", "urn:x:y", "http://a/b?c=d", "x", "http://é", "a&b", "<uri>"]
ATTR_LOCALS = ["x", "y", "abc", "a-b", "a.b", "_u", "Z9", "é", "id", "version", "prefix", "Data", "k1", "k2", "k_3", "w",
               # names of keyword parameters on the way to the DOM (node(), xml_instance): must be ordinary attributes
               "tag", "append_template", "toParseString", "survey", "kwargs", "name", "nodeset", "ref"]
BAD_ATTR_NAMES = ["1x", "a b", "a$", "-k", "und:x", "zz:y", "a:b:c"]
BAD_CHARS = ["\x01", "\x0b", "\x1f", "\ufffe", "\x00"]
REFS = ["${q1}", "${q1}", "${g1}", "${n1}", "${nope}", "${last-saved#q1}", "${", "${ q1 }", "${q1", "$ {q1}", "${q1}${q1}"]
EMITTED = ["title", "id_string", "version", "style", "submission_url", "public_key", "auto_send", "auto_delete",
           "instance_xmlns", "prefix", "delimiter", "instance_name"]
YES = ["yes", "Yes", "YES", "true", "True", "TRUE", "true()"]
NO = ["no", "No", "NO", "false", "False", "FALSE", "false()"]
STEMS = ["myform", "my form", "form.v2", "Ünï", "data", "A", "x-1", "None", "survey"]
TAME = ["a", "b", "Z", "0", "7", " ", "-", "_", ".", "é", "中", "x y", "Form", "(", ")", "/", ":", ",", "&", "<", ">", '"', "'", "+"]
WS_ATOMS = ["\n", "\t", "\r", "\r\n"]

XML_WS = re.compile(r"\r\n|[\r\n\t]")


def adv(rng, maxlen=5, ws=0.0, ref=0.0):
    s = gen.adv_text(rng, maxlen)
    if rng.random() < ws:
        i = rng.randint(0, len(s))
        s = s[:i] + rng.choice(WS_ATOMS) + s[i:]
    if rng.random() < ref:
        i = rng.randint(0, len(s))
        s = s[:i] + rng.choice(REFS) + s[i:]
    if rng.random() < 0.08:
        s = rng.choice(["“", "‘"]) + s + rng.choice(["”", "’"])
    if rng.random() < 0.08:
        s = rng.choice([" ", "  "]) + s + rng.choice([" ", ""])
    if "${" in s and ref == 0.0:
        s = s.replace("${", "$ {")
    return s


def tame(rng, maxlen=5):
    s = "".join(rng.choice(TAME) for _ in range(rng.randint(1, maxlen))).strip()
    s = s.replace("|", "")
    if not s or s[0] in "=+-'" or s.isspace():
        s = "v" + s
    return s


def gen_namespaces(rng, tamed):
    items, prefixes = [], []
    for _ in range(rng.randint(1, 4)):
        r = rng.random()
        if r < 0.6:
            p = rng.choice(NS_PREFIXES)
            u = rng.choice(URIS[:4] if tamed else URIS)
            if rng.random() < 0.04:
                u = rng.choice(RESERVED_NS)
            q = rng.choice(["", '"', "'"])
            items.append(f"{p}={q}{u}{q}")
            if "=" not in u:
                prefixes.append(p)
        elif r < 0.72:
            items.append(f"{rng.choice(STD_PREFIXES)}=http://override")
        elif r < 0.8:
            items.append("=http://noprefix")
        elif r < 0.88:
            items.append("novalue")
        else:
            items.append("a=b=c")
    sep = " " if tamed else rng.choice([" ", "  ", "\t", "\n", " \n "])
    if tamed and items[0].startswith("="):  # a leading "=" is a formula in xlsx: C12's business
        items.append(items.pop(0))
        if items[0].startswith("="):
            items.insert(0, "novalue")
    return sep.join(items), prefixes


def gen_value(rng, canon, tamed, knobs):
    t = (lambda n=5: tame(rng, n)) if tamed else (lambda n=5: adv(rng, n, knobs["ws"], knobs["ref"]))
    r = rng.random()
    if canon == "name":
        return rng.choice(BAD_NAMES) if r < 0.06 else rng.choice(PREFIXED_ROOT_NAMES) if r < 0.12 and not tamed else rng.choice(ROOT_NAMES)
    if canon == "omit_instanceID":
        return rng.choice(YES[:6]) if r < 0.3 else rng.choice(NO[:6]) if r < 0.8 else t(2)
    if canon in ("auto_send", "auto_delete"):
        return rng.choice(["true", "false"]) if r < 0.6 else t(3)
    if canon == "version":
        return str(rng.randint(1, 2026093001)) if r < 0.4 else rng.choice(["2024.1", "v1", "0"]) if r < 0.6 else t(3)
    if canon == "id_string":
        return "None" if r < 0.03 else rng.choice(["my_form", "form-1", "X"]) if r < 0.4 else t(3)
    if canon == "instance_name":
        if r < 0.12:
            return rng.choice(YES + NO)
        if r < 0.5:
            return rng.choice(["concat('a', 'b')", "uuid()", "'x'", "concat(/data/q1, '-', 'z')", "1 + 1"])
        return t(4)
    if canon == "submission_url":
        return rng.choice(["http://x", "https://ex.org/sub?a=1&b=2"]) if r < 0.5 else t(4)
    if canon == "style":
        return rng.choice(["pages", "theme-grid", "pages theme-grid"]) if r < 0.5 else t(3)
    if canon == "instance_xmlns":
        return rng.choice(RESERVED_NS) if r < 0.04 else rng.choice(URIS[:4] if tamed else URIS)
    if canon == "clean_text_values":
        return rng.choice(YES[:3] + NO[:3] + ["maybe"])
    if canon == "allow_choice_duplicates":
        return rng.choice(YES[:3] + NO[:3] + ["maybe"])
    if canon == "default_language":
        return rng.choice(["English (en)", "fr", "default", "Español"])
    return t(5)


# whitespace the header normaliser must treat as a word separator (str.split()): blanks, TAB, line breaks,
# NBSP and other Unicode spaces; markdown cells cannot hold line breaks
HEADER_SEPS = [" ", "  ", "\t", "\n", "\u00a0", "\u2003", " \t ", "\r\n", "\u3000", "\x0b", "\u2028"]
HEADER_SEPS_MD = [" ", "  ", "\t", "\u00a0", "\u2003", " \t ", "\u3000"]


def spell(rng, canon, noise):
    """A spelling of the setting's header.  `noise` (False | "any" | "md"): any form the header normaliser
    accepts — words in lower / upper / title case, separated by `_` or by any run of Unicode whitespace,
    with leading / trailing whitespace."""
    s = rng.choice(SPELLINGS.get(canon, [canon]))
    if noise and s == s.lower() and rng.random() < 0.35:
        seps = HEADER_SEPS_MD if noise == "md" else [x for x in HEADER_SEPS if x != "\x0b"] if noise == "xlsx" else HEADER_SEPS
        words = s.split("_")
        case = rng.choice(["lower", "lower", "upper", "title", "mixed"])
        if case == "upper":
            words = [w.upper() for w in words]
        elif case == "title":
            words = [w.title() for w in words]
        elif case == "mixed":
            words = [w.upper() if rng.random() < 0.5 else w for w in words]
        out = words[0]
        for w in words[1:]:
            out += rng.choice(["_", rng.choice(seps), rng.choice(seps)]) + w
        if rng.random() < 0.3:
            out = rng.choice(seps) + out
        if rng.random() < 0.3:
            out = out + rng.choice(seps)
        if out == s and len(words) > 1:  # make the multi-word case bite: lower case, non-blank whitespace
            out = rng.choice(seps[2:]).join(words)
        s = out
    return s


def canon_header(h: str) -> str:
    return "_".join(h.split()).lower()


SURVEYS = [
    [{"type": "text", "name": "q1", "label": "Q1"}],
    [{"type": "integer", "name": "q1", "label": "Q1"}, {"type": "note", "name": "n1", "label": "N"}],
    [{"type": "begin group", "name": "g1", "label": "G"}, {"type": "text", "name": "q1", "label": "Q1"},
     {"type": "end group"}],
    [{"type": "text", "name": "q1", "label::English (en)": "Q1", "label::fr": "Q1f"}],
    [{"type": "select_one yn", "name": "q1", "label": "Q1"}, {"type": "start", "name": "start"}],
]
SURVEYS += [
    [{"type": "text", "name": "q1", "label::English (en)": "Q1", "label::fr": "Q1f", "hint::fr": "H"},
     {"type": "note", "name": "n1", "label::default": "N", "label::xx": "Nx"}],
    [{"type": "text", "name": "q1", "label::English (en)": "Q1", "label::fr": "Q1f"}],
]
CHOICES = [{"list_name": "yn", "name": "y", "label": "Y"}, {"list_name": "yn", "name": "n", "label": "N"}]


def case_cells_ok(cells) -> bool:
    return bool(cells)


def settings_grid(rng, hdr, row, typed):
    """The settings sheet as a grid of cell values (None = empty cell), the way a spreadsheet holds it: header row
    + data row, optionally with header-less columns — a spacer column, data starting in column B, a stray note
    under no header — which carry no XLSForm data and must not shift or feed any setting."""
    head = list(hdr)
    data = []
    for c in head:
        v = row.get(c)
        if typed and isinstance(v, str) and re.fullmatch(r"[1-9][0-9]{0,14}", v):
            v = int(v)
        data.append(v)
    if rng.random() < 0.5:
        for _ in range(rng.choice([1, 1, 2, 3])):
            i = 0 if rng.random() < 0.3 else rng.randint(0, len(head))
            head.insert(i, None)
            data.insert(i, rng.choice([None, None, "stray note", "7", "x"]))
    return [head, data]


def grid_json(grid):
    def cell(v):
        if v is None or isinstance(v, (str, bool)):
            return v
        if isinstance(v, int):
            return {"t": "int", "v": v}
        raise vcore.Infra("unexpected cell " + repr(v))

    return [[cell(v) for v in r] for r in grid]


def file_stem(name: str) -> str:
    """the documented fallback: the file name without its last suffix (a leading dot is part of the name;
    a trailing dot is not a suffix separator)"""
    i = name.rfind(".")
    return name if i <= 0 or i == len(name) - 1 else name[:i]


def gen_case(rng, tier_big=False, subset=None):
    """One case.  `subset`: fixed list of canonical core settings (exhaustive stream)."""
    channel = rng.choice(["dict"] * 6 + ["path-xlsx", "path-md", "mem-xlsx", "mem-md", "mem-md-str", "path-obj-md"])
    tamed = channel != "dict"
    knobs = {"ws": rng.choice([0.0, 0.0, 0.0, 0.15]), "ref": rng.choice([0.0, 0.0, 0.1, 0.3]),
             "aref": rng.choice([0.0, 0.0, 0.3, 0.6]), "badname": rng.choice([0.0, 0.0, 0.0, 0.25]),
             "badchar": rng.choice([0.0, 0.0, 0.0, 0.3])}
    if subset is None:
        p = rng.choice([0.15, 0.35, 0.6, 0.9])
        chosen = [c for c in CORE if rng.random() < p]
        chosen += [c for c in EXTRA if rng.random() < 0.15]
        chosen += [c for c in NEUTRAL if rng.random() < 0.15]
    else:
        chosen = list(subset)
    rng.shuffle(chosen)
    noise = rng.random() < 0.5 and ("any" if channel == "dict" else "xlsx" if channel.endswith("xlsx") else "md")
    intended, attribute, cells = [], [], []
    ns_prefixes = []
    if "namespaces" in chosen:
        nsv, ns_prefixes = gen_namespaces(rng, tamed)
    for canon in chosen:
        if canon == "attribute":
            continue
        v = nsv if canon == "namespaces" else gen_value(rng, canon, tamed, knobs)
        intended.append([canon, v])
        cells.append([spell(rng, canon, noise), v])
    if "attribute" in chosen:
        single_colon = rng.random() < 0.12
        seen = set()
        for _ in range(rng.randint(1, 3)):
            r = rng.random()
            if r < 0.2:
                k = rng.choice(["id", "version", "xmlns", "odk:prefix", "odk:delimiter"])
            elif r < 0.3 and not tamed:
                # a namespace declared on the primary instance root itself, and an attribute that uses it
                k = rng.choice(["xmlns:" + rng.choice(ROOT_DECL_PREFIXES)] * 4 + [rng.choice(ROOT_DECL_PREFIXES) + ":" + rng.choice(ATTR_LOCALS[:6])] * 3
                               + ["xmlns:xml"])
            elif r < 0.45:
                k = rng.choice(STD_PREFIXES[:3] + ns_prefixes[:2]) + ":" + rng.choice(ATTR_LOCALS)
            else:
                k = rng.choice(ATTR_LOCALS)
            if rng.random() < knobs["badname"] and not tamed:
                k = rng.choice(BAD_ATTR_NAMES)
            if single_colon and ":" in k:
                k = rng.choice(ATTR_LOCALS)
            if k in seen or (k == "xmlns" and tamed):
                continue
            seen.add(k)
            v = tame(rng, 4) if tamed else adv(rng, 4, knobs["ws"], 0.0)
            if rng.random() < knobs["aref"]:  # ${…} in a custom attribute is text, not a reference
                i = rng.randint(0, len(v)) if not tamed else len(v)
                v = v[:i] + rng.choice(REFS if not tamed else REFS[:6]) + v[i:]
            attribute.append([k, v])
            hdr = ("attribute:" if single_colon else "attribute::") + k
            if noise and rng.random() < 0.2:
                hdr = rng.choice(["Attribute", "attribute ", "ATTRIBUTE"]) + ("::" if not single_colon else ":") + k
            cells.insert(rng.randint(0, len(cells)), [hdr, v])
    for _ in range(rng.choice([0, 0, 0, 1, 2])):
        c = rng.choice(UNKNOWN_COLS)
        if all(c != x[0] for x in cells) and not (tamed and c != c.strip()):
            cells.insert(rng.randint(0, len(cells)), [c, tame(rng, 3) if tamed else adv(rng, 3)])
    if channel == "dict" and rng.random() < knobs["badchar"]:
        # a character XML does not allow, in a value that is emitted: must be rejected, never written
        cands = [c for c in cells if any(c[1] == v and k in EMITTED for k, v in intended) or c[0].lower().startswith("attribute")]
        if cands:
            c = rng.choice(cands)
            i = rng.randint(0, len(c[1]))
            nv = c[1][:i] + rng.choice(BAD_CHARS) + c[1][i:]
            for lst in (intended, attribute):
                for kv in lst:
                    if kv[1] == c[1]:
                        kv[1] = nv
            old = c[1]
            for cc in cells:
                if cc[1] == old:
                    cc[1] = nv
    dup = False
    if channel == "dict" and subset is None and rng.random() < 0.05 and cells:
        # two spellings of one setting: outside the property's quantifier (oracle skipped), kept for the
        # correspondence of the duplicate-header rules
        canon = rng.choice(["title", "id_string"])
        a, b = rng.sample(SPELLINGS[canon], 2)
        cells = [c for c in cells if canon_header(c[0]) not in SPELLINGS[canon]]
        cells.insert(rng.randint(0, len(cells)), [a, "dupA"])
        cells.insert(rng.randint(0, len(cells)), [b, "dupB"])
        dup = True
    hdr = [c[0] for c in cells]
    if channel == "dict" and rng.random() < 0.3:
        rng.shuffle(hdr)
    if channel == "dict" and rng.random() < 0.1:
        extra = rng.choice([("version", "version"), ("style", "style"), ("unused col", None), ("form_title", "title")])
        if extra[1] is None or all(extra[1] != c for c, _ in intended):
            hdr.insert(rng.randint(0, len(hdr)), extra[0])
            hdr = list(dict.fromkeys(hdr))
    args = {}
    if rng.random() < 0.4:
        args["form_name"] = rng.choice(ROOT_NAMES + ["fn"]) if rng.random() < 0.93 else rng.choice(BAD_NAMES)
    if rng.random() < 0.3:
        args["default_language"] = rng.choice(["English (en)", "fr", "default", "xx"])
    fallback = None
    if channel.startswith("path") or (channel == "dict" and rng.random() < 0.4):
        fallback = rng.choice(STEMS) if rng.random() < 0.8 else (tame(rng, 3).replace("/", "_").replace(":", "_").replace('"', "_").replace("<", "_").replace(">", "_") if channel != "dict" else adv(rng, 3))
    filename = None
    if channel.startswith("path"):
        # the file name decides the fallback (its stem) whatever the suffix says about the format: exact
        # supported suffixes, other spellings of them, foreign suffixes, several dots, no suffix at all
        xl = channel == "path-xlsx"
        ext = rng.choice(([".xlsx"] * 4 + [".XLSX", ".Xlsx", ".xlsm", ".dat", ".xlsx.bak", ""]) if xl else
                         ([".md"] * 4 + [".MD", ".txt", ".markdown", ".Md", ".md.txt", ""]))
        if not fallback.strip(". "):
            fallback = "f" + fallback
        filename = fallback + ext
        fallback = file_stem(filename)
    has_sheet = bool(cells) or (channel == "dict" and rng.random() < 0.5)
    survey = copy.deepcopy(rng.choice(SURVEYS))
    # legacy: settings given as rows of the survey sheet (type = a settings alias, name = the value); they are
    # applied after the settings sheet, in row order
    survey_settings, overlay = [], []
    if subset is None and rng.random() < 0.15:
        for _ in range(rng.randint(1, 3)):
            ty = rng.choice(["form_title", "set_form_title", "form_id", "set_form_id", "prefix"])
            canon = {"form_title": "title", "set_form_title": "title", "form_id": "id_string",
                     "set_form_id": "id_string", "prefix": "prefix"}[ty]
            r = rng.random()
            nm = None if r < 0.08 else "None" if r < 0.12 else " ".join(tame(rng, 4).split())
            row = {"type": ty}
            if nm is not None:
                row["name"] = nm
            if rng.random() < 0.3:
                row["label"] = "ignored"
            survey.insert(rng.randint(0, len(survey)) if not any(x.get("type", "").startswith("begin") for x in survey) else 0, row)
            survey_settings.append([ty, nm, id(row)])
        # in sheet order
        order = {id(r): i for i, r in enumerate(survey)}
        survey_settings.sort(key=lambda x: order[x[2]])
        survey_settings = [[t, n] for t, n, _ in survey_settings]
        canon_of = {"form_title": "title", "set_form_title": "title", "form_id": "id_string", "set_form_id": "id_string", "prefix": "prefix"}
        overlay = [[canon_of[t], "None" if n is None else n] for t, n in survey_settings]
    case = {
        "channel": channel, "hdr": hdr, "row": cells, "intended": intended, "attribute": attribute,
        "args": args, "fallback": fallback, "filename": filename, "survey": survey, "survey_settings": survey_settings, "overlay": overlay, "dup": dup, "has_sheet": has_sheet,
        "typed": channel.endswith("xlsx") and rng.random() < 0.5,
        "grid": None,
    }
    if channel.endswith("xlsx") and case_cells_ok(cells) and has_sheet:
        case["grid"] = settings_grid(rng, hdr, dict(cells), case["typed"])
    return case


# --------------------------------------------------------------------------- running the implementation


def case_form(case):
    form = {"survey": case["survey"]}
    if any(r.get("type", "").startswith("select_one") for r in case["survey"]):
        form["choices"] = CHOICES
    if case["has_sheet"]:
        form["settings"] = [dict(case["row"])]
        form["settings_cols"] = list(case["hdr"])
    return form


def to_xlsx_bytes(form, typed, grid=None):
    import openpyxl

    wb = openpyxl.Workbook()
    wb.remove(wb.active)
    for s in impl.SHEETS:
        if s in form and form[s] is not None:
            ws = wb.create_sheet(s)
            if s == "settings" and grid is not None:
                for r in grid:
                    ws.append(r)
                continue
            cols = impl.headers_of(form[s], form.get(s + "_cols"))
            ws.append(cols)
            for r in form[s]:
                vals = []
                for c in cols:
                    v = r.get(c)
                    if typed and s == "settings" and isinstance(v, str) and re.fullmatch(r"[1-9][0-9]{0,14}", v):
                        v = int(v)
                    vals.append(v)
                ws.append(vals)
    bio = io.BytesIO()
    wb.save(bio)
    return bio.getvalue()


def run_impl(case, tmpdir):
    from pyxform.errors import PyXFormError
    from pyxform.xls2xform import convert

    form = case_form(case)
    ch = case["channel"]
    kw = dict(case["args"])
    try:
        if ch == "dict":
            wb = impl.wb_dict(form)
            if case["fallback"] is not None:
                wb["fallback_form_name"] = case["fallback"]
            res = convert(xlsform=copy.deepcopy(wb), **kw)
        elif ch in ("path-xlsx", "path-md", "path-obj-md"):
            d = Path(tempfile.mkdtemp(dir=tmpdir))
            p = d / (case.get("filename") or (case["fallback"] + (".xlsx" if ch == "path-xlsx" else ".md")))
            if ch == "path-xlsx":
                p.write_bytes(to_xlsx_bytes(form, case["typed"], case.get("grid")))
            else:
                p.write_text(impl.to_md(form), encoding="utf-8")
            try:
                res = convert(xlsform=p if ch == "path-obj-md" else str(p), **kw)
            finally:
                shutil.rmtree(d, ignore_errors=True)
        elif ch == "mem-xlsx":
            data = to_xlsx_bytes(form, case["typed"], case.get("grid"))
            res = convert(xlsform=io.BytesIO(data), **kw)
        elif ch == "mem-md":
            res = convert(xlsform=impl.to_md(form).encode("utf-8"), file_type=".md", **kw)
        elif ch == "mem-md-str":
            res = convert(xlsform=impl.to_md(form), **kw)
        else:
            raise vcore.Infra("unknown channel " + ch)
    except PyXFormError as e:
        return {"class": "pyxform", "msg": str(e)}
    except Exception as e:  # noqa: BLE001
        import traceback

        site = ""
        for fr in reversed(traceback.extract_tb(e.__traceback__)):
            if "/pyxform/" in fr.filename:
                site = f"{Path(fr.filename).name}:{fr.name}"
                break
        return {"class": "internal", "msg": f"{type(e).__name__}: {e}", "site": site}
    return {"class": "ok", "xform": res.xform, "warnings": list(res.warnings)}


def elems(node):
    return [c for c in node["k"] if "t" in c]


def text_of(node):
    return "".join(c["x"] for c in node["k"] if "x" in c)


def attrs_of(node):
    return {k: v for k, v in node["a"]}


def observe_header(xform: str):
    """The header tuple as an XML parser reads it (expat without namespace processing, so qualified names
    are the names as written and `xmlns…` declarations are ordinary attributes).  None: not well-formed."""
    import xmlutil

    html, err = xmlutil.expat_tree(xform)
    if html is None:
        return None, err or "no root element"
    attrs = attrs_of(html)
    nsmap = {k: v for k, v in attrs.items() if k == "xmlns" or k.startswith("xmlns:")}
    other = {k: v for k, v in attrs.items() if k not in nsmap}
    head = [e for e in elems(html) if e["t"] == "h:head"][0]
    body = [e for e in elems(html) if e["t"] == "h:body"][0]
    titles = [e for e in elems(head) if e["t"] == "h:title"]
    model = [e for e in elems(head) if e["t"] == "model"][0]
    subs = [e for e in elems(model) if e["t"] == "submission"]
    inst = [e for e in elems(model) if e["t"] == "instance"][0]
    root = elems(inst)[0]
    metas = [e for e in elems(root) if e["t"] == "meta"]
    meta_kids = [k["t"] for m in metas for k in elems(m)]
    binds = {attrs_of(e).get("nodeset"): attrs_of(e) for e in elems(model) if e["t"] == "bind"}
    iname_path = f"/{root['t']}/meta/instanceName"
    iname = None
    if "instanceName" in meta_kids or iname_path in binds:
        b = binds.get(iname_path)
        if "instanceName" in meta_kids and b is not None and "calculate" in b:
            iname = b["calculate"]
        else:
            iname = "<instanceName element/bind/calculate incomplete>"
    battrs = attrs_of(body)
    itexts = [e for e in elems(model) if e["t"] == "itext"]
    translations = [[attrs_of(t).get("lang"), attrs_of(t).get("default")] for it in itexts for t in elems(it)
                    if t["t"] == "translation"]
    return {
        "translations": translations,
        "title": text_of(titles[0]) if len(titles) == 1 else f"<{len(titles)} h:title elements>",
        "rootName": root["t"],
        "rootAttrs": attrs_of(root),
        "submission": (attrs_of(subs[0]) if len(subs) == 1 else None if not subs else {"<count>": str(len(subs))}),
        "bodyClass": battrs.get("class"),
        "bodyOther": sorted(k for k in battrs if k != "class"),
        "nsmap": nsmap,
        "htmlOther": other,
        "instanceID": "instanceID" in meta_kids,
        "instanceName": iname,
    }, None


# --------------------------------------------------------------------------- comparison

LOCS = ["title", "rootName", "rootAttrs", "submission", "bodyClass", "nsmap", "instanceID", "instanceName"]


def pairs_to_dict(p):
    return None if p is None else {k: v for k, v in p}


def lean_header(h):
    """driver JSON → same shape as observe_header (dict views; duplicates would be a model bug)"""
    out = dict(h)
    for k in ("rootAttrs", "submission", "nsmap"):
        if h[k] is not None and len({x[0] for x in h[k]}) != len(h[k]):
            raise vcore.Infra("model produced a duplicate attribute: " + repr(h[k]))
        out[k] = pairs_to_dict(h[k])
    return out


def xml_norm(v, attr):
    """what an XML parser returns for text written without escaping TAB/CR/LF (XML 1.0 §2.11, §3.3.3)"""
    if v is None:
        return None
    if isinstance(v, dict):
        return {k: xml_norm(x, True) for k, x in v.items()}
    if not isinstance(v, str):
        return v
    return XML_WS.sub(" " if attr else "\n", v)


def norm_header(h):
    return {k: xml_norm(h[k], k != "title") for k in LOCS}


def diff_locs(a, b):
    return [k for k in LOCS if a[k] != b[k]]


def has_ws(case):
    return any(XML_WS.search(v) for _, v in case["row"])


def model_call(ctx, case):
    kw = dict(case["args"])
    if case["fallback"] is not None:
        kw["fallback"] = case["fallback"]
    if case.get("survey_settings"):
        kw["survey_settings"] = case["survey_settings"]
    if case.get("grid"):
        # spreadsheet channel: the header row / row 0 the settings model starts from are what the Lean model of
        # the Excel backend (Pyxv.Backends: getHeaders / get_excel_rows) reads off the decoded grid
        b = ctx.driver.call("be.sheet", grid=grid_json(case["grid"]))
        if b["outcome"] != "ok":
            raise vcore.Infra("backend model rejects the settings grid: " + repr(b))
        ctx.count("settings_grid" + ("+headerless_columns" if None in case["grid"][0] else ""))
        hdr = b["header"][0] if b["header"] else []
        row = b["rows"][0] if b["rows"] else []
        if row:
            return ctx.driver.call("settings.model", hdr=hdr, row=row, **kw)
        return ctx.driver.call("settings.model", **kw)
    if case["has_sheet"] and case["row"]:
        return ctx.driver.call("settings.model", hdr=case["hdr"], row=case["row"], **kw)
    return ctx.driver.call("settings.model", **kw)


def spec_call(ctx, case, obs):
    kw = dict(case["args"])
    if case["fallback"] is not None:
        kw["fallback"] = case["fallback"]
    seen = {}
    if obs is not None:
        seen = {
            "seenRoot": sorted(obs["rootAttrs"]),
            "seenSub": sorted(obs["submission"] or {}),
            "seenNs": sorted(obs["nsmap"]),
        }
    if case.get("overlay"):
        kw["overlay"] = case["overlay"]
        ctx.count("survey_sheet_settings_rows")
    return ctx.driver.call("settings.spec", settings=case["intended"], attribute=case["attribute"], **kw, **seen)


NCNAME = re.compile(r"[A-Za-z_\u00c0-\u00d6\u00d8-\u00f6\u00f8-\u02ff\u0370-\u037d\u037f-\u1fff\u3001-\ud7ff]"
                    r"[-.0-9A-Za-z_\u00b7\u00c0-\u00d6\u00d8-\u00f6\u00f8-\u02ff\u0300-\u037d\u037f-\u1fff\u3001-\ud7ff]*")
XML_BAD = re.compile("[^\t\n\r\u0020-\ud7ff\ue000-\ufffd\U00010000-\U0010ffff]")
XML_ERR_MARKS = ("is not a valid XML name", "is not declared", "Invalid namespace declaration", "which is not allowed in XML",
                 "uses the reserved prefix")


def declared_namespaces(ns: str):
    """the harness's own reading of a `namespaces` cell: whitespace separated `prefix=uri` items with exactly
    one `=` and a non-empty prefix; quotes around the uri dropped; standard prefixes cannot be redefined"""
    out = {}
    for item in ns.split():
        parts = item.split("=")
        if len(parts) == 2 and parts[0] != "" and parts[0] not in STD_PREFIXES:
            out[parts[0]] = parts[1].replace('"', "").replace("'", "")
    return out


def xml_problem(case):
    """Would the settings put something into the header that XML does not allow?  (independent of pyxform:
    names must be QNames with a declared prefix, namespace URIs non-empty, prefixes not xml/xmlns, values free
    of non-XML characters) → the only acceptable outcome is a PyXFormError saying so."""
    intended = dict(case["intended"])
    pre_id = intended.get("id_string")
    intended.update({k: v for k, v in case.get("overlay") or []})  # settings rows of the survey sheet win
    if "title" not in intended and pre_id is not None:
        intended["title"] = pre_id  # the title default is the settings sheet's id
    decl = declared_namespaces(intended.get("namespaces", ""))
    for p, uri in decl.items():
        if not NCNAME.fullmatch(p) or p in ("xml", "xmlns") or uri == "":
            return f"namespace declaration {p!r}={uri!r}"
        if XML_BAD.search(uri):
            return "character in namespace uri"
    # root attribute names that the settings prescribe; an attribute:: column whose local name collides with
    # another one may be evicted before anything looks at it (open finding C11-attribute-same-local-name-evicted),
    # so a problem in such a column is only a *possible* reason for rejection
    own = ["id"] + [n for n, c in (("version", "version"), ("xmlns", "instance_xmlns"), ("odk:prefix", "prefix"),
                                   ("odk:delimiter", "delimiter")) if intended.get(c)]
    names = [k for k, _ in case["attribute"]] + ["id"]
    names += [n for n, c in (("version", "version"), ("xmlns", "instance_xmlns"), ("odk:prefix", "prefix"),
                             ("odk:delimiter", "delimiter")) if intended.get(c)]
    root_decl = {k[6:]: v for k, v in case["attribute"] if k.startswith("xmlns:")}
    for p_, u_ in root_decl.items():
        if p_ in ("xml", "xmlns"):
            return f"namespace declaration on the root {p_!r}"
    maybe = None
    # root element name: a prefixed name needs a declared prefix, and `xmlns:` is for declarations only
    rname = intended.get("name", case["args"].get("form_name"))
    if rname and ":" in rname:
        pfx_ = rname.split(":")[0]
        if pfx_ == "xmlns" or (pfx_ != "xml" and pfx_ not in STD_PREFIXES and pfx_ not in decl and pfx_ not in root_decl):
            return f"root element name {rname!r}"
    # a reserved namespace name (xml / xmlns namespaces) must not be declared: rejected by trees that carry
    # C01's reserved-names check, written out by older ones — C01 decides, here only a possible reason
    if any(u in RESERVED_NS for u in decl.values()) or intended.get("instance_xmlns") in RESERVED_NS or any(
            (k == "xmlns" or k.startswith("xmlns:")) and v in RESERVED_NS for k, v in case["attribute"]):
        maybe = "?reserved namespace name"
    for k, v in case["attribute"]:
        collides = any(n != k and local_name(n) == local_name(k) for n in names)
        parts = k.split(":")
        why = None
        if len(parts) > 2 or not all(NCNAME.fullmatch(x) for x in parts):
            why = f"attribute name {k!r}"
        elif len(parts) == 2 and parts[0] not in ("xml", "xmlns") and parts[0] not in STD_PREFIXES and parts[0] not in decl \
                and parts[0] not in root_decl:
            why = f"undeclared prefix in {k!r}"
        elif XML_BAD.search(v) and k not in own:  # an attribute:: column named like an own setting is overwritten
            why = f"character in attribute {k!r}"
        if why and not collides:
            return why
        if why:
            maybe = "?" + why
    for k in EMITTED:
        if k in intended and XML_BAD.search(intended[k]):
            return f"character in {k}"
    return maybe


ERR_TEXT = {
    "dupHeader": "different names for the same column",
    "invalidHeader": "Invalid headers provided",
    "omitWithKey": "Cannot omit instanceID",
    "emptyId": "empty id_string",
    "badName": "contains an invalid character",
    "badRef": "Reference expressions must only include question names",
    "xmlInvalid": XML_ERR_MARKS,
}


def err_matches(kind: str, msg: str) -> bool:
    t = ERR_TEXT[kind]
    return any(x in msg for x in t) if isinstance(t, tuple) else t in msg


def one_case(ctx, case, tmpdir):
    r = run_impl(case, tmpdir)
    m = model_call(ctx, case)
    ctx.count(f"impl:{r['class']}/model:{m['outcome']}")
    ctx.count("channel:" + case["channel"])
    if case.get("filename"):
        fn = case["filename"]
        ctx.count("path_suffix:" + (fn[fn.rfind("."):] if "." in fn[1:] else "(none)")[:12])
    ctx.count("n_settings:%02d" % len(case["intended"] + case["attribute"]))
    ctx.count("fragment:" + ("unsupported" if m["outcome"] == "unsupported" else "modelled"))
    if m["outcome"] == "unsupported":
        ctx.count("unsupported:" + m["why"])
    obs = None
    if r["class"] == "ok":
        obs, perr = observe_header(r["xform"])
        if obs is None:
            ctx.fail(Failure("ill-formed", "XForm is not well-formed XML: " + perr, case, extra={"xform": r["xform"][:2000]}))
            ctx.record(case, False)
            return
    # ---------------- correspondence (model vs implementation, inside the fragment)
    if m["outcome"] == "ok":
        if r["class"] == "ok":
            mh = norm_header(lean_header(m["header"]))
            d = diff_locs(norm_header(obs), mh)
            if d:
                ctx.mismatch("header " + ",".join(d), case, {k: obs[k] for k in d}, {k: mh[k] for k in d})
        else:
            ctx.mismatch("model accepts, implementation " + r["class"], case, r["msg"][:300], "ok")
    elif m["outcome"] == "error":
        if r["class"] != "pyxform" or not err_matches(m["err"]["kind"], r["msg"]):
            ctx.mismatch("model rejects (" + m["err"]["kind"] + "), implementation " + r["class"], case,
                         r.get("msg", "")[:300], m["err"])
    # ---------------- default translation (default_language setting / argument)
    if r["class"] == "ok" and obs["translations"]:
        ctx.count("with_translations")
        marks = {l: d for l, d in obs["translations"]}
        if m["outcome"] == "ok" and m.get("defaultLanguage") is not None:
            wantm = {l: ("true()" if l == xml_norm(m["defaultLanguage"], True) else None) for l in marks}
            if wantm != marks:
                ctx.mismatch("default translation", case, marks, m["defaultLanguage"])
    # ---------------- oracle on the implementation's output
    if r["class"] == "internal":
        ctx.fail(Failure("crash", r["msg"][:300], case, signature="crash:" + r.get("site", ""), extra={"site": r.get("site")}))
    elif not case["dup"]:
        s = spec_call(ctx, case, obs)
        xmlp = xml_problem(case)
        top_ref = any("${" in v for _, v in case["intended"])  # top-level cells go through the reference-syntax check
        iname_ref = any(c == "instance_name" and "${" in v for c, v in case["intended"])
        if any("${" in v for _, v in case["attribute"]):
            ctx.count("attribute_value_with_${")
        if top_ref:
            ctx.count("setting_value_with_${")
        if r["class"] == "ok":
            if s["rejects"] is not None:
                ctx.fail(Failure("accepted-despite-" + s["rejects"]["kind"],
                                 "settings the documentation rejects were accepted", case, extra={"spec": s["rejects"]}))
            elif xmlp is not None and not xmlp.startswith("?"):
                ctx.fail(Failure("accepted-xml-invalid", "accepted although the header would contain: " + xmlp, case))
            else:
                want = {k: (pairs_to_dict(s[k]) if k in ("rootAttrs", "submission", "nsmap") else s[k]) for k in LOCS}
                if iname_ref:
                    want["instanceName"] = obs["instanceName"]  # ${ref} substitution in an expression is C03's subject
                    ctx.count("instance_name_with_reference")
                for k in diff_locs(obs, want):
                    ctx.fail(Failure("header:" + k, f"{k}: read {obs[k]!r}, settings prescribe {want[k]!r}", case,
                                     signature="header:" + k, extra={"loc": k, "got": obs[k], "want": want[k]}))
                if obs["translations"]:
                    marks = {l: d for l, d in obs["translations"]}
                    wantm = {l: ("true()" if l == s["defaultLanguage"] else None) for l in marks}
                    if wantm != marks and not (has_ws(case) and {l: ("true()" if l == xml_norm(s["defaultLanguage"], True) else None) for l in marks} == marks):
                        ctx.fail(Failure("header:default-translation",
                                         f"translations marked default: {marks}, documented default language {s['defaultLanguage']!r}", case))
                if obs["htmlOther"] or obs["bodyOther"]:
                    ctx.fail(Failure("header:stray-attribute", f"h:html {obs['htmlOther']} h:body {obs['bodyOther']}", case))
        else:
            msg = r["msg"]
            excused = (
                (top_ref and ERR_TEXT["badRef"] in msg)  # malformed ${ in a settings cell: documented rejection
                or (iname_ref and "trying to replace ${" in msg)  # instance_name refers to a missing question
                or (xmlp is not None and err_matches("xmlInvalid", msg))
            )
            if s["rejects"] is None and not excused:
                ctx.fail(Failure("rejected-valid-settings", msg[:300], case))
            elif s["rejects"] is not None and not excused and not err_matches(s["rejects"]["kind"], msg):
                ctx.fail(Failure("rejected-for-another-reason", msg[:300], case, extra={"spec": s["rejects"]}))
    ctx.record({k: case[k] for k in ("channel", "hdr", "row", "args", "fallback", "filename", "survey", "has_sheet", "grid") if k in case},
               r["class"] == "ok" and bool(case["intended"] or case["attribute"]))


def m_ws(f: Failure) -> bool:
    """TAB/CR/LF in a settings cell is written unescaped (minidom `_write_data` for attributes,
    `PatchedText` for h:title), so a parser reads it back normalised: the value is not verbatim.
    Matches only when that normalisation is the *whole* difference."""
    if not f.kind.startswith("header:") or "loc" not in f.extra:
        return False
    got, want, loc = f.extra["got"], f.extra["want"], f.extra["loc"]
    if got == want or not has_ws(f.case):
        return False
    return xml_norm(want, loc != "title") == got


def local_name(k: str) -> str:
    return k.split(":", 1)[-1]


def m_localname(f: Failure) -> bool:
    """`attribute::p:x` next to `attribute::x` (or next to id/version/xmlns/odk:prefix/odk:delimiter with the
    same local name): minidom's setAttribute evicts the attribute whose *local* name equals the new one.
    Matches only when the root attributes read are exactly the prescribed ones minus evicted ones: every
    missing name shares its local name with a surviving one, every local-name group keeps exactly one member,
    and all surviving values are right."""
    if f.kind != "header:rootAttrs":
        return False
    got, want = f.extra["got"], f.extra["want"]
    if not isinstance(got, dict) or not isinstance(want, dict) or set(got) == set(want):
        return False
    if has_ws(f.case):  # may coincide with the unescaped-whitespace finding on the surviving values
        want = xml_norm(want, True) if xml_norm(want, True) != want and any(
            got.get(k) == xml_norm(v, True) != v for k, v in want.items()) else want
    if any(k not in want or want[k] != v for k, v in got.items()):
        return False
    groups = {}
    for k in want:
        groups.setdefault(local_name(k), []).append(k)
    for ks in groups.values():
        alive = [k for k in ks if k in got]
        if len(alive) != 1 and len(ks) > 1:
            return False
        if len(ks) == 1 and not alive:
            return False
    return True


MATCHERS = {"C11-ws-in-header-value-not-escaped": m_ws, "C11-attribute-same-local-name-evicted": m_localname}


def directed_case(row, intended, attribute):
    return {
        "channel": "dict", "hdr": [c for c, _ in row], "row": [list(x) for x in row],
        "intended": [list(x) for x in intended], "attribute": [list(x) for x in attribute], "args": {},
        "fallback": None, "filename": None, "survey": [{"type": "text", "name": "q1", "label": "Q1"}],
        "survey_settings": [], "overlay": [], "dup": False, "has_sheet": True, "typed": False, "grid": None,
    }


# one directed input per open finding of this property: every run, whatever the seed, re-observes them
DIRECTED = [
    # C11-ws-in-header-value-not-escaped: LF in an attribute value, CR in the title
    directed_case([["version", "a\nb"], ["form_title", "x\ry"]], [["version", "a\nb"], ["title", "x\ry"]], []),
    # C11-attribute-same-local-name-evicted: two custom attributes that differ only by a prefix
    directed_case([["attribute::jr:x", "1"], ["attribute::x", "2"]], [], [["jr:x", "1"], ["x", "2"]]),
    # both the documented `form_id` column and the legacy `id_string` column (workbook_to_json drops the legacy one
    # and warns): "form_id is the id attribute" — in either column order (seeded C11-12)
    directed_case([["id_string", "legacy_id"], ["form_id", "real_id"], ["version", "v7"]],
                  [["id_string", "real_id"], ["version", "v7"]], []),
    directed_case([["form_id", "real_id"], ["id_string", "legacy_id"], ["version", "v7"]],
                  [["id_string", "real_id"], ["version", "v7"]], []),
    directed_case([["form_title", "T"], ["form_id", "real_id"], ["style", "pages"], ["id_string", "legacy_id"]],
                  [["title", "T"], ["id_string", "real_id"], ["style", "pages"]], []),
]


def explore(ctx, factor, bs):
    rng = ctx.rng
    tmpdir = tempfile.mkdtemp(prefix="c11-")
    try:
        if factor == 1:
            for c in DIRECTED:
                one_case(ctx, copy.deepcopy(c), tmpdir)
        n = ctx.pick(2500, 30000) * factor
        for _ in range(n):
            one_case(ctx, gen_case(rng, tier_big=not ctx.quick()), tmpdir)
        if not ctx.quick() and factor == 1:
            # every subset of the 14 header-relevant settings columns, one random valuation each
            for mask in range(1 << len(CORE)):
                subset = [c for i, c in enumerate(CORE) if mask >> i & 1]
                one_case(ctx, gen_case(rng, True, subset=subset), tmpdir)
            ctx.notes["exhaustive_substream"] = "all 2^14 subsets of the header-relevant settings columns (one valuation each)"
        tot = ctx.dist.get("fragment:modelled", 0) + ctx.dist.get("fragment:unsupported", 0)
        ctx.notes["fragment_share"] = round(ctx.dist.get("fragment:modelled", 0) / max(1, tot), 4)
    finally:
        shutil.rmtree(tmpdir, ignore_errors=True)


def replay(ctx, payload, bs):
    case = payload.get("case")
    if case is None and payload.get("correspondence_mismatches"):
        case = payload["correspondence_mismatches"][0]["case"]
    if case is None:
        raise vcore.Infra("replay file has no case")
    before = len(ctx.failures), len(ctx.mismatches)
    tmpdir = tempfile.mkdtemp(prefix="c11-")
    try:
        one_case(ctx, case, tmpdir)
    finally:
        shutil.rmtree(tmpdir, ignore_errors=True)
    return (len(ctx.failures), len(ctx.mismatches)) == before


def main(argv):
    return vcore.run_check(PROP, explore, RULE, matchers=MATCHERS, replay=replay, argv=argv)
