"""
C07 — every itext reference resolves in every language.

Theorems: Pyxv/Proofs/C07.lean about the translation-table pipeline `Pyxv.Itext` (setup of
`_translations` from the per-element translation dicts and the choice lists, media, padding,
`itext()`, and the references emitted by labels / hints / bind messages / choice items).

Tie: every generated form is converted by the implementation; the implementation's *built* survey
(builder output, before `xml()`) is handed to the Lean model (`itext.model`), whose translations
(language order, default flags, id order), body refs, bind refs and itextIds must equal what is
read from the implementation's XForm; the DOM of every <value> (`itext.doms`: text chunks interleaved with one <output> per
${reference}, C06's mixed channel) must equal the implementation's serialised <value> element.  Oracle: the Lean predicate `Itext.holds` (`itext.holds`)
evaluated on the implementation's own XForm, for every accepted form (inside the fragment or not).
"""

from __future__ import annotations

import re

import impl
import itext_common as ic
import vcore
from vcore import Failure

PROP = "C07"
RULE = (
    "generated forms with 0-3 languages and sparse translation patterns (label/hint/guidance_hint/constraint and "
    "required messages/media per language or unsuffixed, on questions, groups, repeats; choice lists plain / "
    "translated / with media / with ${ref} labels / unlabeled choices, shared by several selects, search() selects, "
    "unused lists, randomized selects; bind messages incl. jr:noAppErrorString plain / with ${ref} / translated; language "
    "names differing only by letter case; default_language by setting and/or argument, also a case variant of a "
    "language) plus directed families (F6 shapes, names containing "
    "'guidance_hint', hint+guidance in one language only; texts with 0-3 ${references} of every shape in every "
    "text-bearing itext slot, per language, outside and inside a repeat); distinct by canonical hash of form+arguments; "
    "non-trivial = accepted by the converter and at least one jr:itext reference or itextId in the output"
)

MODELLED_ERRORS = {
    "noLabelOrHint": re.compile(r"has no label or hint"),
    "bigImage": re.compile(r"To use big-image"),
    "mediaType": re.compile(r"Media type: .* not supported"),
    "searchFromFile": re.compile(r"is a select from file type, using 'search\(\)'"),
    "searchNoChoices": re.compile(r"uses 'search\(\)' but has no choices of its own"),
    "searchConflict": re.compile(r"uses 'search\(\)', and its select type references"),
}


# ------------------------------------------------------------------------------ F6 matcher


def unlabeled_itext_choices(form) -> set[str]:
    """ids `<list>-<idx>` of choices without any label or media cell in a list where some choice has a
    translated label, media, or a ${reference} label (= Itemset.requires_itext) — the shape of F6."""
    by_list: dict[str, list[dict]] = {}
    for row in form.get("choices") or []:
        ln = row.get("list_name") or row.get("list name")
        if ln is not None:
            by_list.setdefault(str(ln), []).append(row)
    out = set()
    for ln, rows in by_list.items():
        def cells(r, bases):
            return [k for k, v in r.items() if v not in (None, "") and k.split("::")[0] in bases]
        req = any(
            cells(r, ic.MEDIA_COLS) or cells(r, ["label"]) and (
                any("::" in k for k in cells(r, ["label"])) or "${" in str(r.get("label", "")))
            for r in rows
        )
        if not req:
            continue
        for i, r in enumerate(rows):
            if not cells(r, ["label"] + ic.MEDIA_COLS):
                out.add(f"{ln}-{i}")
    return out


def match_f6(f: Failure) -> bool:
    """Dangling ids are all `<list>-<idx>` of an unlabeled choice in an itext-requiring list."""
    if f.kind != "dangling-ref":
        return False
    bad = set(f.extra.get("dangling", []))
    return bool(bad) and bad <= unlabeled_itext_choices(f.case["form"])


# F6 (unlabeled choice in an itext-requiring list) is repaired: no matcher, a recurrence is a VIOLATION.


def osm_translated_tag_suffixes(form) -> set[str]:
    """`/<osm question>/<tag>:label` for every tag with a translated label (label::lang cell) of the
    tag list of an osm question - the shape of F45."""
    tags: dict[str, list[dict]] = {}
    for t in form.get("osm") or []:
        tags.setdefault(str(t.get("list_name")), []).append(t)
    out = set()
    for row in form.get("survey") or []:
        ty = str(row.get("type", "")).split(" ")
        if len(ty) == 2 and ty[0] == "osm":
            for t in tags.get(ty[1], []):
                if any(k.startswith("label::") and v not in (None, "") for k, v in t.items()):
                    out.add(f"/{row.get('name')}/{t.get('name')}:label")
    return out


def match_f45(f: Failure) -> bool:
    """Every dangling id is the label id of an osm tag with a translated label."""
    if f.kind != "dangling-ref":
        return False
    bad = set(f.extra.get("dangling", []))
    sufs = osm_translated_tag_suffixes(f.case["form"])
    return bool(bad) and all(any(b.endswith(sx) for sx in sufs) for b in bad)


# F45 (osm tags with translated labels) is repaired (eb9b6f4): no matcher, a recurrence is a VIOLATION.
def match_f60(f: Failure) -> bool:
    """Every dangling id is the value of a choices cell in a column literally named `itextId`."""
    if f.kind != "dangling-ref":
        return False
    bad = set(f.extra.get("dangling", []))
    vals = {str(r["itextId"]).strip() for r in f.case["form"].get("choices") or [] if r.get("itextId") not in (None, "")}
    return bool(bad) and bad <= vals


def quoted_search_list_ids(form) -> set[str]:
    """`<list>-<idx>` for every choice of a list whose name contains a quote and which a search() select uses."""
    out = set()
    rows = form.get("choices") or []
    for q in form.get("survey") or []:
        ty = str(q.get("type", "")).split(" ")
        if len(ty) >= 2 and ty[0] in ("select_one", "select_multiple") and "search(" in str(q.get("appearance", "")):
            ln = ty[1]
            if "'" in ln:
                n = sum(1 for r in rows if str(r.get("list_name")) == ln)
                out |= {f"{ln}-{i}" for i in range(n)}
    return out


def match_f61(f: Failure) -> bool:
    """Every broken literal is the in-line item ref of a search() select on a list whose name contains a quote."""
    if f.kind != "broken-ref-literal":
        return False
    bad = set(f.extra.get("broken", []))
    return bool(bad) and bad <= quoted_search_list_ids(f.case["form"])


MATCHERS = {"F60-choices-column-itextId": match_f60, "F61-quote-in-list-name-itext-ref": match_f61}


# ------------------------------------------------------------------------------ one case


def oracle(ctx, case, obs):
    """The four statements of C07 on the implementation's output (Lean: Itext.holds)."""
    dl = ic.expected_default_language(case)
    trans = [
        {"lang": t["lang"] if t["lang"] is not None else "", "default": t["default"] == "true()", "ids": [i or "" for i in t["ids"]]}
        for t in obs["translations"]
    ]
    refs = obs["bodyRefs"] + obs["bindRefs"] + obs["itemIds"]
    v = ctx.driver.call("itext.holds", translations=trans, refs=refs, defaultLanguage=dl)
    if obs["itextBlocks"] > 1 or any(t["lang"] is None for t in obs["translations"]) or any(
        i is None for t in obs["translations"] for i in t["ids"]
    ):
        ctx.fail(Failure("malformed-itext", "more than one itext block / translation without lang / text without id", case))
    # a jr:itext('id') literal is an XPath string literal: an id containing the quote cannot be written that way
    broken = [i for i in obs["bodyRefs"] + obs["bindRefs"] if "'" in i]
    if broken:
        ctx.fail(Failure("broken-ref-literal", f"jr:itext('…') literal whose id contains a quote: {broken[:3]}", case,
                         extra={"broken": broken}))
    if not v["refsExist"]:
        ctx.fail(Failure("dangling-ref", f"itext ids referenced but missing in some translation: {v['dangling'][:4]}",
                         case, extra={"dangling": v["dangling"]}))
    if not v["uniform"]:
        ctx.fail(Failure("non-uniform", "translations do not contain the same set of text ids", case))
    if not v["noDup"]:
        ctx.fail(Failure("duplicate", "a language or a text id appears twice", case))
    if not v["defaultOk"]:
        ctx.fail(Failure("default-flag", f"default language is {dl!r}: exactly the translation of that name (if any) may be "
                         f"marked default, but the marks are "
                         f"{[(t['lang'], t['default']) for t in obs['translations']]}", case))
    return v["ok"]


def dom_stream(ctx, case, x, obs):
    """DOM level of every <value> (phase 8): the model's `ItextOut.outDoms` (C06's mixed channel under the tag `value`
    with the reference table of the survey, `form` attribute added) against the children and attributes of the
    implementation's <value> elements — text chunks verbatim interleaved with one <output value=…/> per ${reference}."""
    # phase 8b: `outDomsR` = `outDoms` wherever that was stated (Lean: `C07OutputRep.domEntryR_stated`), plus the values
    # of elements at or below a repeat, substituted with C03's `Refs.refFor` from the owning element
    md = ctx.driver.call("itext.doms.rep", survey=x)
    if md["outcome"] != "ok":
        ctx.mismatch("itext.doms outcome differs from itext.model", case, "ok", md["outcome"])
        return
    if [t["lang"] for t in md["translations"]] != [t["lang"] for t in obs["translations"]]:
        ctx.mismatch("DOM stream: languages", case, [t["lang"] for t in obs["translations"]], [t["lang"] for t in md["translations"]])
        return
    for tm, ti in zip(md["translations"], obs["translations"]):
        if [t["id"] for t in tm["texts"]] != ti["ids"]:
            ctx.mismatch("DOM stream: text ids", case, ti["ids"], [t["id"] for t in tm["texts"]])
            return
        if ti.get("valueXml") is None:
            ctx.mismatch("DOM stream: serialised <value> elements of the itext block could not be dealt out", case, None, None)
            return
        for txm, forms_i, doms_i in zip(tm["texts"], ti["forms"], ti["valueXml"]):
            if [v["form"] for v in txm["values"]] != forms_i:
                ctx.mismatch("DOM stream: <value form> list", case, forms_i, [v["form"] for v in txm["values"]])
                continue
            for vm, di in zip(txm["values"], doms_i):
                d = vm["dom"]
                if d is None:
                    ctx.count("dom:not-stated" + ("" if txm["stated"] else ":repeat-context"))
                    continue
                if "unsupported" in d:
                    ctx.count("dom:unsupported:" + d["unsupported"])
                    continue
                if "err" in d:
                    ctx.mismatch("DOM stream: model rejects a <value> text, implementation accepts", case,
                                 {"lang": ti["lang"], "id": txm["id"], "impl": di}, d)
                    continue
                if d["tag"] != "value" or d["xml"] != di:
                    ctx.mismatch("DOM of <value> (attributes, text chunks, <output> elements in order), as serialised", case,
                                 {"lang": ti["lang"], "id": txm["id"], "impl": di}, d["xml"])
                n_out = sum(1 for k in d["kids"] if k[0] == "e")
                ctx.count("dom:compared")
                if n_out:
                    ctx.count("dom:compared-with-output")
                    if not txm["stated"]:
                        ctx.count("dom:compared-with-output:repeat-context")
                        if any(k[0] == "e" and any(a[0] == "value" and a[1].strip().startswith("..") for a in k[2])
                               for k in d["kids"]):
                            ctx.count("dom:compared-with-output:relative-path")
                    ctx.count("dom:outputs:" + ("1" if n_out == 1 else "2" if n_out == 2 else ">2"))


def one_case(ctx, case, tag="gen"):
    form, kw = case["form"], case.get("kw", {})
    r = impl.run(form, **kw)
    # the built survey (front end of the implementation), input of the model
    model = None
    try:
        survey = ic.build_survey(form, kw)
        x = ic.extract(survey)
        model = ctx.driver.call("itext.model", survey=x)
    except ic.Unsupported as e:
        model = {"outcome": "unsupported", "why": str(e)}
    except Exception as e:  # noqa: BLE001  front end rejected / crashed: convert() must not accept either
        model = {"outcome": "frontend", "why": f"{type(e).__name__}"}
        if r["ok"]:
            ctx.mismatch("front end fails but convert() accepts", case, "ok", model["why"])
    ctx.count(f"{tag}:impl:{r['class']}/model:{model['outcome']}")
    nontrivial = False
    if r["ok"]:
        obs = ic.observe(r["xform"])
        ok = oracle(ctx, case, obs)
        nrefs = len(obs["bodyRefs"]) + len(obs["bindRefs"]) + len(obs["itemIds"])
        nontrivial = nrefs > 0
        ctx.count(f"languages:{len(obs['translations'])}")
        ctx.count("refs:" + ("0" if nrefs == 0 else "1-5" if nrefs <= 5 else "6-20" if nrefs <= 20 else ">20"))
        if obs["itemIds"]:
            ctx.count("with-itextId")
        if model["outcome"] == "ok":
            ctx.count("fragment:inside")
            mt = [[t["lang"], t["default"], t["ids"]] for t in model["translations"]]
            it = [[t["lang"], t["default"] == "true()", t["ids"]] for t in obs["translations"]]
            if mt != it:
                ctx.mismatch("translations (language order, default marks, id order)", case, it, mt)
            elif [t["forms"] for t in model["translations"]] != [t["forms"] for t in obs["translations"]]:
                ctx.mismatch("<value form> lists per text (content types, their order, '-' media omitted)", case,
                             [t["forms"] for t in obs["translations"]], [t["forms"] for t in model["translations"]])
            else:
                # value texts, wherever the model states them (texts without <output> substitution)
                for tm, ti in zip(model["translations"], obs["translations"]):
                    for pid, vm, vi in zip(tm["ids"], tm["values"], ti["values"]):
                        bad = [(a, b) for a, b in zip(vm, vi) if a is not None and a != b]
                        if bad:
                            ctx.mismatch("<value> text", case, {"lang": ti["lang"], "id": pid, "impl": vi}, vm)
                        ctx.count("values-compared", sum(1 for a in vm if a is not None))
                        ctx.count("values-not-stated", sum(1 for a in vm if a is None))
            if mt == it:
                dom_stream(ctx, case, x, obs)
            for k in ("bodyRefs", "bindRefs", "itemIds"):
                if obs[k] != model[k]:
                    ctx.mismatch(k, case, obs[k], model[k])
            if x["defaultLanguage"] != ic.expected_default_language(case):
                ctx.mismatch("default_language of the built survey", case, x["defaultLanguage"], ic.expected_default_language(case))
            g = model["guard"]
            if not g["wf"]:
                # hypothesis `wf` of refs_exist: must hold for whatever the builder produces from a workbook
                ctx.count("guard:wf-false")
                ctx.mismatch("guard wf (no empty dict in a translatable slot, unique bind-message keys) is false "
                             "on a builder output", case, "built survey", g)
            ctx.count("guard:choicesLabeled-" + str(g["choicesLabeled"]).lower())
            if g["wf"] and not model["holds"]["ok"]:
                raise vcore.Infra("theorem holds_out contradicted by the driver: " + str(model["holds"]))
            if g["choicesLabeled"] != (not (unlabeled_itext_choices(form))):
                ctx.mismatch("F6 shape on the sheet vs guard choicesLabeled on the built survey", case,
                             sorted(unlabeled_itext_choices(form)), g)
            if model["holds"]["ok"] != ok:
                ctx.mismatch("oracle verdict on model output vs implementation output", case, ok, model["holds"])
        elif model["outcome"] == "error":
            ctx.mismatch("model rejects, implementation accepts", case, "ok", model["kinds"])
        else:
            ctx.count("fragment:outside")
            ctx.count("unsupported:" + model.get("why", "?"))
    elif r["class"] == "pyxform":
        kinds = [k for k, rx in MODELLED_ERRORS.items() if rx.search(r["msg"])]
        if model["outcome"] == "ok" and kinds:
            ctx.mismatch("implementation rejects inside the mechanism, model accepts", case, r["msg"][:200], "ok")
        elif model["outcome"] == "error":
            if kinds and not set(kinds) & set(model["kinds"]):
                ctx.mismatch("rejection kind", case, r["msg"][:200], model["kinds"])
            ctx.count("rejected:" + (kinds[0] if kinds else "outside-mechanism"))
        else:
            ctx.count("rejected:" + (kinds[0] if kinds else "outside-mechanism"))
    else:
        ctx.count("internal:" + r.get("exc", "?") + "@" + r.get("site", "?"))
    ctx.record(case, nontrivial)


# ------------------------------------------------------------------------------ directed families


def directed_cases(rng):
    """Witness families of DESIGN §7 for C07 (F6, F24, F9 repaired — must stay repaired)."""
    out = []
    # F6: unlabeled choice in a translated list / in a list with media / with a dynamic label; itemset and search()
    for labelcols in (["label::en", "label::fr"], ["label::en"], ["label", "image"], ["label"]):
        for search in (False, True):
            ch = []
            for i, nm in enumerate(["a", "b", "c"]):
                row = {"list_name": "c", "name": nm}
                if i != 1:
                    for c in labelcols:
                        row[c] = "img.png" if c == "image" else ("L ${q0}" if labelcols == ["label"] else "L")
                ch.append(row)
            q = {"type": "select_one c", "name": "q", "label": "Q"}
            if search:
                q["appearance"] = "search('fruits')"
            out.append({"form": {"survey": [{"type": "text", "name": "q0", "label": "Q0"}, q], "choices": ch}, "kw": {}})
    # F24: names containing `guidance_hint` (own and ancestor), every display element
    for nm, gnm in (("my_guidance_hint_q", "g"), ("q", "guidance_hint"), ("guidance_hint", "guidance_hint_g")):
        for cols in (["label::en", "hint::en", "guidance_hint::en"], ["label::en", "label::fr", "constraint_message::fr"],
                     ["label", "guidance_hint"], ["label::en", "image::fr"]):
            row = {"type": "text", "name": nm}
            for c in cols:
                row[c] = "a.png" if c.startswith("image") else "T"
            out.append({"form": {"survey": [{"type": "begin group", "name": gnm, "label::en": "G"}, row, {"type": "end group"}]}, "kw": {}})
    # F9 shape: hint+guidance in language A only, language B elsewhere
    out.append({"form": {"survey": [
        {"type": "text", "name": "a", "label::en": "A", "hint::en": "h", "guidance_hint::en": "g"},
        {"type": "text", "name": "b", "label::fr": "B"}]}, "kw": {}})
    # media in one language only; guidance without hint; shared list translated/untranslated selects
    out.append({"form": {"survey": [
        {"type": "text", "name": "a", "label": "A", "image::fr": "a.png"},
        {"type": "text", "name": "b", "label": "B", "guidance_hint": "g"},
        {"type": "select_one c", "name": "s1", "label::fr": "S"},
        {"type": "select_multiple c", "name": "s2", "label": "S"}],
        "choices": [{"list_name": "c", "name": "x", "label": "X"}, {"list_name": "c", "name": "y", "label::fr": "Y"}]},
        "kw": {"default_language": "fr"}})
    # bind messages of every kind given directly as bind:: columns: plain / with a ${ref} / per language
    for key in ("jr:constraintMsg", "jr:requiredMsg", "jr:noAppErrorString"):
        for txt in ("msg", "msg ${q0}"):
            for cols in ([f"bind::{key}"], [f"bind::{key}::en"], [f"bind::{key}::en", f"bind::{key}::fr"],
                         [f"bind::{key}", f"bind::{key}::fr"]):
                row = {"type": "integer", "name": "n", "label": "N", "constraint": ". > 0", "required": "yes"}
                grp = {"type": "begin group", "name": "g", "label": "G", "relevant": "${q0} != ''"}
                for c in cols:
                    row[c] = txt
                    grp[c] = txt
                out.append({"form": {"survey": [{"type": "text", "name": "q0", "label": "Q0"}, grp, row, {"type": "end group"}]}, "kw": {}})
    # language names that differ only by letter case are different translations; exactly the one equal
    # to default_language is marked
    for a, b in (("English", "english"), ("fr", "FR"), ("Sw", "sW")):
        for dl in (a, b, a.upper(), "default"):
            for how in ("settings", "kw"):
                form = {"survey": [{"type": "select_one c", "name": "q", f"label::{a}": "Q", f"hint::{b}": "h"}],
                        "choices": [{"list_name": "c", "name": "x", f"label::{b}": "X"}, {"list_name": "c", "name": "y", f"label::{a}": "Y"}]}
                kw = {}
                if how == "settings":
                    form["settings"] = [{"default_language": dl}]
                else:
                    kw["default_language"] = dl
                out.append({"form": form, "kw": kw})
    # default_language is a near miss of a translation name (name without its code, other case, code alone, code glued
    # on), and both spellings are translations: through a header typed the other way, or through an unsuffixed
    # itext-producing column (hint + guidance_hint, media, message with ${ref}), which is filed under default_language
    for full in ("English (en)", "Kiswahili (sw)"):
        for near in ic.near_misses(full)[:7]:
            for dl in (near, full):
                for how in ("header", "unsuffixed-guidance", "unsuffixed-image", "unsuffixed-message"):
                    q = {"type": "integer", "name": "n", f"label::{full}": "N", "label::fr": "Nf"}
                    if how == "header":
                        q[f"hint::{near if dl == full else full}"] = "h"
                        q[f"hint::{dl}"] = "h2"
                    elif how == "unsuffixed-guidance":
                        q["hint"] = "h"
                        q["guidance_hint"] = "g"
                    elif how == "unsuffixed-image":
                        q["image"] = "a.png"
                    else:
                        q["constraint"] = ". > 0"
                        q["constraint_message"] = "more than ${q0}"
                    if dl == full and how != "header":
                        q[f"hint::{near}"] = "hn"
                    out.append({"form": {"survey": [{"type": "text", "name": "q0", f"label::{full}": "Q0"}, q],
                                         "settings": [{"default_language": dl}]}, "kw": {}})
    # blank (whitespace-only) translations — dict / JSON input only: the only filled cell of a column for an element is
    # blank, for every itext-producing cell kind, on questions, groups and choices
    for kind in ("label", "hint", "guidance_hint", "constraint_message", "required_message", "image", "audio"):
        for blank in (" ", "   "):
            for where in ("question", "group", "choice"):
                q = {"type": "integer", "name": "n", "label::en": "N", "constraint": ". > 0", "required": "yes"}
                g = {"type": "begin group", "name": "g", "label::en": "G"}
                ch = [{"list_name": "c", "name": "a", "label::en": "A"}, {"list_name": "c", "name": "b", "label::en": "B"}]
                target = {"question": q, "group": g, "choice": ch[1]}[where]
                if where == "choice" and kind not in ("label", "image", "audio"):
                    continue
                if kind == "label":
                    target.pop("label::en", None)
                target[f"{kind}::fr"] = blank
                out.append({"form": {"survey": [g, q, {"type": "select_one c", "name": "s", "label::en": "S"},
                                                {"type": "end group"}], "choices": ch}, "kw": {}})
    # F60 (open): an extra choices column literally named itextId; F61 (open): a quote in the name of a list used by a
    # search() select — one directed case each, so that every run reports them
    out.append({"form": {"survey": [{"type": "select_one c", "name": "q", "label::en": "Q"}],
                         "choices": [{"list_name": "c", "name": "a", "label::en": "A", "itextId": "zzz"},
                                     {"list_name": "c", "name": "b", "label::en": "B"}]}, "kw": {}})
    out.append({"form": {"survey": [{"type": "select_one c", "name": "q", "label": "Q"}],
                         "choices": [{"list_name": "c", "name": "a", "label": "A", "itextId": "zzz"}]}, "kw": {}})
    out.append({"form": {"survey": [{"type": "select_one it's", "name": "q", "label": "Q", "appearance": "search('f')"}],
                         "choices": [{"list_name": "it's", "name": "a", "label::en": "A"},
                                     {"list_name": "it's", "name": "b", "label::en": "B"}]}, "kw": {}})
    # F45 (repaired, must stay repaired): osm question whose tags have translated labels
    for tagcols in (["label::en", "label::fr"], ["label::en"], ["label"]):
        tags = []
        for i, nm in enumerate(["name", "addr"]):
            t = {"list_name": "btags", "name": nm}
            for c in (tagcols[:1] if i else tagcols):
                t[c] = "T"
            tags.append(t)
        out.append({"form": {"survey": [{"type": "osm btags", "name": "b", "label::en": "B"}], "osm": tags}, "kw": {}})
    rng.shuffle(out)
    return out


def dom_directed_cases():
    """Seed-independent family for the DOM stream (phase 8): texts with 0..3 ${references} (plain, last-saved, adjacent,
    markup characters around them, unknown / ambiguous / malformed names, the survey root, an instance() expression) in
    every text-bearing itext slot — translated label, hint, guidance hint, constraint / required message, choice label —
    with a different text per language, outside and inside a repeat."""
    texts = [
        "${q0}", "a ${q0} b ${q1} c", "${q0}${q1}", "x ${last-saved#q0} y", "1 < 2 & ${q0} > 3 \"q\" 'r'",
        "${q0} }", "$ {q0} ${q1} $", "a ${ q0 } b", "${nope}", "${q0", "l1\n${q0}\nl3", "${data} and ${g}",
        "${dup}", "é ${q1} ü ${q0} ß ${q1}", "<output value=\"x\"/> ${q0}", "-", "- ${q0}", "{q0} ${q0} {",
        "instance('c')/root/item[name=${q0}]/label", "${q0} ]]> &amp; &#65;", "  ${q0}  ",
    ]
    slots = ["label", "hint", "guidance_hint", "constraint_message", "required_message", "choice"]
    out = []
    for i, t in enumerate(texts):
        for j, slot in enumerate(slots):
            t2 = texts[(i + j + 1) % len(texts)]
            q = {"type": "integer", "name": "n", "label::en": "N", "constraint": ". > 0", "required": "yes"}
            ch = [{"list_name": "c", "name": "a", "label::en": "A", "label::fr": "Af"},
                  {"list_name": "c", "name": "b", "label::en": "B"}]
            if slot == "choice":
                ch[1]["label::en"] = t
                ch[1]["label::fr"] = t2
            else:
                q[f"{slot}::en"] = t
                if j % 2:
                    q[f"{slot}::fr"] = t2
                else:
                    q[slot] = t2
            base = [{"type": "text", "name": "q0", "label": "Q0"}, {"type": "text", "name": "q1", "label::fr": "Q1"},
                    {"type": "begin group", "name": "g", "label": "G"}, {"type": "text", "name": "dup", "label": "D"},
                    {"type": "end group"},
                    {"type": "begin group", "name": "h", "label": "H"}, {"type": "text", "name": "dup", "label": "D"},
                    {"type": "end group"}]
            sel = {"type": "select_one c", "name": "s", "label::en": "S"}
            out.append({"form": {"survey": base + [q, sel], "choices": ch}, "kw": {}})
            if i % 3 == 0:
                # the same element inside a repeat (relative references: outside the stated fragment) next to one outside
                out.append({"form": {"survey": base + [{"type": "begin repeat", "name": "r", "label::en": t}, dict(q, name="m"),
                                                        {"type": "text", "name": "q2", "label::en": t2}, {"type": "end repeat"},
                                                        dict(q), sel], "choices": ch}, "kw": {}})
    out.extend(dom_repeat_cases())
    return out


def dom_repeat_cases():
    """Phase 8b, seed-independent: texts of elements at or below a repeat whose ${references} name elements of the same
    repeat (relative paths `../x`, `../../g/x`), of an enclosing or nested repeat, the repeat itself, a group inside it,
    elements outside every repeat (absolute), unknown names, and the guarded markers — in every text-bearing slot."""
    texts = [
        "${q2}", "a ${q2} b ${q0} c", "${m} and ${q2}", "${r}", "${gi} ${qg}", "${qg} < ${q2} & ${q0}", "${qn} ${q2}",
        "${rn}", "${q3}", "${m}", "${data}", "${nope} ${q2}", "x ${last-saved#q2} y", "${q2}\n${qg}",
        "indexed-repeat(${q2}, ${r}, 1)", "instance('c')/root/item[name=${q2}]/label", "${dup} ${q2}", "${q2}${q2}",
    ]
    slots = ["label", "hint", "guidance_hint", "constraint_message", "required_message"]
    ch = [{"list_name": "c", "name": "a", "label::en": "A ${q2}", "label::fr": "Af"},
          {"list_name": "c", "name": "b", "label::en": "B"}]
    out = []
    for i, t in enumerate(texts):
        for j, slot in enumerate(slots):
            if (i + j) % 2 and i > 6:
                continue
            t2 = texts[(i + j + 1) % len(texts)]

            def q(name, tx, tx2):
                d = {"type": "integer", "name": name, "label::en": "N", "constraint": ". > 0", "required": "yes"}
                d[f"{slot}::en"] = tx
                d[f"{slot}::fr" if j % 2 else slot] = tx2
                return d
            survey = [
                {"type": "text", "name": "q0", "label": "Q0"},
                {"type": "begin group", "name": "h", "label": "H"}, {"type": "text", "name": "dup", "label": "D"},
                {"type": "end group"},
                {"type": "begin repeat", "name": "r", "label::en": t2 if slot == "label" else "R"},
                q("m", t, t2),
                {"type": "text", "name": "q2", "label::en": "Q2"}, {"type": "text", "name": "dup", "label": "D"},
                {"type": "begin group", "name": "gi", "label::en": t},
                q("qg", t2, t), {"type": "select_one c", "name": "sg", "label::en": t},
                {"type": "end group"},
                {"type": "begin repeat", "name": "rn", "label::en": t},
                q("qn", t, t2),
                {"type": "end repeat"},
                {"type": "end repeat"},
                {"type": "begin repeat", "name": "r3", "label": "R3"}, q("q3", t, t2), {"type": "end repeat"},
                q("n", t, t2),
            ]
            out.append({"form": {"survey": survey, "choices": ch}, "kw": {}})
    return out


def fn_cases(ctx):
    """Call-for-call comparison of the string functions of the model with the implementation's."""
    import os

    from pyxform.parsing.expression import RE_ANY_PYXFORM_REF
    from pyxform.survey import SEARCH_FUNCTION_REGEX
    from pyxform.utils import BRACKETED_TAG_REGEX

    rng = ctx.rng
    atoms = ["${", "}", "q0", "a", " ", "last-saved#", "\n", "search(", ")", "'", ".", "/", "csv", "é", ":", "x", "-", "$", "{", "1", ".xml", "_"]
    pool = ic.SEARCH_APPEARANCES + ic.PLAIN_APPEARANCES + ["f.csv", ".csv", "a/b.c/d", "a.b.geojson", "...x", "x.", "${a}", "${a:b} c", "${last-saved#a}", "${1a}", "a ${b c}", "${a\n}"]
    for _ in range(ctx.pick(150, 2000)):
        pool.append("".join(rng.choice(atoms) for _ in range(rng.randint(0, 7))))
    for s in pool:
        app = bool(s and len(s) > 7 and SEARCH_FUNCTION_REGEX.search(s))
        want = {
            "hasPyxformRef": RE_ANY_PYXFORM_REF.search(s) is not None,
            "hasBracketedTag": BRACKETED_TAG_REGEX.search(s) is not None,
            "isSearch": app,
            "splitExt": os.path.splitext(s)[1],
        }
        for fn, w in want.items():
            got = ctx.driver.call("itext.fn", fn=fn, s=s)
            if got != w:
                ctx.mismatch(f"string function {fn}", {"s": s}, w, got)
        ctx.count("fn-strings")


def explore(ctx, factor, bs):
    rng = ctx.rng
    fn_cases(ctx)
    for case in directed_cases(rng):
        one_case(ctx, case, tag="directed")
    for case in dom_directed_cases():
        one_case(ctx, case, tag="directed-dom")
    n = ctx.pick(2000, 45000) * min(factor, 3)
    for i in range(n):
        directed = {}
        if i % 10 == 0:
            directed = {"p_unlabeled_choice": 0.25}
        case = ic.gen_case(rng, big=not ctx.quick(), directed=directed)
        one_case(ctx, case)
    inside = ctx.dist.get("fragment:inside", 0)
    outside = ctx.dist.get("fragment:outside", 0)
    ctx.notes["fragment_share"] = round(inside / max(1, inside + outside), 4)
    ctx.notes["theorem_guards"] = {
        "wf_false_inputs": ctx.dist.get("guard:wf-false", 0),
        "choicesLabeled_false_inputs (F6 shape, repaired: padded)": ctx.dist.get("guard:choicesLabeled-false", 0),
        "choicesLabeled_true_inputs": ctx.dist.get("guard:choicesLabeled-true", 0),
    }


def replay(ctx, payload, bs):
    before = len(ctx.failures), len(ctx.mismatches)
    one_case(ctx, payload["case"], tag="replay")
    return (len(ctx.failures), len(ctx.mismatches)) == before


def main(argv):
    return vcore.run_check(PROP, explore, RULE, matchers=MATCHERS, replay=replay, argv=argv)
