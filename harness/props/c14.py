"""
C14 — conversion is a pure function of its input.

Theorem side: lean/Pyxv/Proofs/C14.lean over lean/Pyxv/Model/Process.lean (LRU machine, identity-keyed
caches, the fields xml() mutates, set-iteration sites with an explicit order parameter, the shared
scanner as a two-thread small-step system).

Oracle (evaluated on the implementation): byte equality of what the property observes
(xform, warnings, itemsets — and, for rejected forms, the error text) for one form across
  * PYTHONHASHSEED values in fresh processes, each converting the batch in a different order,
    and each form alone in a fresh process                                  (kinds hashseed / history)
  * N threads converting concurrently with a 1 µs switch interval              (kind threads)
  * one forced interleaving per token of the shared re.Scanner: thread A is parked right after
    `self.match = m`, thread B runs a whole scan, A resumes                     (kind schedule)
  * a forced interleaving at document level: thread A is parked when Survey.xml() returns (built, not
    serialised) while thread B converts a form of every feature family           (kind schedule)
  * fresh processes whose first conversions run concurrently (8 threads behind a barrier): lazily
    initialised module state                                                    (kind first-use)
  * 3x regeneration from one survey object                                      (kind regen)
  * converting the same dict object twice                                       (kind same-object)
  * every lru_cache hit compared with the uncached function                     (kind cache-hit)
  * no file left in a private TMPDIR                                            (kind tmp-left)
Tie model <-> code: the Lean LRU machine and functools.lru_cache are run on the same random key
sequences (hit/miss, evicted key, size after every call); the ordered-union / sorted-iteration /
position-from-length functions of the model are compared with `_add_empty_translations`,
`_generate_pulldata_instances` and `parse_expression` on generated arguments; cache sizes and the
required-header sets are regenerated from the source.
"""

from __future__ import annotations

import copy
import gc
import inspect
import json
import os
import re
import shutil
import subprocess
import sys
import tempfile
import threading
from concurrent.futures import ThreadPoolExecutor
from pathlib import Path

import c14_gen
import c14_impl
import vcore
from vcore import Failure

PROP = "C14"
RULE = (
    "generated forms (nested repeats with ${refs}; sparse hint/guidance/media translations; pulldata in several "
    "logic columns; or_other with languages; instance() in labels; external choices with/without header; search(); "
    "duplicate id headers; entities; 2-4 custom namespaces; one name in several groups with triggers and dynamic "
    "defaults; shared default strings; missing required headers; group<->repeat twins) converted under 8/64 "
    "PYTHONHASHSEED values in fresh processes (a different batch order in each) and alone, by 4-8 concurrent threads "
    "(switch interval 1us), under a forced per-token interleaving of the shared re.Scanner, 6x from one survey object "
    "through every public route (an exception on regeneration is a violation), "
    "twice from one dict object, with every lru_cache hit compared with the uncached function; all results compared "
    "byte for byte. distinct = canonical hash of the form; non-trivial = the form converts and uses >= 1 targeted feature"
)
HARNESS = Path(__file__).resolve().parent.parent
FIELDS = ["class", "xform", "warnings", "itemsets"]
DUP_ID_WARNING = "The form_id and id_string column headers are both"


# --------------------------------------------------------------------------- helpers


def diff_fields(a, b) -> list[str]:
    if a is None or b is None:
        return ["missing"]
    if a[0] != b[0]:
        return ["class"]
    if a[0] == "ok":
        return [f for i, f in enumerate(FIELDS) if i and a[i] != b[i]]
    return [] if a == b else ["message"]


def short(obs):
    if obs is None:
        return None
    if obs[0] == "ok":
        return ["ok", f"<{len(obs[1])} chars>", obs[2], obs[3]]
    return obs


def first_diff(a: str, b: str) -> str:
    if not isinstance(a, str) or not isinstance(b, str):
        return f"{a!r} / {b!r}"
    n = min(len(a), len(b))
    i = next((k for k in range(n) if a[k] != b[k]), n)
    return f"@{i}: …{a[max(0, i - 60):i + 80]!r} / …{b[max(0, i - 60):i + 80]!r}"


def describe(a, b) -> str:
    d = diff_fields(a, b)
    parts = []
    for f in d:
        if f in FIELDS and a[0] == "ok" and b[0] == "ok":
            i = FIELDS.index(f)
            parts.append(f"{f}: " + (first_diff(a[i], b[i]) if isinstance(a[i], str) else f"{a[i]!r} / {b[i]!r}"))
        else:
            parts.append(f"{f}: {short(a)!r} / {short(b)!r}"[:600])
    return "; ".join(parts)


class Workdir:
    def __init__(self):
        self.path = Path(tempfile.mkdtemp(prefix="pyxv-c14-"))
        self.n = 0

    def sub(self, name):
        p = self.path / name
        p.mkdir(parents=True, exist_ok=True)
        return p

    def close(self):
        shutil.rmtree(self.path, ignore_errors=True)


def run_worker(wd: Workdir, hashseed: int, forms: list, order: list[int], tag: str, **extra):
    """One fresh interpreter with the given PYTHONHASHSEED and a private TMPDIR."""
    job = wd.path / f"job-{tag}.json"
    job.write_text(json.dumps({"forms": forms, "order": order, "check_tmp": True, **extra}, ensure_ascii=False))
    tmp = wd.sub(f"tmp-{tag}")
    env = dict(os.environ)
    env.update({"PYTHONHASHSEED": str(hashseed), "TMPDIR": str(tmp), "PYTHONPATH": str(HARNESS),
                "PYTHONDONTWRITEBYTECODE": "1"})
    p = subprocess.run([sys.executable, str(HARNESS / "c14_impl.py"), str(job)], env=env, capture_output=True,
                       text=True, timeout=1800, check=False)
    if p.returncode != 0:
        raise vcore.Infra(f"worker {tag} failed: {p.stderr[-1500:]}")
    return json.loads(p.stdout)


def run_workers(wd, jobs):
    """jobs: [(hashseed, forms, order, tag)] -> replies in order."""
    with ThreadPoolExecutor(max_workers=min(16, max(1, len(jobs)))) as ex:
        futs = [ex.submit(run_worker, wd, s, f, o, t) for (s, f, o, t) in jobs]
        return [f.result() for f in futs]


# --------------------------------------------------------------------------- phase A: hash seeds x orders x alone


def phase_seeds(ctx, wd, cases, n_seeds, n_alone):
    rng = ctx.rng
    forms = [c["form"] for c in cases]
    n = len(forms)
    seeds = list(range(min(4, n_seeds))) + rng.sample(range(4, 2**32 - 1), max(0, n_seeds - 4))
    jobs = []
    for j, s in enumerate(seeds):
        order = list(range(n))
        if j == 1:
            order.reverse()
        elif j > 1:
            rng.shuffle(order)
        jobs.append((s, forms, order, f"seed{j}"))
    alone = rng.sample(range(n), min(n, n_alone))
    for i in alone:
        jobs.append((seeds[0], [forms[i]], [0], f"alone{i}"))
    replies = run_workers(wd, jobs)
    for (s, _, _, tag), r in zip(jobs, replies):
        if r["tmp_left"]:
            ctx.fail(Failure("tmp-left", f"files left in TMPDIR after converting a batch: {r['tmp_left'][:5]}",
                             {"kind": "tmp-left", "forms": forms}, extra={"left": r["tmp_left"]}))
    ref = replies[0]["results"]
    # batch runs
    attributed = set()
    for j in range(1, len(seeds)):
        res = replies[j]["results"]
        for i in range(n):
            d = diff_fields(ref[i], res[i])
            if d and (i, tuple(d)) not in attributed:
                attributed.add((i, tuple(d)))
                attribute(ctx, wd, cases[i], forms, jobs[j][2], i, seeds[0], seeds[j], ref[i], res[i], d)
    # alone runs (same hash seed as the reference: only the history differs)
    for k, i in enumerate(alone):
        res = replies[len(seeds) + k]["results"][0]
        d = diff_fields(ref[i], res)
        if d:
            ctx.fail(Failure("history", f"form {i} converted alone vs. as element {i} of a batch (same PYTHONHASHSEED): "
                             + describe(res, ref[i]),
                             {"kind": "history", "forms": forms[: i + 1], "order": list(range(i + 1)), "index": i,
                              "seed": seeds[0]},
                             extra={"diff": d, "alone": short(res), "in_batch": short(ref[i]), "feats": cases[i]["feats"]}))
    ctx.count("fresh_processes", len(jobs))
    ctx.notes["hashseeds"] = seeds
    return ref


def attribute(ctx, wd, case, forms, order, i, s0, s1, a, b, d):
    """A form's result differs between two batch runs: hash seed or history?"""
    form = case["form"]
    r0, r1 = run_workers(wd, [(s0, [form], [0], f"attr{wd.n}a"), (s1, [form], [0], f"attr{wd.n}b")])
    wd.n += 1
    x0, x1 = r0["results"][0], r1["results"][0]
    d2 = diff_fields(x0, x1)
    if d2:
        ctx.fail(Failure("hashseed", f"PYTHONHASHSEED={s0} vs {s1}: " + describe(x0, x1),
                         {"kind": "hashseed", "form": form, "seeds": [s0, s1]},
                         extra={"diff": d2, "a": short(x0), "b": short(x1), "feats": case["feats"],
                                "msg_a": x0[1] if x0[0] != "ok" else "", "msg_b": x1[1] if x1[0] != "ok" else ""}))
    else:
        ctx.fail(Failure("history", f"form {i} gives another result inside a batch (order {order[:12]}…, PYTHONHASHSEED={s1}) "
                         "than alone: " + describe(a, b),
                         {"kind": "history", "forms": forms, "order": order, "index": i, "seed": s1},
                         extra={"diff": d, "alone": short(x1), "in_batch": short(b), "feats": case["feats"]}))


# --------------------------------------------------------------------------- phase: first use, concurrently


def phase_first_use(ctx, wd, cases, ref, n_procs, n_threads):
    """Lazily initialised module state (tables read on first use, caches filled on first call): in FRESH
    interpreters the very first conversions run concurrently (threads behind a barrier, 1 us switch
    interval); every result must equal the one of the form converted alone.  One representative per
    feature family, so that every lazy table is first touched under concurrency."""
    reps = {}
    for i, c in enumerate(cases):
        if ref[i][0] in ("ok", "pyxform") and c["feats"] and c["feats"][0] not in reps and len(c["form"].get("survey", [])) <= 60:
            reps[c["feats"][0]] = i
    idx = list(reps.values())
    forms = [cases[i]["form"] for i in idx]
    seed0 = ctx.notes["hashseeds"][0]
    # process k: all threads start with form k (its lazy tables are first used by all threads at once), then
    # each continues with a few of the others in rotated order
    leads = list(range(len(forms)))
    if n_procs < len(leads):
        leads = ctx.rng.sample(leads, n_procs)
    with ThreadPoolExecutor(max_workers=8) as ex:
        futs = [ex.submit(run_worker, wd, seed0, forms, list(range(len(forms))), f"first{k}", threads=n_threads, switch=1e-6,
                          lead=k, tail=3) for k in leads]
        replies = [f.result() for f in futs]
    n_procs = len(leads)
    for k, r in enumerate(replies):
        for t, per_thread in enumerate(r["results"]):
            for j, got in enumerate(per_thread):
                if got is None:
                    continue
                d = diff_fields(ref[idx[j]], got)
                if d:
                    ctx.fail(Failure("first-use", f"fresh process, {n_threads} threads starting together: thread {t} got another result for "
                                     f"form {j} than the form converted alone: " + describe(ref[idx[j]], got),
                                     {"kind": "first-use", "forms": forms, "index": j, "threads": n_threads, "seed": seed0},
                                     extra={"diff": d, "feats": cases[idx[j]]["feats"], "alone": short(ref[idx[j]]), "concurrent": short(got)}))
    ctx.count("first_use:fresh_processes", n_procs)
    ctx.count("first_use:conversions", sum(1 for r in replies for per in r["results"] for g in per if g is not None))


# --------------------------------------------------------------------------- caches


def _is_cached(v):
    return callable(v) and hasattr(v, "cache_parameters") and hasattr(v, "__wrapped__") and hasattr(v, "cache_info")


def cached_functions():
    """Every functools.lru_cache wrapper reachable in pyxform: module attributes, and attributes of
    classes defined in pyxform modules (plain functions, staticmethods, classmethods).
    value: (cached function, [(owner, attribute name, kind)])"""
    import impl  # noqa: F401
    import pyxform.xls2xform  # noqa: F401
    import pyxform.validators.pyxform.iana_subtags.validation  # noqa: F401

    found = {}
    for mname, mod in list(sys.modules.items()):
        if not (mname == "pyxform" or mname.startswith("pyxform.")) or mod is None:
            continue
        for attr, v in list(vars(mod).items()):
            if _is_cached(v):
                key = f"{getattr(v, '__module__', mname)}.{getattr(v, '__qualname__', attr)}"
                found.setdefault(key, (v, []))[1].append((mod, attr, "plain"))
            elif isinstance(v, type) and getattr(v, "__module__", "").startswith("pyxform"):
                for cattr, cv in list(vars(v).items()):
                    kind, fn = "plain", cv
                    if isinstance(cv, staticmethod):
                        kind, fn = "static", cv.__func__
                    elif isinstance(cv, classmethod):
                        kind, fn = "class", cv.__func__
                    if _is_cached(fn):
                        key = f"{v.__module__}.{v.__qualname__}.{cattr}"
                        sites = found.setdefault(key, (fn, []))[1]
                        if (v, cattr, kind) not in sites:
                            sites.append((v, cattr, kind))
    return found


def clear_caches():
    for _, (fn, _) in cached_functions().items():
        fn.cache_clear()


def canon_value(v):
    from xml.dom.minidom import Node

    if isinstance(v, Node):
        # a cached DOM node is shared: once some document adopts it, it has a parent
        try:
            text = v.toxml()
        except Exception:  # noqa: BLE001
            text = repr(v)
        return {"dom": text, "attached": v.parentNode is not None}
    if isinstance(v, tuple | list):
        return [canon_value(x) for x in v]
    if isinstance(v, set | frozenset):
        return sorted(canon_value(x) for x in v)
    if isinstance(v, str | int | float | bool | type(None)):
        return v
    if hasattr(v, "__slots__"):
        names = []
        for klass in type(v).__mro__:
            sl = getattr(klass, "__slots__", ())
            names += [sl] if isinstance(sl, str) else list(sl)
        names += list(getattr(v, "__dict__", {}))
        return {"obj": type(v).__name__, "fields": {n: canon_value(getattr(v, n, None)) for n in dict.fromkeys(names) if n != "__weakref__"}}
    if isinstance(v, dict):
        return {str(k): canon_value(x) for k, x in v.items()}
    if hasattr(v, "__dict__") and not callable(v):
        return {"obj": type(v).__name__, "fields": {k: canon_value(x) for k, x in vars(v).items()}}
    return repr(v)


class CacheMonitor:
    """Wrap every lru_cached function: every call that was (or contained) a hit is compared with the
    uncached function `__wrapped__` on the same arguments."""

    def __init__(self, ctx):
        self.ctx = ctx
        self.bad = []
        self.patched = []
        self.stats = {}

    def __enter__(self):
        for key, (fn, sites) in cached_functions().items():
            mon = self.make(key, fn)
            for owner, attr, kind in sites:
                orig = vars(owner)[attr]
                setattr(owner, attr, staticmethod(mon) if kind == "static" else classmethod(mon) if kind == "class" else mon)
                self.patched.append((owner, attr, orig))
        return self

    def __exit__(self, *a):
        for owner, attr, orig in self.patched:
            setattr(owner, attr, orig)

    def make(self, key, fn):
        raw = fn.__wrapped__
        stats = self.stats.setdefault(key, {"calls": 0, "hits_checked": 0})
        outer = self

        def mon(*a, **kw):
            stats["calls"] += 1
            before = fn.cache_info().hits
            v = fn(*a, **kw)
            if fn.cache_info().hits > before:
                stats["hits_checked"] += 1
                fresh = raw(*a, **kw)
                cv, cf = canon_value(v), canon_value(fresh)
                if cv != cf and len(outer.bad) < 10:
                    outer.bad.append({"function": key, "args": repr(a)[:300], "cached": repr(cv)[:500], "fresh": repr(cf)[:500]})
            return v

        for name in ("cache_info", "cache_clear", "cache_parameters"):
            setattr(mon, name, getattr(fn, name))
        mon.__wrapped__ = raw
        mon.__name__ = getattr(fn, "__name__", key)
        mon.__module__ = getattr(fn, "__module__", None)
        return mon


def phase_cache_monitor(ctx, cases):
    """Sequential conversions (twice: the second pass is served from warm caches) under the monitor."""
    clear_caches()
    with CacheMonitor(ctx) as mon:
        for rep in range(2):
            for c in cases:
                before = len(mon.bad)
                c14_impl.observe(c["form"])
                if len(mon.bad) > before:
                    b = mon.bad[before]
                    ctx.fail(Failure("cache-hit", f"{b['function']}{b['args']}: cached {b['cached']} but uncached gives {b['fresh']}",
                                     {"kind": "cache-hit", "forms": [x["form"] for x in cases[: cases.index(c) + 1]]},
                                     extra=b))
    for k, s in mon.stats.items():
        ctx.count(f"cache:{k}:calls", s["calls"])
        ctx.count(f"cache:{k}:hits_checked", s["hits_checked"])


# --------------------------------------------------------------------------- phase: threads


def phase_threads(ctx, cases, seq, n_threads, rounds):
    old = sys.getswitchinterval()
    sys.setswitchinterval(1e-6)
    try:
        for rnd in range(rounds):
            clear_caches()
            idx = list(range(len(cases)))
            plans = []
            for t in range(n_threads):
                order = idx[:]
                ctx.rng.shuffle(order)
                plans.append(order)
            out = [dict() for _ in range(n_threads)]
            start = threading.Barrier(n_threads)

            def work(t):
                start.wait()
                for i in plans[t]:
                    out[t][i] = c14_impl.observe(cases[i]["form"])

            ths = [threading.Thread(target=work, args=(t,)) for t in range(n_threads)]
            for th in ths:
                th.start()
            for th in ths:
                th.join()
            for t in range(n_threads):
                for i, r in out[t].items():
                    d = diff_fields(seq[i], r)
                    if d:
                        ctx.fail(Failure("threads", f"{n_threads} concurrent threads vs. sequential: " + describe(seq[i], r),
                                         {"kind": "threads", "forms": [c["form"] for c in cases], "index": i, "n_threads": n_threads},
                                         extra={"diff": d, "feats": cases[i]["feats"]}))
            ctx.count("thread_conversions", n_threads * len(cases))
    finally:
        sys.setswitchinterval(old)


# --------------------------------------------------------------------------- phase: forced interleaving of the shared scanner


class ForcedInterleaving:
    """
    Thread A (the caller of `run`) is parked every time it reaches the line after `self.match = m` in
    re.Scanner.scan; while it is parked thread B runs one whole scan of `b_text` on the same scanner;
    then A resumes.  This is, token for token, the interleaving `A.write; B.*; A.read` of the
    two-thread model (Process.lean, `Scan`).  No hook in /repo: sys.monitoring LINE events on the code object
    of CPython's re.Scanner.scan.
    """

    def __init__(self, scanner, b_text="1", max_parks=400):
        self.scanner = scanner
        self.b_text = b_text
        self.max_parks = max_parks
        self.parks = 0
        code = re.Scanner.scan.__code__
        lines, first = inspect.getsourcelines(re.Scanner.scan)
        hits = [first + k for k, ln in enumerate(lines) if "self.match = m" in ln.replace("  ", " ")]
        if len(hits) != 1:
            raise vcore.Infra("re.Scanner.scan: cannot find the line `self.match = m`")
        self.code = code
        self.park_line = hits[0] + 1
        self.req = threading.Event()
        self.done = threading.Event()
        self.stop = False
        self.a_ident = None

    def _b(self):
        while True:
            self.req.wait()
            self.req.clear()
            if self.stop:
                return
            self.scanner.scan(self.b_text)
            self.done.set()

    def _line(self, code, line):
        if line == self.park_line and threading.get_ident() == self.a_ident and self.parks < self.max_parks:
            self.parks += 1
            self.req.set()
            self.done.wait()
            self.done.clear()

    def run(self, fn):
        mon = sys.monitoring
        tool = mon.DEBUGGER_ID
        try:
            mon.use_tool_id(tool, "pyxv-c14")
        except ValueError as e:
            raise vcore.Infra(f"sys.monitoring tool id in use: {e}") from e
        b = threading.Thread(target=self._b, daemon=True)
        b.start()
        self.a_ident = threading.get_ident()
        try:
            mon.register_callback(tool, mon.events.LINE, self._line)
            mon.set_local_events(tool, self.code, mon.events.LINE)
            return fn()
        finally:
            mon.set_local_events(tool, self.code, 0)
            mon.register_callback(tool, mon.events.LINE, None)
            mon.free_tool_id(tool)
            self.stop = True
            self.req.set()
            b.join(timeout=5)


class BuildSerialiseInterleaving:
    """
    Thread A (the caller of `run`) is parked at the moment `Survey.xml()` returns — its document is
    built but not yet serialised — while thread B converts every form of `others`, whole conversions;
    then A resumes and writes its document out.  Anything a conversion shares with another one through
    the process (a cached DOM node, a module-level table, a default argument) and that B's conversions
    touch shows as a difference in A's text.  sys.monitoring PY_RETURN on the code object of Survey.xml.
    """

    def __init__(self, others):
        import impl  # noqa: F401
        from pyxform.survey import Survey

        self.code = Survey.xml.__code__
        self.others = others
        self.b_results = []
        self.parks = 0
        self.a_ident = None
        self.b_error = None

    def _b(self):
        try:
            self.b_results = [c14_impl.observe(f) for f in self.others]
        except BaseException as e:  # noqa: BLE001
            self.b_error = e

    def _ret(self, code, offset, retval):
        if threading.get_ident() == self.a_ident and self.parks == 0:
            self.parks += 1
            b = threading.Thread(target=self._b)
            b.start()
            b.join()

    def run(self, fn):
        mon = sys.monitoring
        tool = mon.DEBUGGER_ID
        try:
            mon.use_tool_id(tool, "pyxv-c14-bs")
        except ValueError as e:
            raise vcore.Infra(f"sys.monitoring tool id in use: {e}") from e
        self.a_ident = threading.get_ident()
        try:
            mon.register_callback(tool, mon.events.PY_RETURN, self._ret)
            mon.set_local_events(tool, self.code, mon.events.PY_RETURN)
            return fn()
        finally:
            mon.set_local_events(tool, self.code, 0)
            mon.register_callback(tool, mon.events.PY_RETURN, None)
            mon.free_tool_id(tool)


def phase_build_serialise(ctx, cases, seq):
    """One representative per feature family as thread A, against the representatives of all families as thread B."""
    reps = {}
    for i, c in enumerate(cases):
        if seq[i][0] == "ok" and c["feats"] and c["feats"][0] not in reps:
            reps[c["feats"][0]] = i
    idx = list(reps.values())
    others_idx = [i for i in idx if len(cases[i]["form"]["survey"]) <= 60]
    others = [cases[i]["form"] for i in others_idx]
    for i in idx:
        clear_caches()
        bs = BuildSerialiseInterleaving(others)
        got = bs.run(lambda: c14_impl.observe(cases[i]["form"]))
        if bs.b_error is not None:
            raise vcore.Infra(f"thread B crashed: {bs.b_error!r}")
        ctx.count("build_serialise:parks", bs.parks)
        ctx.count("build_serialise:b_conversions", len(bs.b_results))
        d = diff_fields(seq[i], got)
        if d:
            ctx.fail(Failure("schedule", f"thread parked between Survey.xml() and serialisation while another thread converted "
                             f"{len(others)} forms: its result differs from the sequential one: " + describe(seq[i], got),
                             {"kind": "build-serialise", "form": cases[i]["form"], "others": others},
                             extra={"diff": d, "feats": cases[i]["feats"]}))
        for j, r in zip(others_idx, bs.b_results):
            d = diff_fields(seq[j], r)
            if d:
                ctx.fail(Failure("schedule", "conversion running while another thread is parked between Survey.xml() and "
                                 "serialisation differs from the sequential one: " + describe(seq[j], r),
                                 {"kind": "build-serialise", "form": cases[i]["form"], "others": others},
                                 extra={"diff": d, "feats": cases[j]["feats"]}))
    clear_caches()


def shared_scanner():
    import impl  # noqa: F401
    from pyxform.parsing import expression

    sc = getattr(expression, "_EXPRESSION_LEXER", None)
    if isinstance(sc, re.Scanner):
        return sc
    for v in vars(expression).values():
        if isinstance(v, re.Scanner):
            return v
    return None


def tokens_of(text):
    from pyxform.parsing import expression

    fn = getattr(expression.parse_expression, "__wrapped__", expression.parse_expression)
    toks, rest = fn(text)
    return [[t.name, t.value, t.start, t.end] for t in toks], rest


SCHED_TEXTS = [
    "instance('yn')/root/item[name = ${q1}]/label",
    "pre instance('l')/root/item[name=${a} and 1 = 1]/label post ${b}",
    "${a} + 12.5 div 3 and not(selected(${b}, 'x'))",
    "concat(../a, 'é中', /data/r[position() = 1]/x)",
    "2024-01-02T10:11:12Z - 2024-01-02",
]


def phase_schedule(ctx, cases, seq):
    sc = shared_scanner()
    if sc is None:
        ctx.count("schedule:no_shared_scanner")
        return
    texts = list(SCHED_TEXTS)
    for c in cases:
        for r in c["form"]["survey"]:
            for k, v in r.items():
                if isinstance(v, str) and "instance(" in v and len(texts) < 40:
                    texts.append(v)
    for text in texts:
        want = tokens_of(text)
        fi = ForcedInterleaving(sc)
        got = fi.run(lambda: tokens_of(text))
        ctx.count("schedule:token_scans")
        ctx.count("schedule:parks", fi.parks)
        if got != want:
            ctx.fail(Failure("schedule", f"token stream of {text!r} under the forced interleaving differs from the single-threaded one: "
                             f"{[t for t, w in zip(got[0], want[0]) if t != w][:3]} vs {[w for t, w in zip(got[0], want[0]) if t != w][:3]}",
                             {"kind": "schedule", "text": text}, extra={"got": got, "want": want}))
        ctx.record({"sched_text": text}, True)
    n = 0
    for i, c in enumerate(cases):
        if "instance_label" not in c["feats"] or seq[i][0] != "ok":
            continue
        clear_caches()
        fi = ForcedInterleaving(sc, max_parks=3000)
        got = fi.run(lambda: c14_impl.observe(c["form"]))
        clear_caches()
        ctx.count("schedule:form_conversions")
        ctx.count("schedule:parks", fi.parks)
        d = diff_fields(seq[i], got)
        if d:
            ctx.fail(Failure("schedule", "conversion under the forced scanner interleaving differs from the sequential one: "
                             + describe(seq[i], got), {"kind": "schedule", "form": c["form"]}, extra={"diff": d}))
        n += 1
        if n >= ctx.pick(6, 40):
            break


# --------------------------------------------------------------------------- phase: regeneration, same object


def phase_regen(ctx, case, ref):
    """Regenerate the XML several times, through every public route, from the survey object of one
    conversion.  An exception on regeneration is as much a violation as a different text."""
    d = copy.deepcopy(c14_impl.to_dict(case["form"]))
    obs, res = c14_impl.convert_dict(d)
    if res is None:
        return
    survey = res._survey
    ns0 = survey.namespaces
    routes = [
        ("_to_ugly_xml", lambda: survey._to_ugly_xml()),
        ("to_xml(pretty_print=True)", lambda: survey.to_xml(validate=False, pretty_print=True)),
        ("_to_ugly_xml", lambda: survey._to_ugly_xml()),
        ("to_xml(pretty_print=False)", lambda: survey.to_xml(validate=False, pretty_print=False, warnings=[])),
        ("xml().toxml()", lambda: survey.xml().toxml()),
        ("_to_ugly_xml", lambda: survey._to_ugly_xml()),
    ]
    pretty = None
    for k, (name, fn) in enumerate(routes):
        try:
            out = fn()
        except Exception as e:  # noqa: BLE001
            ctx.fail(Failure("regen", f"regeneration #{k + 1} ({name}) from the same survey object raised "
                             f"{type(e).__name__}: {str(e)[:300]}", {"kind": "regen", "form": case["form"]},
                             extra={"which": [k], "exception": type(e).__name__}))
            break
        if name.startswith("to_xml(pretty_print=True"):
            # pretty text is compared with a fresh conversion's pretty text
            if pretty is None:
                import impl

                pretty = impl.run(case["form"], pretty=True) if not case["form"].get("_no_external_header") else None
            ok = pretty is None or not pretty.get("ok") or pretty["xform"] == out
        elif name == "xml().toxml()":
            ok = out in obs[1]
        else:
            ok = out == obs[1]
        if not ok:
            ctx.fail(Failure("regen", f"regeneration #{k + 1} ({name}) from the same survey object differs from the first XForm: "
                             + first_diff(obs[1], out), {"kind": "regen", "form": case["form"]}, extra={"which": [k]}))
            break
    if survey.namespaces != ns0:
        ctx.count("F36:namespaces_grew_without_effect")
    ctx.count("regenerations", len(routes))


def unexplained_mutations(before: dict, after: dict) -> list[str]:
    """Differences between the caller's dict before and after a conversion that are not what
    `clean_text_values` stores back (Process.cleanSheet: cleaned text cells, `__row` on choices rows)."""
    from pyxform.xls2json import clean_text_values

    out = []
    for sheet in sorted(set(before) | set(after)):
        b, a = before.get(sheet), after.get(sheet)
        if b == a:
            continue
        if not (isinstance(b, list) and isinstance(a, list) and len(a) == len(b)) or sheet.endswith("_header") or sheet == "sheet_names":
            out.append(f"{sheet}: {b!r} -> {a!r}"[:200])
            continue
        for n, (rb, ra) in enumerate(zip(b, a)):
            if rb == ra:
                continue
            for k in sorted(set(rb) | set(ra)):
                vb, va = rb.get(k, "<absent>"), ra.get(k, "<absent>")
                if vb == va or (k == "__row" and vb == "<absent>" and isinstance(va, int)):
                    continue
                if isinstance(vb, str) and isinstance(va, str):
                    try:
                        exp = clean_text_values(sheet, [{k: vb}], strip_whitespace=(sheet == "survey"))[0][k]
                    except Exception:  # noqa: BLE001
                        exp = None
                    if exp == va:
                        continue
                out.append(f"{sheet}[{n}][{k!r}]: {vb!r} -> {va!r}"[:200])
    return out


def phase_same_object(ctx, case):
    d = copy.deepcopy(c14_impl.to_dict(case["form"]))
    pristine = copy.deepcopy(d)
    a, _ = c14_impl.convert_dict(d)
    mutated = d != pristine
    b, _ = c14_impl.convert_dict(d)
    c, _ = c14_impl.convert_dict(d)
    if mutated:
        ctx.count("same_object:input_mutated")
        other = unexplained_mutations(pristine, d)
        if other:
            ctx.count("same_object:mutation_beyond_cleaning")
    for x, nth in ((b, 2), (c, 3)):
        df = diff_fields(a, x)
        if df:
            ctx.fail(Failure("same-object", f"conversion #{nth} of the same dict object differs from the first: " + describe(a, x),
                             {"kind": "same-object", "form": case["form"]},
                             extra={"diff": df, "a": short(a), "b": short(x), "beyond_cleaning": unexplained_mutations(pristine, d)[:5],
                                    "header_keys": sorted((pristine.get("settings_header") or [{}])[0])}))
            break
    ctx.count("same_object:conversions", 3)


# --------------------------------------------------------------------------- correspondence with the Lean model


def lru_trace_python(cap, keys):
    """functools.lru_cache(maxsize=cap) on a key sequence: per call (hit, evicted key | None, currsize)."""
    import functools
    import weakref

    class K:
        __slots__ = ("v", "__weakref__")

        def __init__(self, v):
            self.v = v

        def __hash__(self):
            return hash(self.v)

        def __eq__(self, o):
            return self.v == o.v

    died = []
    cached = functools.lru_cache(maxsize=cap)(lambda k: k.v * 7 + 1)
    trace = []
    stored = set()
    for kv in keys:
        k = K(kv)
        kid = id(k)
        weakref.finalize(k, lambda kid=kid, kv=kv: died.append((kid, kv)))
        h0 = cached.cache_info().hits
        died.clear()
        out = cached(k)
        hit = cached.cache_info().hits > h0
        if not hit:
            stored.add(kid)
        del k
        evicted = [v for (i, v) in died if i in stored and (i != kid or cap == 0)]
        for i, _ in died:
            stored.discard(i)
        ev = None
        if cap == 0:
            evicted = []
        if evicted:
            ev = evicted[0]
        trace.append([hit, ev, cached.cache_info().currsize, out])
    return trace


def phase_model(ctx, n_lru):
    rng = ctx.rng
    drv = ctx.driver
    # (a) LRU machine vs functools.lru_cache
    for _ in range(n_lru):
        cap = rng.choice([0, 1, 1, 2, 2, 3, 4, 5, 8])
        nk = rng.randint(1, max(2, cap + 3))
        keys = [rng.randint(0, nk) for _ in range(rng.randint(0, 40))]
        want = lru_trace_python(cap, keys)
        got = drv.call("proc.lru", cap=cap, keys=keys)
        if got != want:
            ctx.mismatch("Process.Lru.run vs functools.lru_cache (hit, evicted, size, value per call)",
                         {"cap": cap, "keys": keys}, want, got)
        ctx.count("model:lru_sequences")
        ctx.record({"lru": [cap, keys]}, len(keys) > cap)
    # (b) positions from token lengths vs parse_expression
    texts = list(SCHED_TEXTS)
    import gen

    for _ in range(n_lru):
        texts.append(gen.adv_text(rng, 8) + rng.choice(["", " ${a}", "instance('x')/a[b=1]"]))
    for text in texts:
        toks, rest = tokens_of(text)
        got = drv.call("proc.positions", lens=[len(t[1]) for t in toks])
        want = [[t[2], t[3]] for t in toks]
        if got != want:
            ctx.mismatch("Process.positions vs parse_expression token positions", {"text": text}, want, got)
        if rest != "":
            ctx.mismatch("parse_expression left a remainder (tokens are not contiguous)", {"text": text}, rest, "")
        ctx.count("model:position_texts")
    # (c) ordered union of content types vs _add_empty_translations
    import impl  # noqa: F401
    from pyxform.survey import Survey

    for _ in range(n_lru):
        langs = rng.sample(["en", "fr", "de", "sw"], k=rng.randint(1, 4))
        paths = [f"/data/q{i}:label" for i in range(rng.randint(1, 4))]
        ctypes = ["long", "guidance", "image", "audio", "video", "type"]
        tr = {}
        for lg in langs:
            tr[lg] = {}
            for p in rng.sample(paths, k=rng.randint(0, len(paths))):
                tr[lg][p] = {c: "x" for c in rng.sample(ctypes, k=rng.randint(1, 4))}
        s = Survey(name="data")
        s._translations = copy.deepcopy(tr)
        s._add_empty_translations()
        want = [[lg, [[p, list(cs)] for p, cs in d.items()]] for lg, d in s._translations.items()]
        arg = [[lg, [[p, list(cs)] for p, cs in d.items()]] for lg, d in tr.items()]
        got = drv.call("proc.pad", tr=arg)
        if got != want:
            ctx.mismatch("Process.padFixed vs Survey._add_empty_translations (key order of every itext entry)", {"tr": arg}, want, got)
        ctx.count("model:pad_cases")
    # (d) sorted iteration of EXTERNAL_INSTANCES vs _generate_pulldata_instances
    from pyxform import constants

    ext = sorted(constants.EXTERNAL_INSTANCES)
    for _ in range(max(10, n_lru // 4)):
        present = rng.sample(ext, k=rng.randint(0, len(ext)))
        shuffled = ext[:]
        rng.shuffle(shuffled)
        form = {"survey": [{"type": "text", "name": "q", "label": "Q",
                            **{("read_only" if c == "readonly" else "calculation" if c == "calculate" else c):
                               f"pulldata('f_{c}', 'a', 'b', 'c')" for c in present}}]}
        obs = c14_impl.observe(form)
        if obs[0] != "ok":
            continue
        want = re.findall(r'<instance id="(f_[a-z]+)"', obs[1])
        got = drv.call("proc.pulldata", order=shuffled, present=present)
        if [f"f_{c}" for c in got] != want:
            ctx.mismatch("Process.pulldataOrder vs order of pulldata instances in the XForm", {"present": present}, want, got)
        ctx.count("model:pulldata_cases")
    # (e) namespace declarations -> nsmap (order of the xmlns attributes on h:html)
    for _ in range(max(20, n_lru // 3)):
        toks = []
        for pfx, uri in rng.sample(c14_gen.NS_POOL, k=rng.randint(0, 4)):
            q = rng.choice(['"', "'", ""])
            toks.append(f"{pfx}={q}{uri}{q}")
        toks += rng.sample(["x", "=y", "a=b=c", "jr=http://other", "odk=u", toks[0] if toks else "k=v"], k=rng.randint(0, 2))
        rng.shuffle(toks)
        sv = Survey(name="data", namespaces=" ".join(toks))
        want = [[k, v] for k, v in sv.get_nsmap().items()]
        got = drv.call("proc.nsmap", tokens=toks)
        if got != want:
            ctx.mismatch("Process.nsmapOf vs Survey.get_nsmap (order and values of the namespace map)", {"tokens": toks}, want, got)
        ctx.count("model:nsmap_cases")
    # (g) clean_text_values: rows read by the conversion == rows left in the caller's dict; and cleaning them again
    from pyxform.xls2json import clean_text_values

    atoms = ["a", "b", " ", "  ", "\t", "’", "‘", "“", "”", "'", '"', "x y", "\u00a0", "é", "1", "\n"]
    for _ in range(max(30, n_lru // 3)):
        strip, add_row = rng.random() < 0.5, rng.random() < 0.5
        rows = [{k: "".join(rng.choice(atoms) for _ in range(rng.randint(0, 6))) for k in rng.sample(["name", "label", "hint", "x"], k=rng.randint(1, 4))}
                for _ in range(rng.randint(1, 3))]
        arg = [[[k, v] for k, v in r.items()] for r in rows]
        mine = copy.deepcopy(rows)
        once = [[[k, v] for k, v in r.items()] for r in clean_text_values("choices", mine, strip_whitespace=strip, add_row_number=add_row)]
        got = drv.call("proc.cleanSheet", rows=arg, strip=strip, addRow=add_row)
        if got != once:
            ctx.mismatch("Process.cleanSheet vs xls2json.clean_text_values (cells and __row position)", {"rows": arg, "strip": strip}, once, got)
        twice = [[[k, v] for k, v in r.items()] for r in clean_text_values("choices", mine, strip_whitespace=strip, add_row_number=add_row)]
        if twice != once:
            ctx.fail(Failure("same-object-clean", f"clean_text_values is not idempotent on {arg!r} (strip_whitespace={strip}): {once!r} then {twice!r}",
                             {"kind": "same-object-clean", "rows": arg, "strip": strip, "add_row": add_row}))
        ctx.count("model:clean_sheet_cases")
    # (f) itemsets.csv header without external_choices_header
    import csv
    import io
    import types

    from pyxform.utils import external_choices_to_csv

    for _ in range(max(20, n_lru // 3)):
        keys = ["list_name", "name", "label", "state", "zeta", "alpha", "k9", "m"]
        rows = [rng.sample(keys, k=rng.randint(1, 5)) for _ in range(rng.randint(1, 4))]
        wb = types.SimpleNamespace(external_choices=[{k: "v" for k in r} for r in rows], external_choices_header=None)
        text = external_choices_to_csv(workbook_dict=wb)
        want = next(csv.reader(io.StringIO(text)))
        got = drv.call("proc.itemsetsHeader", rows=rows)
        if got != want:
            ctx.mismatch("Process.itemsetsHeader (fallback) vs external_choices_to_csv header row", {"rows": rows}, want, got)
        ctx.count("model:itemsets_header_cases")


# --------------------------------------------------------------------------- explore / replay


N3_FORM = {
    "survey": [{"type": "integer", "name": "n", "label": "N"},
               {"type": "begin repeat", "name": "r", "label": "R", "control": {"jr:count": "${n} + 1"}},
               {"type": "text", "name": "t", "label": "T"}, {"type": "end repeat"}],
}


def matchers():
    """No open finding of C14 (fixed: N1 1948d14, N2 f88f509, F23 d7ea67c, N3 fec1934).  The directed N3 form stays
    in the same-object stream as a regression case."""
    return {}


def timed(ctx, name, t0):
    import time

    ctx.notes.setdefault("phase_seconds", {})[name] = round(time.time() - t0, 1)
    return time.time()


def explore(ctx, factor, bs):
    import time

    t0 = time.time()
    wd = Workdir()
    private_tmp = wd.sub("inproc-tmp")
    old_tmp = tempfile.tempdir
    tempfile.tempdir = str(private_tmp)
    try:
        n = ctx.pick(76, 240) * factor
        cases = c14_gen.batch(ctx.rng, n, big=not ctx.quick())
        ref = phase_seeds(ctx, wd, cases, ctx.pick(8, 64), ctx.pick(8, 32))
        t0 = timed(ctx, "seeds", t0)
        phase_first_use(ctx, wd, cases, ref, ctx.pick(32, 64), 8)
        t0 = timed(ctx, "first_use", t0)
        for c, r in zip(cases, ref):
            ctx.count("class:" + r[0])
            for f in c["feats"]:
                ctx.count("feature:" + f)
            ctx.record(c["form"], r[0] == "ok" and c["feats"] != ["plain"])
        # in-process sequential reference (this interpreter's own hash seed, after the batch above in
        # another order: one more history)
        seq = [c14_impl.observe(c["form"]) for c in cases]
        for i, (a, b) in enumerate(zip(ref, seq)):
            d = diff_fields(a, b)
            if d:
                f = Failure("hashseed", "harness interpreter vs fresh process: " + describe(a, b),
                            {"kind": "hashseed", "form": cases[i]["form"], "seeds": [ctx.notes["hashseeds"][0], None]},
                            extra={"diff": d, "a": short(a), "b": short(b), "feats": cases[i]["feats"],
                                   "msg_a": a[1] if a[0] != "ok" else "", "msg_b": b[1] if b[0] != "ok" else ""})
                ctx.fail(f)
        ok_idx = [i for i, r in enumerate(seq) if r[0] == "ok"]
        sub = [cases[i] for i in ok_idx][: ctx.pick(24, 120) * factor]
        sub_seq = [seq[i] for i in ok_idx][: len(sub)]
        t0 = timed(ctx, "sequential", t0)
        phase_cache_monitor(ctx, cases)
        t0 = timed(ctx, "cache_monitor", t0)
        phase_threads(ctx, sub, sub_seq, ctx.pick(4, 8), ctx.pick(2, 6))
        t0 = timed(ctx, "threads", t0)
        phase_schedule(ctx, cases, seq)
        t0 = timed(ctx, "schedule", t0)
        phase_build_serialise(ctx, cases, seq)
        t0 = timed(ctx, "build_serialise", t0)
        for i in ok_idx:
            phase_regen(ctx, cases[i], seq[i])
        for c in cases:
            phase_same_object(ctx, c)
        phase_same_object(ctx, {"form": copy.deepcopy(N3_FORM), "feats": ["directed:N3"]})   # open finding, every run
        t0 = timed(ctx, "regen_same_object", t0)
        gc.collect()
        left = sorted(os.listdir(private_tmp))
        if left:
            ctx.fail(Failure("tmp-left", f"files left in TMPDIR by in-process conversions: {left[:5]}",
                             {"kind": "tmp-left", "forms": [c["form"] for c in cases]}, extra={"left": left}))
        phase_model(ctx, ctx.pick(150, 1500) * factor)
        t0 = timed(ctx, "model", t0)
        ctx.notes["fragment"] = ("oracle: every generated form (no fragment restriction); model ties: 100% of the generated "
                                 "LRU key sequences / token streams / translation tables / pulldata subsets are inside the modelled fragment")
        ctx.notes["triaged_not_violations"] = {
            "F36": "get_nsmap appends the entities namespace to survey.namespaces on every xml() call; the XForm is unchanged "
                   "(theorem Process.nsmap_append_idem); counted as F36:namespaces_grew_without_effect",
            "N1, N2, F23": "fixed in the series (1948d14, f88f509, d7ea67c); no matcher any more",
            "or_other language set, missing-header set": "iterated sets that cannot reach the output today "
                   "(theorems orOther/missing_order_irrelevant; the latter rests on the regenerated required-header table)",
        }
    finally:
        tempfile.tempdir = old_tmp
        wd.close()


def replay(ctx, payload, bs):
    case = payload["case"]
    kind = case.get("kind")
    wd = Workdir()
    before = len(ctx.failures)
    try:
        if kind == "hashseed":
            s0, s1 = case["seeds"][0], case["seeds"][1]
            seeds = [s for s in (s0, s1) if s is not None] + [0, 1, 2, 3, 4, 5]
            rs = run_workers(wd, [(s, [case["form"]], [0], f"r{k}") for k, s in enumerate(seeds)])
            for s, r in zip(seeds[1:], rs[1:]):
                d = diff_fields(rs[0]["results"][0], r["results"][0])
                if d:
                    a, b = rs[0]["results"][0], r["results"][0]
                    ctx.fail(Failure("hashseed", describe(a, b), case,
                                     extra={"diff": d, "a": short(a), "b": short(b),
                                            "msg_a": a[1] if a[0] != "ok" else "", "msg_b": b[1] if b[0] != "ok" else ""}))
                    break
        elif kind == "history":
            i = case["index"]
            r = run_workers(wd, [(case["seed"], case["forms"], case["order"], "h0"), (case["seed"], [case["forms"][i]], [0], "h1")])
            d = diff_fields(r[0]["results"][i], r[1]["results"][0])
            if d:
                ctx.fail(Failure("history", describe(r[0]["results"][i], r[1]["results"][0]), case, extra={"diff": d}))
        elif kind == "threads":
            cases = [{"form": f, "feats": []} for f in case["forms"]]
            seq = [c14_impl.observe(c["form"]) for c in cases]
            phase_threads(ctx, cases, seq, case.get("n_threads", 4), 6)
            phase_schedule(ctx, [{"form": f, "feats": ["instance_label"]} for f in case["forms"]], seq)
        elif kind == "schedule":
            if "form" in case:
                c = {"form": case["form"], "feats": ["instance_label"]}
                phase_schedule(ctx, [c], [c14_impl.observe(case["form"])])
            else:
                SCHED_TEXTS.insert(0, case["text"])
                phase_schedule(ctx, [], [])
        elif kind == "build-serialise":
            forms = [case["form"], *case["others"]]
            cs = [{"form": f, "feats": [f"f{k}"]} for k, f in enumerate(forms)]
            phase_build_serialise(ctx, cs, [c14_impl.observe(f) for f in forms])
        elif kind == "first-use":
            cs = [{"form": f, "feats": [f"f{k}"]} for k, f in enumerate(case["forms"])]
            ctx.notes["hashseeds"] = [case.get("seed", 0)]
            alone = [run_worker(wd, case.get("seed", 0), [f], [0], f"fa{k}")["results"][0] for k, f in enumerate(case["forms"])]
            phase_first_use(ctx, wd, cs, alone, 64, case.get("threads", 8))
        elif kind == "regen":
            phase_regen(ctx, {"form": case["form"], "feats": []}, None)
        elif kind == "same-object":
            phase_same_object(ctx, {"form": case["form"], "feats": []})
        elif kind == "same-object-clean":
            from pyxform.xls2json import clean_text_values

            rows = [dict(r) for r in case["rows"]]
            once = copy.deepcopy(clean_text_values("choices", rows, strip_whitespace=case["strip"], add_row_number=case["add_row"]))
            twice = clean_text_values("choices", rows, strip_whitespace=case["strip"], add_row_number=case["add_row"])
            if list(map(dict, twice)) != list(map(dict, once)):
                ctx.fail(Failure("same-object-clean", "clean_text_values not idempotent", case))
        elif kind == "cache-hit":
            phase_cache_monitor(ctx, [{"form": f, "feats": []} for f in case["forms"]])
        elif kind == "tmp-left":
            tmp = wd.sub("t")
            old = tempfile.tempdir
            tempfile.tempdir = str(tmp)
            try:
                for f in case["forms"]:
                    c14_impl.observe(f)
            finally:
                tempfile.tempdir = old
            if os.listdir(tmp):
                ctx.fail(Failure("tmp-left", str(os.listdir(tmp)[:5]), case))
        else:
            raise vcore.Infra(f"unknown replay kind {kind}")
    finally:
        wd.close()
    return len(ctx.failures) == before and not ctx.mismatches


def main(argv):
    return vcore.run_check(PROP, explore, RULE, matchers=matchers(), replay=replay, argv=argv)
