"""
C03 — `${name}` references become XPaths that reach the named question's node.

Theorems: Pyxv/Proofs/C03.lean about the model `Pyxv.Refs` (`isParentARepeat`,
`shareSameRepeatParent`, `hasCommonRepeatParent`, `varRepl`/`refFor`, `_setup_xpath_dictionary`).
Tie: (i) the Lean functions against the Python functions called directly on the same trees
(Survey objects of the conversions), for every (referrer, target, flags) of every enumerated layout;
(ii) whole conversions: every emitted hole of every reference-bearing cell is compared with the model's
`refFor`.  Oracle (on the implementation's XForm only): every output string matches its source cell as a
template with holes; every hole parses as an absolute path / `[current()/](../)^k down` /
`instance('__last-saved')/abs` and *resolves from the referrer's node to the target's node* (Lean op
`refs.resolve`, the spec function of the theorems); relative when the target's innermost enclosing repeat
encloses the referrer; anchored with current() inside instance predicates; no `${` left; unknown and
ambiguous names rejected with an error naming the reference.
"""

from __future__ import annotations

import re

import impl
import refs_common as rc
import vcore
from vcore import Failure

PROP = "C03"
RULE = (
    "bounded-exhaustive layouts (common chain, referrer chain, target chain of groups/repeats; depth <= 3 quick / 4 "
    "thorough) x 4 name policies (neutral, string-prefix related, length aligned, container names reused by unreferenced "
    "elements elsewhere); every form carries referrers of "
    "kind question/group/repeat with every reference-bearing cell kind, each naming targets of kind "
    "question/group/repeat incl. all ancestors of the referrer and itself; plus random deeper trees with mixed "
    "expressions (several refs, indexed-repeat(), instance() predicates incl. nested ones, select_one_external filters, "
    "last-saved), re-used names, and unknown/ambiguous names; "
    "distinct by canonical hash of the form; non-trivial = at least one reference checked"
)

# --------------------------------------------------------------------------- forms


def _bool(names, op="!= ''"):
    return " and ".join(f"${{{n}}} {op}" for n in names)


def _concat(names):
    if len(names) == 1:
        return f"concat(${{{names[0]}}}, 'x')"
    return "concat(" + ", ".join(f"${{{n}}}" for n in names) + ")"


def _text(prefix, names):
    return prefix + " " + " , ".join(f"${{{n}}}" for n in names) + " ."


# NCNames with characters outside \\w: combining marks (Devanagari / Thai vowel signs and tone marks, a decomposed
# accent), U+00B7, next to precomposed and CJK names — all legal XML names that pyxform accepts
UNICODE_NAMES_SKIP = ()
UNICODE_NAMES = {
    "tq": "\u0928\u093e\u092e", "tg": "\u0e0a\u0e37\u0e48\u0e2d", "tr": "e\u0301cole", "cq": "a\u00b7b",
    "k1": "pr\u00e9nom", "c1": "\u540d\u524d", "t1": "\u0915\u093f\u0924\u093e\u092c", "cg": "n\u0303g",
    "k": "\u0e19\u0e49\u0e33", "cgq": "x\u0323y", "crq": "\u0627\u0633\u0652\u0645",
}


# names containing characters that are separators elsewhere in the code (`:` of text ids and itext keys, `.` and `-` of
# header / list handling): namespace-prefixed names need the `namespaces` setting
SEPARATOR_NAMES = {"cq": "ex:cq", "cg": "ex:cg", "cgq": "cg.q", "c1": "ex:c1", "c2": "c-2", "k1": "k.1", "k2": "ex:k2", "t1": "t-1",
                   "tq": "ex:tq", "tg": "t.g", "cr": "c-r", "crq": "ex:crq", "k": "k-", "kn": "ex:k.n-"}
NAMESPACES_SETTING = [{"namespaces": 'ex="http://example.com/ex"'}]


def rename_form(form, mapping):
    """rename elements everywhere: name cells and every `${…}` / `${last-saved#…}` occurrence"""
    def ref(m):
        return "${%s%s}" % (m.group(1) or "", mapping.get(m.group(2), m.group(2)))

    for row in form["survey"]:
        for k in list(row):
            v = row[k]
            if k == "name":
                row[k] = mapping.get(v, v)
            elif isinstance(v, str) and k != "type":
                row[k] = rc.REF_RE.sub(ref, v)
    return form


LITE_KEEP = {"cq": ("type", "name", "label", "relevant", "constraint", "default"),
             "drop": ("kl", "ki", "s", "ss", "sm", "sn", "dd", "ddt", "dgp", "dgt", "dgs", "dti", "cx", "cxq")}


def layout_form(common, rchain, tchain, policy, target_first=True, lite=False):
    """lite: the referrers keep one cell per call site (the full set of cell kinds is carried by the neutral policy)"""
    if lite:
        form = layout_form(common, rchain, tchain, policy, target_first)
        out, skipping = [], False
        for r in form["survey"]:
            if r.get("type") == "begin repeat" and r.get("name") == "cx":
                skipping = True
                continue
            if skipping:
                skipping = r.get("type") != "end repeat"
                continue
            if r.get("name") in LITE_KEEP["drop"] and not str(r.get("label", "")).startswith("again"):
                continue
            if r.get("name") == "cq":
                r = {k: v for k, v in r.items() if k in LITE_KEEP["cq"]}
            out.append(r)
        form["survey"] = out
        return form
    if policy == "unicode":
        return rename_form(layout_form(common, rchain, tchain, "neutral", target_first), UNICODE_NAMES)
    if policy == "separators":
        form = rename_form(layout_form(common, rchain, tchain, "neutral", target_first), SEPARATOR_NAMES)
        form["settings"] = NAMESPACES_SETTING
        return form
    kn, cn, tn = rc.names_for(policy, common, rchain, tchain)
    rows = []

    def begin(kind, name, **kw):
        rows.append({"type": f"begin {kind}", "name": name, "label": name.upper(), **kw})

    def end(kind):
        rows.append({"type": f"end {kind}"})

    reuse = policy == "reuse"
    # reuse: every container name is carried by a second, unreferenced element elsewhere in the form (names only
    # have to be unique among siblings), so ancestors cannot be named as targets there
    anc = [] if reuse else ["data"] + list(kn) + list(cn)
    targets = ["tq", "tg", "tr"]
    T = targets + anc

    def nested(names, op="and"):
        """an instance() predicate whose first reference sits in a nested [...] and the others after it"""
        inner = "instance('l')/root/item[name = ${%s}]/label" % names[0]
        rest = "".join(f" {op} label = ${{{n}}}" for n in names[1:])
        return f"name = {inner}{rest}"

    def target_side():
        for k, n in zip(tchain, tn):
            begin(k, n)
        rows.append({"type": "text", "name": "tq", "label": "TQ"})
        begin("group", "tg")
        rows.append({"type": "text", "name": "tgq", "label": "TGQ"})
        end("group")
        begin("repeat", "tr")
        rows.append({"type": "text", "name": "trq", "label": "TRQ"})
        end("repeat")
        for k in reversed(tchain):
            end(k)

    def referrer_side():
        for k, n in zip(rchain, cn):
            begin(k, n)
        rows.append({
            "type": "integer", "name": "cq",
            "label": _text("L", T), "hint": _text("H", T), "guidance_hint": _text("G", T),
            "relevant": _bool(T), "constraint": ". >= 0 and " + _bool(T + ["cq"], ">= 0"),
            "constraint_message": _text("CM", T), "required": _bool(T, "= 'y'"),
            "required_message": _text("RM", T), "read_only": _bool(T, "= 'ro'"),
            "default": _concat(T), "bind::custom": _concat(T), "body::custom": _concat(T),
        })
        for typ, nm, dflt in (("date", "dd", "${tq} - 1"), ("dateTime", "ddt", "now() - ${tq}"),
                              ("geopoint", "dgp", "${tq} - ${tg} - 2"), ("geotrace", "dgt", "if(${tq} - 1 > 0, ${tg}, ${tr})"),
                              ("geoshape", "dgs", "${tr} - ${tq}"), ("time", "dti", "1 - ${tq}")):
            rows.append({"type": typ, "name": nm, "label": nm.upper(), "default": dflt})
        rows.append({"type": "calculate", "name": "k", "calculation": _concat(T)})
        rows.append({"type": "calculate", "name": "kt", "calculation": _concat(T), "trigger": "${tq}"})
        rows.append({"type": "calculate", "name": "kl",
                     "calculation": "concat(" + ", ".join(f"${{last-saved#{n}}}" for n in T) + ") + "
                     + "instance('l')/root/item[" + " or ".join(f"name = ${{{n}}}" for n in T) + "]/label"})
        rows.append({"type": "calculate", "name": "ki",
                     "calculation": "indexed-repeat(${tq},\n  ${tr},\n  ${cq}) + ${tq} + indexed-repeat(${tgq}, ${tr}, 1)"})
        rows.append({"type": "calculate", "name": "kn",
                     "calculation": "instance('l')/root/item[" + nested(T) + "]/label"})
        rows.append({"type": "select_one l", "name": "s", "label": "S",
                     "choice_filter": " or ".join(f"name = ${{{n}}}" for n in T),
                     "parameters": "randomize=true, seed=${tq}"})
        rows.append({"type": "select_one l", "name": "ss", "label": "SS", "parameters": "randomize=true, seed=${tq} + ${cq}"})
        rows.append({"type": "select_multiple l", "name": "sm", "label": "SM",
                     "parameters": "randomize=true;seed=${cq}*31+${tq}" if len(T) % 2 else "randomize=true, seed=${tq}+1"})
        rows.append({"type": "select_one l", "name": "sn", "label": "SN", "choice_filter": nested(T, "or")})
        rows.append({"type": "select_one_external cities", "name": "sx", "label": "SX", "choice_filter": nested(T)})
        begin("group", "cg", relevant=_bool(T + ["cgq"]))
        rows[-1]["label"] = _text("GL", T + ["cgq"])
        rows.append({"type": "text", "name": "cgq", "label": "CGQ"})
        end("group")
        begin("repeat", "cr", relevant=_bool(T + ["crq"]), repeat_count="${tq}")
        rows[-1]["label"] = _text("RL", T + ["crq"])
        rows.append({"type": "text", "name": "crq", "label": "CRQ", "relevant": _bool(T + ([] if reuse else ["cr"]))})
        end("repeat")
        begin("repeat", "cx", repeat_count=_concat(T))
        rows.append({"type": "text", "name": "cxq", "label": "CXQ"})
        end("repeat")
        for k in reversed(rchain):
            end(k)

    def reuse_box():
        begin("group", "zz_names")
        for n in list(kn) + list(cn) + list(tn) + ["cg", "cr", "cx"]:
            rows.append({"type": "text", "name": n, "label": "again " + n})
        end("group")

    if reuse and target_first:
        reuse_box()
    for k, n in zip(common, kn):
        begin(k, n)
    if target_first:
        target_side()
        referrer_side()
    else:
        referrer_side()
        target_side()
    for k in reversed(common):
        end(k)
    if reuse and not target_first:
        reuse_box()
    return {
        "survey": rows,
        "choices": [{"list_name": "l", "name": "a", "label": "A"}, {"list_name": "l", "name": "b", "label": "B"}],
        "external_choices": [{"list_name": "cities", "name": "c1", "label": "C1"}],
    }


NAME_POOL = [
    "a", "b", "q1", "q2", "age", "r", "r2", "ra", "r2a", "rab", "abcde_r2", "fghij_ra", "g", "g1", "grp", "rep", "rep1",
    "t", "t1", "tt", "x", "xy", "xyz", "n0", "w", "v", "kid", "kids", "hh", "house", "z9", "y_", "lbl", "name_", "a_b",
    "a-b", "a.b", "S", "Sa", "\u0928\u093e\u092e", "\u0e0a\u0e37\u0e48\u0e2d", "e\u0301cole", "a\u00b7b", "pr\u00e9nom", "\u540d\u524d", "q", "qq", "r_cnt", "k", "k2", "m", "mm", "node", "item", "label_",
]


def random_form(rng, max_depth, nmax):
    """random tree of groups/repeats/questions with unique names; returns rows, element list"""
    names = rng.sample(NAME_POOL, len(NAME_POOL))
    rows, els = [], []  # els: (name, kind, row)

    def fill(depth, budget):
        n = rng.randint(1, 4)
        for _ in range(n):
            if not names or budget[0] <= 0:
                return
            budget[0] -= 1
            nm = names.pop()
            x = rng.random()
            if depth < max_depth and x < 0.45:
                kind = "repeat" if rng.random() < 0.6 else "group"
                row = {"type": f"begin {kind}", "name": nm, "label": nm.upper()}
                rows.append(row)
                els.append((nm, kind, row))
                fill(depth + 1, budget)
                # a container needs at least one child
                if rows[-1] is row and names:
                    q = names.pop()
                    r2 = {"type": "text", "name": q, "label": q.upper()}
                    rows.append(r2)
                    els.append((q, "q", r2))
                rows.append({"type": f"end {kind}"})
            else:
                typ = rng.choice(["text", "integer", "calculate", "select_one l", "text", "integer"])
                row = {"type": typ, "name": nm}
                if typ != "calculate":
                    row["label"] = nm.upper()
                else:
                    row["calculation"] = "1"
                rows.append(row)
                els.append((nm, "q", row))

    fill(1, [nmax])
    return rows, els


def random_expr(rng, els, text=False):
    qs = [e[0] for e in els if e[1] == "q"] or [els[0][0]]
    reps = [e[0] for e in els if e[1] == "repeat"]
    anyn = [e[0] for e in els]

    def atom():
        x = rng.random()
        if x < 0.45:
            return "${%s}" % rng.choice(anyn)
        if x < 0.55:
            return "${last-saved#%s}" % rng.choice(qs)
        if x < 0.75 and reps:
            idx = rng.choice(["1", "${%s}" % rng.choice(qs), "2"])
            sep = ",\n " if rng.random() < 0.3 and not text else ", "
            return ("indexed-repeat(${%s}" + sep + "${%s}" + sep + "%s)") % (rng.choice(qs), rng.choice(reps), idx)
        if x < 0.87:
            return "instance('l')/root/item[name = ${%s}]/label" % rng.choice(anyn)
        if x < 0.93 and not text:
            return "instance('l')/root/item[name = instance('l')/root/item[name = ${%s}]/label and label = ${%s}]/label" % (
                rng.choice(anyn), rng.choice(anyn))
        return rng.choice(["1", "'x'", "."])

    n = rng.randint(1, 4)
    atoms = [atom() for _ in range(n)]
    if not any("${" in a for a in atoms):
        atoms.append("${%s}" % rng.choice(anyn))
    if text:
        return "T " + " ; ".join(atoms) + " ."
    return rng.choice([" + ", " and ", " = "]).join(atoms) if rng.random() < 0.8 else "concat(" + ", ".join(atoms) + ")"


def decorate(rng, rows, els):
    """put random reference-bearing cells on random rows"""
    k = rng.randint(1, max(1, len(els) // 2))
    for nm, kind, row in rng.sample(els, min(k, len(els))):
        if kind == "q":
            cols = ["relevant", "constraint", "required", "read_only", "hint", "label", "default", "constraint_message"]
            if row["type"] == "calculate":
                cols = ["calculation", "relevant"]
            elif row["type"].startswith("select_one"):
                cols.append("choice_filter")
            else:
                cols.append("calculation")
        elif kind == "group":
            cols = ["relevant", "label"]
        else:
            cols = ["relevant", "label", "repeat_count"]
        for col in rng.sample(cols, rng.randint(1, min(3, len(cols)))):
            row[col] = random_expr(rng, els, text=col in ("label", "hint", "constraint_message"))
    return rows


def add_reused_names(rng, rows, els):
    """names that nobody references, carried a second time by questions in a fresh group (legal: names only have
    to be unique among siblings)"""
    referenced = set()
    for r in rows:
        for c, v in r.items():
            if isinstance(v, str) and c not in ("type", "name"):
                referenced.update(m.group(2) for m in rc.REF_RE.finditer(v))
    cand = [e[0] for e in els if e[0] not in referenced]
    if not cand:
        return rows
    pick = rng.sample(cand, min(len(cand), rng.randint(1, 3)))
    box = [{"type": "begin group", "name": "zz_box", "label": "Z"}] + [
        {"type": "text", "name": n, "label": "again"} for n in pick] + [{"type": "end group"}]
    return box + rows if rng.random() < 0.5 else rows + box


def code_ia_flag(src, start, end, name):
    """The indexed-repeat verdict of `_is_return_relative_path` (as repaired by afee63f): the call that contains the
    occurrence decides; True = absolute-by-design.  Calls without nested parentheses only (what is generated)."""
    for m in re.finditer(r"indexed-repeat\([^)]+\)", src):
        if start < m.start() or end > m.end():
            continue
        args = re.search(r"\b[^()]+\((.*)\)$", m.group(), re.S).group(1).split(",")
        idx = None
        for i, a in enumerate(args):
            if "${%s}" % name in a.strip():
                idx = i
        return not (idx is not None and idx not in (0, 1, 3, 5))
    return False


# --------------------------------------------------------------------------- oracle


def _fail(ctx, f: Failure):
    verdict = ctx.fail(f)
    ctx.count(f"oracle-failure:{verdict}:{f.kind}:{f.extra.get('cell', '')}")
    return verdict



def probes(form, xi: rc.XIndex):
    """(element, cell kind, source text, [(emitted string, n_outputs)], context path) for every
    reference-bearing cell the check knows how to locate"""
    els = rc.elements(form)
    out = []
    for e in els:
        row = e.row
        P = e.xpath()
        for col, src in row.items():
            if not isinstance(src, str) or "${" not in src:
                continue
            base = col.split("::")[0] if col.split("::")[0] in ("label", "hint", "guidance_hint", "constraint_message", "required_message") else col
            if base in rc.BIND_COLS:
                attr = rc.BIND_COLS[base]
                if base == "calculation" and row.get("trigger"):
                    # the calculation travels in the setvalue of the triggering question
                    got = [(v, 0) for (r, ev, v, _c) in xi.setvalues if r == P and ev == "xforms-value-changed" and v is not None]
                    tn = [m.group(2) for m in rc.REF_RE.finditer(row["trigger"])]
                    out.append((e, "trigger-value", src, got, P, {"__trigger": tn[0] if tn else None}))
                    continue
                got = [(b.get(attr), 0) for b in xi.binds.get(P, []) if b.get(attr) is not None]
                out.append((e, base, src, got, P))
            elif base in rc.MSG_COLS:
                lang = col.split("::", 1)[1] if "::" in col else None
                out.append((e, base, src, xi.msg_of(P, rc.MSG_COLS[base], lang), P))
            elif base in rc.TEXT_COLS:
                lang = col.split("::", 1)[1] if "::" in col else None
                out.append((e, base, src, xi.text_of(P, base, lang), P))
            elif base == "default":
                got = [(v, 0) for (r, ev, v, _c) in xi.setvalues if r == P and "odk-instance-first-load" in ev and v is not None]
                out.append((e, base, src, got, P))
            elif base == "body::custom":
                ctl = xi.controls.get(P)
                got = [(ctl.get("custom"), 0)] if ctl is not None and ctl.get("custom") is not None else []
                out.append((e, base, src, got, P))
            elif base == "choice_filter":
                ctl = xi.controls.get(P)
                its = ctl.find(rc.XF + "itemset") if ctl is not None else None
                got = []
                if its is not None:
                    ns = its.get("nodeset") or ""
                    m = re.search(r"instance\('[^']*'\)/root/item\[(.*)\]", ns, re.S)
                    if m:
                        got = [(m.group(1), 0)]
                elif ctl is not None and ctl.get("query"):
                    m = re.search(r"instance\('[^']*'\)/root/item\[(.*)\]", ctl.get("query"), re.S)
                    if m:
                        got = [(m.group(1), 0)]
                out.append((e, base, src, got, P))
            elif base == "parameters":
                # randomize seed: a reference or any expression over references (the last parameter of the cell)
                m = re.search(r"seed\s*=\s*(.*\$\{.*?)\s*$", src, re.S)
                ctl = xi.controls.get(P)
                its = ctl.find(rc.XF + "itemset") if ctl is not None else None
                if m and its is not None:
                    ns = (its.get("nodeset") or "").strip()
                    got = []
                    if ns.startswith("randomize(") and ns.endswith(")"):
                        depth, cut = 0, None
                        for i, ch in enumerate(ns):
                            if ch in "([":
                                depth += 1
                            elif ch in ")]":
                                depth -= 1
                            elif ch == "," and depth == 1:
                                cut = i
                        if cut is not None:
                            got = [(ns[cut + 1 : -1], 0)]
                    out.append((e, "seed", m.group(1), got, P))
            elif base == "repeat_count":
                rep = xi.repeats.get(P)
                cnt = rep.get(rc.JR + "count") if rep is not None else None
                if re.fullmatch(r"\$\{[^{}]*\}", src.strip()):
                    out.append((e, "repeat_count", src, [(cnt, 0)] if cnt is not None else [], P))
                else:
                    # generated <name>_count calculate, a sibling of the repeat; jr:count points at it
                    cp = "/" + "/".join(e.path[:-1] + [e.name + "_count"])
                    got = [(b.get("calculate"), 0) for b in xi.binds.get(cp, []) if b.get("calculate") is not None]
                    out.append((e, "repeat_count-expr", src, got, cp))
                    out.append((e, "repeat_count-ptr", "${%s_count}" % e.name, [(cnt, 0)] if cnt is not None else [], P,
                                {e.name + "_count": e.path[:-1] + [e.name + "_count"]}))
            elif base == "trigger":
                # the setvalue sits in the control of the triggering question; its ref is the absolute
                # path of this element ("trigger targets are absolute by design")
                tnames = [m.group(2) for m in rc.REF_RE.finditer(src)]
                got = []
                for (r, ev, _v, c) in xi.setvalues:
                    if ev == "xforms-value-changed" and r == P:
                        got.append(c)
                out.append((e, "trigger", src, got, P, {"names": tnames}))
    return els, out


HYPHEN_TYPES = ("date", "dateTime", "geopoint", "geotrace", "geoshape")


def minus_before_first_dynamic(row) -> bool:
    """finding F46's shape: a date/geo question whose default has a blank-surrounded minus before its first reference
    or function call (`default_is_dynamic` returns False at that token and never sees the reference)"""
    d = row.get("default")
    if not isinstance(d, str) or "${" not in d or (row.get("type") or "").strip() not in HYPHEN_TYPES:
        return False
    m = re.search(r"\$\{|[A-Za-z_][\w.-]*\(", d)
    return " - " in d[: m.start()] if m else False


def check_form(ctx, form, xform, model=None):
    """The oracle on one accepted conversion. Returns the list of observed holes (for correspondence)."""
    case = {"form": form}
    xi = rc.XIndex(xform)
    if "${" in xform:
        i = xform.index("${")
        # is every surviving token the raw default of an F46-shaped row?
        rest = xform
        for row in form["survey"]:
            if minus_before_first_dynamic(row):
                rest = rest.replace(row["default"], "")
        _fail(ctx, Failure("ref-token-survives", f"`${{` left in the output: …{xform[max(0,i-60):i+40]}…", case,
                           extra={"only_static_minus_defaults": "${" not in rest}))
    els, prs = probes(form, xi)
    ctx._c03_triggers = []
    byname = {}
    for e in els:
        byname.setdefault(e.name, []).append(e)
    holes = []  # (probe idx, ref info, hole, ctx path, target El)
    observed = []
    for pr in prs:
        e, cell, src, got, cpath = pr[:5]
        extra = pr[5] if len(pr) > 5 else {}
        ctx.count(f"cell:{cell}/referrer:{e.kind}")
        if cell == "trigger":
            # located by construction: a setvalue with ref = absolute path of the element inside the control of the trigger
            want = [byname[n][0].xpath() for n in extra["names"] if n in byname]
            if sorted(got) != sorted(want):
                _fail(ctx, Failure("trigger-setvalue", f"setvalue for {cpath} expected in controls {want}, found in {got}",
                                 case, extra={"cell": cell, "referrer": cpath}))
            if got:
                ctx._c03_triggers.append({"owner": cpath, "name": e.name, "ref": cpath})
            continue
        if not got:
            _fail(ctx, Failure("cell-not-found", f"{cell} of {cpath}: emitted string not found", case,
                             extra={"cell": cell, "referrer": cpath,
                                    "only_static_minus_defaults": cell == "default" and minus_before_first_dynamic(e.row)}))
            continue
        if cell in TEXT_CELLS and any(o.strip() != "-" for o, _n in got):
            # languages for which an untranslated cell has no text carry the "-" placeholder
            got = [(o, n_) for o, n_ in got if o.strip() != "-"]
        for out, _n in got:
            mt = rc.match_template(src, out)
            if mt is None:
                _fail(ctx, Failure("template-mismatch", f"{cell} of {cpath}: {out!r} is not {src!r} with its references replaced",
                                 case, extra={"cell": cell, "referrer": cpath, "src": src, "out": out}))
                continue
            for info, hole in mt:
                fl = rc.occurrence_flags(src, info["start"])
                if cell == "choice_filter":
                    fl["in_pred"] = True
                tpath = extra.get(info["name"]) if not info["name"].startswith("__") else None
                if tpath is None:
                    tl = byname.get(info["name"], [])
                    if len(tl) != 1:
                        _fail(ctx, Failure("accepted-bad-name", f"{cell} of {cpath}: ${{{info['name']}}} names {len(tl)} elements, conversion accepted",
                                         case, extra={"cell": cell}))
                        continue
                    t = tl[0]
                    tpath, tkinds = t.path, t.kinds
                    tkind = t.kind
                else:
                    tkinds = e.kinds[:-1] + ["q"]
                    tkind = "q"
                holes.append({"cell": cell, "src": src, "out": out, "info": info, "flags": fl, "hole": hole, "ctx": cpath,
                              "cpath": cpath.strip("/").split("/"), "ckinds": e.kinds if cpath == e.xpath() else e.kinds[:-1] + ["q"],
                              "ckind": e.kind, "tpath": tpath, "tkinds": tkinds, "tkind": tkind,
                              "trigger": byname[extra["__trigger"]][0].xpath() if extra.get("__trigger") in byname else None})
    if not holes:
        return holes
    res = ctx.driver.call("refs.resolve", items=[{"ctx": h["ctx"], "hole": h["hole"]} for h in holes])
    trg = [h for h in holes if h["trigger"]]
    if trg:
        for h, r in zip(trg, ctx.driver.call("refs.resolve", items=[{"ctx": h["trigger"], "hole": h["hole"]} for h in trg])):
            h["from_trigger"] = r["resolved"]
    for h, r in zip(holes, res):
        h["res"] = r
        want = "/" + "/".join(h["tpath"])
        cell = h["cell"]
        nm = h["info"]["name"]
        ex = {"cell": cell, "referrer": h["ctx"], "target": want, "hole": h["hole"], "src": h["src"], "flags": h["flags"],
              "last_saved": h["info"]["last_saved"], "start": h["info"]["start"], "form_kind": r["form"],
              "trigger": h["trigger"], "resolved_from_trigger": h.get("from_trigger")}
        ctx.count(f"hole:{r['form']}" + ("+current" if r.get("current") else ""))
        ctx.count(f"target:{h['tkind']}")
        if r["form"] == "bad":
            _fail(ctx, Failure("hole-malformed", f"{cell} of {h['ctx']}: ${{{nm}}} -> {h['hole']!r} is not a path", case, extra=ex))
            continue
        if want not in xi.instance_paths:
            _fail(ctx, Failure("target-not-in-instance", f"{want} not in the primary instance", case, extra=ex))
        if r["resolved"] != want:
            _fail(ctx, Failure("wrong-node", f"{cell} of {h['ctx']}: ${{{nm}}} -> {h['hole']!r} reaches {r['resolved']} instead of {want}",
                             case, extra=ex))
            continue
        if h["info"]["last_saved"] != (r["form"] == "lastsaved"):
            _fail(ctx, Failure("last-saved", f"{cell} of {h['ctx']}: ${{{'last-saved#' if h['info']['last_saved'] else ''}{nm}}} -> {h['hole']!r}",
                             case, extra=ex))
            continue
        if r["form"] == "lastsaved":
            continue
        # relative whenever the target's innermost enclosing repeat also encloses the referrer
        tr_ = None
        for i in range(len(h["tpath"]) - 2, -1, -1):
            if h["tkinds"][i] == "repeat":
                tr_ = h["tpath"][: i + 1]
                break
        enclosed = tr_ is not None and len(tr_) < len(h["cpath"]) and h["cpath"][: len(tr_)] == tr_
        h["enclosed"] = enclosed
        if h["trigger"]:
            tp = h["trigger"].strip("/").split("/")
            ex["enclosed_from_trigger"] = tr_ is not None and len(tr_) < len(tp) and tp[: len(tr_)] == tr_
        exempt = h["flags"]["ir_arg"] in (0, 1, 3, 5)
        if enclosed and not exempt and r["form"] != "rel":
            _fail(ctx, Failure("absolute-when-enclosed",
                             f"{cell} of {h['ctx']}: ${{{nm}}} -> {h['hole']!r} is absolute although the target's innermost repeat /{'/'.join(tr_)} encloses the referrer",
                             case, extra=ex))
        if r["form"] == "rel" and h["flags"]["in_pred"] and not r.get("current"):
            _fail(ctx, Failure("predicate-not-anchored", f"{cell} of {h['ctx']}: relative {h['hole']!r} inside an instance predicate lacks current()",
                             case, extra=ex))
    return holes


# --------------------------------------------------------------------------- correspondence


def survey_tree(el):
    """The implementation's own element tree (Question | Section objects) as the model's `El`."""
    from pyxform.question import Question
    from pyxform.section import Section

    kids = []
    if isinstance(el, Section):
        kids = [survey_tree(c) for c in el.children if isinstance(c, Question | Section)]
    kind = "rep" if el.type == "repeat" else ("group" if isinstance(el, Section) else "q")
    return {"k": kind, "n": el.name, "kids": kids}


def survey_elements(survey):
    from pyxform.question import Question
    from pyxform.section import Section

    return list(survey.iter_descendants(lambda i: isinstance(i, Question | Section)))


TEXT_CELLS = ("label", "hint", "guidance_hint", "constraint_message", "required_message")

FLAG_SHAPES = [
    # (text around the reference, model flags)
    ("${%s}", {}),
    ("${last-saved#%s}", {"ls": True}),
    ("indexed-repeat(${%s}, /x/y, 1)", {"ia": True}),
    ("indexed-repeat(/x/y/z, /x/y, ${%s})", {}),
    ("instance('l')/root/item[a = ${%s}]/label", {"ip": True}),
]


FIND_ATOMS = ["${", "}", "last-saved#", "a", "b1", "x.y", "\n", " ", "$", "{", "#", "${a}", "${last-saved#b}", "\u0928\u093e\u092e", "e\u0301", "+", "[", "]"]


def corr_find(ctx, texts):
    """`findRefs` / `refsClosed` of the model vs BRACKETED_TAG_REGEX of the implementation on the same strings"""
    from pyxform.utils import BRACKETED_TAG_REGEX

    res = ctx.driver.call("refs.find", texts=texts)
    for t, m in zip(texts, res):
        ctx.count("find:texts")
        impl_refs = [[g.group(1) is not None, g.group(2)] for g in BRACKETED_TAG_REGEX.finditer(t)]
        # every `${` of the text lies in the span of a match (it opens one, or was consumed by the lazy group)
        spans = [(g.start(), g.end()) for g in BRACKETED_TAG_REGEX.finditer(t)]
        impl_closed = all(any(a <= i < b for a, b in spans) for i in range(len(t)) if t.startswith("${", i))
        if impl_refs != m["refs"]:
            ctx.mismatch("BRACKETED_TAG_REGEX occurrences", {"text": t}, impl_refs, m["refs"])
        elif impl_closed != m["closed"]:
            ctx.mismatch("refsClosed", {"text": t}, impl_closed, m["closed"])


ALL_CELLS = ("seed", "relevant", "constraint", "required", "read_only", "calculation", "bind::custom", "body::custom", "default",
             "choice_filter", "repeat_count-expr", "trigger-value", "repeat_count", "repeat_count-ptr", "trigger",
             "label", "hint", "guidance_hint", "constraint_message", "required_message")
_CELL_FLAGS: dict = {}


def cell_flags(ctx, cell):
    """context kind and `use_current` / `reference_parent` of the cell kind: the model's table `Pyxv.Refs.cellFlags`
    (driver op refs.cellflags), which Proofs/C03Sites.lean pins to the call sites read from the Python AST on this run"""
    if not _CELL_FLAGS:
        for c, f in zip(ALL_CELLS, ctx.driver.call("refs.cellflags", cells=list(ALL_CELLS))):
            _CELL_FLAGS[c] = f
            ctx.notes.setdefault("cell-flags-from-model", {})[c] = {"ctx": f["ctx"], "uc": f["uc"], "rp": f["rp"], "sites": len(f["sites"])}
    if cell not in _CELL_FLAGS:
        _CELL_FLAGS[cell] = ctx.driver.call("refs.cellflags", cells=[cell])[0]
    return _CELL_FLAGS[cell]


FULL_CELLS = ("seed", "relevant", "constraint", "required", "read_only", "calculation", "bind::custom", "body::custom", "default",
              "choice_filter", "repeat_count-expr", "trigger-value")


def corr_insert(ctx, form, holes, tree):
    """whole emitted strings against the model's `insertXpathsText`, which gets the cell text alone (occurrence flags —
    indexed-repeat argument, instance predicate, last-saved — are computed in Lean)"""
    seen, items, outs = set(), [], []
    for h in holes:
        key = (h["cell"], h["ctx"], h["src"], h["out"])
        if h["cell"] not in FULL_CELLS or key in seen:
            continue
        seen.add(key)
        cf = cell_flags(ctx, h["cell"])
        items.append({"ctx": h["ctx"] if cf["ctx"] == "owner" else None, "uc": cf["uc"], "rp": cf["rp"], "text": h["src"]})
        outs.append(h)
    if not items:
        return
    # the same cells through `insertXpathsCell`: the model picks context and flags from the cell kind alone
    bycell = ctx.driver.call("refs.insertcell", tree=tree, items=[{"owner": h["ctx"], "cell": h["cell"], "text": h["src"]} for h in outs])
    for h, q, m, mc in zip(outs, items, ctx.driver.call("refs.insert", tree=tree, items=items), bycell):
        ctx.count(f"insert_xpaths-from-text:{m['out']}")
        if (m["out"] == "ok") != (mc["out"] == "ok") or (m["out"] == "ok" and m["text"] != mc["text"]):
            ctx.mismatch(f"insertXpathsCell of {h['cell']}", {"form": form, "query": q}, m.get("text", m["out"]), mc.get("text", mc["out"]))
        if m["out"] == "unsupported":
            continue
        # a cell with a line break: how the break reaches the attribute (cell cleaning, XML attribute-value normalisation)
        # is C06's subject; compare modulo whitespace runs
        norm = (lambda x: re.sub(r"\s+", " ", x)) if "\n" in h["src"] else (lambda x: x)
        if m["out"] != "ok" or (m["text"].strip() != h["out"].strip() if h["cell"] == "seed" else norm(m["text"]) != norm(h["out"])):
            ctx.mismatch(f"insert_xpaths of {h['cell']}", {"form": form, "query": q}, h["out"], m.get("text", m["out"]))


def corr_whole(ctx, form, holes, survey):
    """every hole of the conversion against the model's `refFor` on the implementation's tree"""
    corr_insert(ctx, form, holes, survey_tree(survey))
    trg = getattr(ctx, "_c03_triggers", [])
    if trg:
        # the `ref` of each trigger's setvalue (found at the absolute path of the calculated question) against the model,
        # which resolves `${name}` from the survey for this cell kind
        res = ctx.driver.call("refs.insertcell", tree=survey_tree(survey),
                              items=[{"owner": t["owner"], "cell": "trigger", "text": "${%s}" % t["name"]} for t in trg])
        for t, m in zip(trg, res):
            ctx.count(f"trigger-ref-from-model:{m['out']}")
            if m["out"] != "ok" or m["text"].strip() != t["ref"]:
                ctx.mismatch("trigger ref", {"form": form, "query": t}, t["ref"], m.get("text", m["out"]))
        ctx._c03_triggers = []
    srcs = sorted({h["src"] for h in holes})
    if srcs:
        corr_find(ctx, srcs)
    tree = survey_tree(survey)
    qs, hs = [], []
    for h in holes:
        ctx.count("fragment:modelled")
        q = {"ctx": h["ctx"], "name": h["info"]["name"],
             "ls": h["info"]["last_saved"],
             "ia": code_ia_flag(h["src"], h["info"]["start"], h["info"]["end"], h["info"]["name"]),
             "ip": h["flags"]["in_pred"] and h["cell"] != "choice_filter",
             "uc": cell_flags(ctx, h["cell"])["uc"], "rp": cell_flags(ctx, h["cell"])["rp"]}
        if h["cell"] not in TEXT_CELLS and h["cell"] != "choice_filter":
            # bind / attribute cells: the whole cell is the regex subject, so the model computes the flags itself
            q.update({"text": h["src"], "start": h["info"]["start"], "end": h["info"]["end"]})
        qs.append(q)
        hs.append(h)
    if not qs:
        return
    res = ctx.driver.call("refs.model", tree=tree, queries=qs)
    for h, q, m in zip(hs, qs, res):
        got = h["hole"]
        want = (m.get("text") or "").strip() if m["out"] == "ok" else m["out"]
        if got != want:
            ctx.mismatch(f"hole of {h['cell']}", {"form": form, "query": q}, got, want)


def corr_direct(ctx, form, survey, rng, npairs):
    """the Python functions called directly vs the Lean functions on the same tree"""
    import pyxform.survey as ps
    from pyxform.utils import BRACKETED_TAG_REGEX

    tree = survey_tree(survey)
    # the hypothesis `Valid` of relative_when_enclosed must hold of every tree the implementation accepted
    ctx.count("direct:Valid-checked")
    if not ctx.driver.call("refs.valid", tree=tree):
        ctx.mismatch("accepted survey does not satisfy Valid (hypothesis of relative_when_enclosed)", {"form": form}, "accepted", "not Valid")
    els = survey_elements(survey)
    pairs = [(c, t) for c in els for t in els]
    if len(pairs) > npairs:
        pairs = rng.sample(pairs, npairs)
    fq, fimpl = [], []
    mq, mimpl = [], []
    for c, t in pairs:
        cx, tx = c.get_xpath(), t.get_xpath()
        for rp in (False, True):
            fq.append({"x": tx, "c": cx, "rp": rp})
            steps, path = ps.share_same_repeat_parent(survey, tx, cx, rp)
            fimpl.append({"ipar_x": ps.is_parent_a_repeat(survey, tx), "ipar_c": ps.is_parent_a_repeat(survey, cx),
                          "ssrp": None if steps is None else [steps, path],
                          "related": c.has_common_repeat_parent(t)[0] != "Unrelated"})
        shape, fl = FLAG_SHAPES[rng.randrange(len(FLAG_SHAPES))]
        for context in (c, None) if rng.random() < 0.1 else (c,):
            for uc, rp in ((False, False), (True, False), (False, True)):
                text = shape % t.name
                m = BRACKETED_TAG_REGEX.search(text)
                q = {"ctx": context.get_xpath() if context is not None else None, "name": t.name, "uc": uc, "rp": rp, **fl}
                try:
                    out = {"out": "ok", "text": survey._var_repl_function(m, context, uc, rp)}
                except ps.PyXFormError as e:
                    msg = str(e)
                    out = {"out": "unknown" if "no survey element" in msg else "ambiguous" if "multiple survey elements" in msg else "error:" + msg,
                           "name": t.name if f"${{{'last-saved#' if fl.get('ls') else ''}{t.name}}}" in msg and f"'{t.name}'" in msg else None}
                except Exception as e:  # noqa: BLE001 - a crash of the implementation is an observation, not harness trouble
                    out = {"out": "crash:" + type(e).__name__}
                mq.append(q)
                mimpl.append(out)
    fres = ctx.driver.call("refs.funcs", tree=tree, pairs=fq)
    for q, a, b in zip(fq, fimpl, fres):
        ctx.count("direct:functions")
        if a != b:
            ctx.mismatch("is_parent_a_repeat/share_same_repeat_parent/has_common_repeat_parent", {"form": form, "query": q}, a, b)
    mres = ctx.driver.call("refs.model", tree=tree, queries=mq)
    for q, a, b in zip(mq, mimpl, mres):
        ctx.count(f"direct:_var_repl_function:{a['out']}")
        if a != b:
            ctx.mismatch("_var_repl_function", {"form": form, "query": q}, a, b)


# --------------------------------------------------------------------------- cases


def form_case(ctx, form, expect=None, tag="layout", direct=0):
    """expect: None (should convert) | {"error": name}"""
    r = impl.run(form, want_survey=True)
    ctx.count(f"{tag}:impl:{r['class']}")
    case = {"form": form}
    nontrivial = False
    if expect and "error" in expect:
        nm = expect["error"]
        if r["ok"]:
            _fail(ctx, Failure("bad-name-accepted", f"reference to {expect['why']} name {nm!r} accepted", case, extra=expect))
        elif r["class"] != "pyxform":
            _fail(ctx, Failure("bad-name-crash", f"reference to {expect['why']} name {nm!r}: {r['msg'][:200]}", case, extra=expect))
        elif nm not in r["msg"]:
            _fail(ctx, Failure("bad-name-not-named", f"error does not name {nm!r}: {r['msg'][:200]}", case, extra=expect))
        nontrivial = True
    elif r["ok"]:
        holes = check_form(ctx, form, r["xform"])
        nontrivial = bool(holes)
        corr_whole(ctx, form, holes, r["_survey"])
        if direct:
            corr_direct(ctx, form, r["_survey"], ctx.rng, direct)
    else:
        _fail(ctx, Failure("valid-form-rejected", f"{r['class']}: {r['msg'][:300]}", case))
    ctx.record(case, nontrivial)


def rows_tree(form):
    """the model's `El` tree straight from the rows (used where the implementation gives no Survey)"""
    root = {"k": "group", "n": rc.root_name(form), "kids": []}
    stack = [root]
    for row in form["survey"]:
        t = (row.get("type") or "").strip()
        m = re.match(r"^(begin|end)[ _](group|repeat)$", t)
        if m and m.group(1) == "end":
            stack.pop()
            continue
        node = {"k": {"group": "group", "repeat": "rep"}[m.group(2)] if m else "q", "n": row["name"], "kids": []}
        stack[-1]["kids"].append(node)
        if m:
            stack.append(node)
    return root


def bad_name_case(ctx, form, els):
    """mutate one reference into an unknown name, or duplicate a referenced name elsewhere in the tree"""
    import copy

    rng = ctx.rng
    form = copy.deepcopy(form)
    cells = [(r, c) for r in form["survey"] for c, v in r.items() if isinstance(v, str) and "${" in v and c not in ("type", "name")]
    if not cells:
        return
    row, col = rng.choice(cells)
    refs = list(rc.REF_RE.finditer(row[col]))
    m = rng.choice(refs)
    if rng.random() < 0.5:
        why, nm = "unknown", "zz_nope"
        row[col] = row[col][: m.start(2)] + nm + row[col][m.end(2):]
    else:
        why, nm = "ambiguous", m.group(2)
        # 1..4 further elements of that name (2..5 occurrences in all), each in a group of its own so that siblings
        # stay unique; before and/or after the tree
        extra = rng.randint(1, 4)
        ctx.count(f"badname:occurrences:{extra + 1}")
        for i in range(extra):
            box = [{"type": "begin group", "name": f"zz_dupbox{i}", "label": "D"}, {"type": "text", "name": nm, "label": "D"},
                   {"type": "end group"}]
            form["survey"] = box + form["survey"] if rng.random() < 0.3 else form["survey"] + box
    expect = {"error": nm, "why": why}
    r = impl.run(form)
    ctx.count(f"badname:{why}:impl:{r['class']}")
    case = {"form": form}
    if r["ok"]:
        _fail(ctx, Failure("bad-name-accepted", f"reference to {why} name {nm!r} accepted", case, extra={"expect": expect}))
    elif r["class"] != "pyxform":
        _fail(ctx, Failure("bad-name-crash", f"reference to {why} name {nm!r}: {r['msg'][:200]}", case, extra={"expect": expect}))
    elif f"'{nm}'" not in r["msg"] or ("no survey element" if why == "unknown" else "multiple survey elements") not in r["msg"]:
        _fail(ctx, Failure("bad-name-not-named", f"error does not name {why} {nm!r}: {r['msg'][:200]}", case, extra={"expect": expect}))
    # the model on the same tree
    ref_el = [e for e in rc.elements(form) if e.row is row]
    mres = ctx.driver.call("refs.model", tree=rows_tree(form), queries=[{"ctx": ref_el[0].xpath() if ref_el else None, "name": nm}])[0]
    if mres["out"] != why:
        ctx.mismatch("unknown/ambiguous name", {"form": form, "name": nm}, why if not r["ok"] else "ok", mres)
    ctx.record(case, True)


def shared_text_form(chain, tlevel, variant, names="plain"):
    """The SAME text-with-reference on referrers at every depth of a chain of groups/repeats (and one outside), in
    cells whose text travels through itext: translated label/hint, label with media, hint with guidance, constraint /
    required messages.  Each referrer needs its own path to the target."""
    rows = []

    qn = (lambda i: f"q{i}") if names == "plain" else (lambda i: ("ex:q%d", "q.%d", "q-%d")[i % 3] % i)
    cn = (lambda i: f"c{i}") if names == "plain" else (lambda i: ("ex:c%d", "c.%d", "ex:c-%d")[i % 3] % i)

    def referrer(i):
        r = {"type": "text", "name": qn(i)}
        if variant == "translated":
            r.update({"label::en": "Value ${t} here", "label::fr": "Valeur ${t} ici", "hint::en": "Hint ${t} .", "hint::fr": "Aide ${t} .",
                      "constraint": ". != 'x'", "constraint_message": "Bad ${t} !", "required": "yes", "required_message": "Need ${t} !"})
        else:
            r.update({"label": "Pic ${t} shown", "image": "a.png", "hint": "H ${t} .", "guidance_hint": "G ${t} .",
                      "constraint": ". != 'x'", "constraint_message::en": "Bad ${t} !", "constraint_message::fr": "Mal ${t} !"})
        return r

    def target():
        return {"type": "text", "name": "t", "label": "T"}

    rows.append(referrer(0))
    if tlevel == 0:
        rows.append(target())
    for i, kind in enumerate(chain):
        row = {"type": f"begin {kind}", "name": cn(i + 1)}
        if variant == "translated":
            row.update({"label::en": "Box ${t} .", "label::fr": "Boite ${t} ."})
        else:
            row.update({"label": "Box ${t} .", "image": "b.png"})
        rows.append(row)
        if tlevel == i + 1:
            rows.append(target())
        rows.append(referrer(i + 1))
    for kind in reversed(chain):
        rows.append({"type": f"end {kind}"})
    form = {"survey": rows}
    if names != "plain":
        form["settings"] = NAMESPACES_SETTING
    return form


def explore(ctx, factor, bs):
    import time
    _t = [('start', time.time())]
    depth = ctx.pick(3, 4)
    n = 0
    for common, rchain, tchain in rc.layouts(depth):
        for policy in ("neutral", "prefix", "aligned", "reuse"):
            if policy in ("prefix", "aligned") and not (rchain and tchain if ctx.quick() else rchain or tchain):
                continue  # these two relate the names of the two side chains
            n += 1
            form = layout_form(common, rchain, tchain, policy, target_first=(n % 2 == 0),
                               lite=ctx.quick() and policy != "neutral")
            ctx.count(f"policy:{policy}")
            ctx.count(f"depth:{len(common) + max(len(rchain), len(tchain))}")
            form_case(ctx, form, direct=(ctx.pick(12, 100) if policy == "neutral" else ctx.pick(5, 100)) * factor)
        if len(common) + max(len(rchain), len(tchain)) <= ctx.pick(2, 3):
            n += 1
            ctx.count("policy:unicode")
            form_case(ctx, layout_form(common, rchain, tchain, "unicode", target_first=(n % 2 == 0)), direct=ctx.pick(10, 40) * factor)
            n += 1
            ctx.count("policy:separators")
            form_case(ctx, layout_form(common, rchain, tchain, "separators", target_first=(n % 2 == 0)), direct=ctx.pick(5, 40) * factor)
    _t.append(('0', time.time()))
    # a name carried by k = 2..6 elements in different groups/repeats, and one reference to it per cell kind
    for k in range(2, 7):
        for col, val in (("calculation", "${site} + 1"), ("relevant", "${site} != ''"), ("label", "L ${site}"),
                         ("default", "${last-saved#site}"), ("constraint", "instance('l')/root/item[name = ${site}]/label")):
            rows = []
            for i in range(k):
                kind = "repeat" if i % 2 else "group"
                rows += [{"type": f"begin {kind}", "name": f"visit{i}", "label": "V"}, {"type": "text", "name": "site", "label": "S"},
                         {"type": f"end {kind}"}]
            ref = {"type": "calculate" if col == "calculation" else "text", "name": "refq", "label": "R", col: val}
            rows.insert(ctx.rng.randrange(len(rows) // 3 + 1) * 3, ref)
            form = {"survey": rows, "choices": [{"list_name": "l", "name": "a", "label": "A"}]}
            r = impl.run(form)
            ctx.count(f"occurrences:{k}:impl:{r['class']}")
            case = {"form": form}
            expect = {"error": "site", "why": "ambiguous"}
            if r["ok"]:
                _fail(ctx, Failure("bad-name-accepted", f"${{site}} accepted although {k} elements are called site", case, extra={"expect": expect}))
            elif r["class"] != "pyxform" or "'site'" not in r["msg"] or "multiple survey elements" not in r["msg"]:
                _fail(ctx, Failure("bad-name-not-named", f"{k} elements called site: {r['msg'][:200]}", case, extra={"expect": expect}))
            mres = ctx.driver.call("refs.model", tree=rows_tree(form), queries=[{"ctx": "/data/refq", "name": "site"}])[0]
            if mres["out"] != "ambiguous":
                ctx.mismatch("ambiguous name", case, "ambiguous", mres)
            ctx.record(case, True)
    _t.append(('1', time.time()))
    # the same itext-carried text with a reference on referrers at different depths
    import itertools
    for ln in range(1, ctx.pick(3, 4) + 1):
        for chain in itertools.product(rc.KINDS, repeat=ln):
            for tlevel in range(ln + 1):
                for variant in ("translated", "media"):
                    ctx.count(f"shared-text:{variant}")
                    form_case(ctx, shared_text_form(chain, tlevel, variant), tag="shared-text")
                    form_case(ctx, shared_text_form(chain, tlevel, variant, names="separators"), tag="shared-text-separators")
    _t.append(('2', time.time()))
    # finding F46's shape: minus before the first reference in a date/geo default (and the same default on other types)
    for typ in HYPHEN_TYPES + ("integer", "text"):
        for dflt in ("1 - ${a}", "2020-01-01 - ${a}", "${a} - 1", "-1 - ${a}"):
            form = {"survey": [{"type": "begin repeat", "name": "R", "label": "R"}, {"type": "integer", "name": "a", "label": "A"},
                               {"type": typ, "name": "q", "label": "Q", "default": dflt}, {"type": "end repeat"}]}
            ctx.count(f"typed-default:{typ}")
            form_case(ctx, form, tag="typed-default")
    _t.append(('3', time.time()))
    # the reference regex on adversarial strings (unclosed braces, nested openers, newlines, last-saved prefixes)
    texts = ["".join(ctx.rng.choice(FIND_ATOMS) for _ in range(ctx.rng.randint(1, 8))) for _ in range(ctx.pick(400, 5000) * factor)]
    corr_find(ctx, texts)
    _t.append(('4', time.time()))
    # random deeper trees, mixed expressions
    nrand = ctx.pick(250, 6000) * factor
    for i in range(nrand):
        rows, els = random_form(ctx.rng, ctx.rng.choice([3, 5, ctx.pick(6, 8)]), ctx.rng.choice([6, 12, 25]))
        if not els:
            continue
        decorate(ctx.rng, rows, els)
        if ctx.rng.random() < 0.4:
            rows = add_reused_names(ctx.rng, rows, els)
            ctx.count("random:with-reused-names")
        form = {"survey": rows, "choices": [{"list_name": "l", "name": "a", "label": "A"}, {"list_name": "l", "name": "b", "label": "B"}]}
        form_case(ctx, form, tag="random", direct=10 if i % 5 == 0 else 0)
        # a name that does not exist / exists twice
        if i % 3 == 0:
            bad_name_case(ctx, form, els)
    _t.append(('end', time.time()))
    ctx.notes["stream_seconds"] = {"layouts": round(_t[1][1] - _t[0][1], 1), "occurrences": round(_t[2][1] - _t[1][1], 1),
                                   "shared-text": round(_t[3][1] - _t[2][1], 1), "typed-defaults": round(_t[4][1] - _t[3][1], 1),
                                   "regex-strings": round(_t[5][1] - _t[4][1], 1), "random": round(_t[6][1] - _t[5][1], 1)}
    ctx.notes["exhaustive_substream"] = f"all layouts (common, referrer chain, target chain) of groups/repeats with depth <= {depth}: {n} forms"


def replay(ctx, payload, bs):
    before = len(ctx.failures), len(ctx.mismatches)
    form_case(ctx, payload["case"]["form"], payload.get("extra", {}).get("expect"), direct=40)
    return (len(ctx.failures), len(ctx.mismatches)) == before


MATCHERS = {}


def main(argv):
    return vcore.run_check(PROP, explore, RULE, matchers=MATCHERS, replay=replay, argv=argv)
