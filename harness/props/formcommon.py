"""Shared by C02 / C04 / C17: one generated form through the implementation and the Lean form model."""

from __future__ import annotations

import re

import formobs
import gen
import impl
from vcore import Failure


def model_call(ctx, form, root="data"):
    rows = [formobs.canon_cells(x) for x in form["survey"]]
    lists = sorted({x.get("list_name", x.get("list name", "")) for x in form.get("choices", [])})
    settings = formobs.canon_cells(form["settings"][0]) if form.get("settings") else []
    for k, v in settings:
        if k == "name":
            root = v
    return ctx.driver.call("form.model", rows=rows, lists=lists, settings=settings, root=root)


def err_matches(model_err: dict, msg: str) -> bool:
    """Does the implementation's error message locate what the model's error predicts?"""
    k = model_err["kind"]
    if k in ("row", "unmatchedEnd"):
        if model_err.get("what") in ("list not in choices",):
            return f"[row : {model_err['row']}]" in msg or "choices sheet" in msg
        return f"[row : {model_err['row']}]" in msg
    if k == "unmatchedBegin":
        return "Unmatched begin" in msg and model_err["name"] in msg
    if k in ("dupSibling",):
        return model_err["name"] in msg.lower()
    if k == "dupSection":
        return model_err["name"] in msg
    if k == "ambiguousRef":
        return "multiple survey elements" in msg and model_err["name"] in msg
    if k == "unknownType":
        return "Unknown question type" in msg
    return True


def structure_form(rng, tier_big=False, **kw):
    """Forms that stress structure: deep nesting, helper-name clashes, or_other, count helpers."""
    k = dict(
        langs=rng.choice([[], [], ["en"]]),
        p_settings=0.0,
        p_default=0.0,
        n=(1, 30 if tier_big else 14),
        max_depth=rng.choice([2, 3, 5, 8 if tier_big else 5]),
        p_group=rng.choice([0.1, 0.25]),
        p_repeat=rng.choice([0.1, 0.25]),
        p_select=0.25,
        p_logic=0.3,
        p_repeat_count=0.5,
    )
    k.update(kw)
    g = gen.FormGen(rng, **k)
    form = g.form()
    # or_other spellings on some selects
    for row in form["survey"]:
        t = row.get("type", "")
        if t.startswith(("select_one ", "select_multiple ")) and rng.random() < 0.25 and "choice_filter" not in row:
            row["type"] = t + rng.choice([" or_other", " or other", " or specify other"])
    return form
