"""
C02 — model, instance and body agree: every nodeset/ref names one existing node.

Theorems: Pyxv/Proofs/C02.lean (`refs_resolve`, `siblings_unique`, `ambiguous_rejected`, `instance_is_tree`;
`refs_resolve_n` / `siblings_unique_n` / `refs_resolve_tl` for the numbered, table-list-aware pipeline
`TableList.formOutT`) and Pyxv/Proofs/C02Setvalues.lean (`setvalue_refs_resolve`, `trigger_refs_resolve`).
Tie: `TableList.formOutT` is run by the driver (`controls.model`) on every generated form and its observation
(instance name tree with template marks, bind nodesets, body refs) must equal the implementation's; the
oracle (closure of every nodeset/ref incl. setvalue/action refs, sibling uniqueness, one bind per node) is
evaluated by the Lean function `resolves` on the implementation's own instance and refs (op `form.closed`).
Row-level `flat` groups: Pyxv/Model/FormFlat.lean + FormFlatInst.lean, theorems in Pyxv/Proofs/C02Flat.lean
(`refs_resolve_flat`, `siblings_unique_flat`, `flat_clash_rejected`, `bindPathsFL_eq_lift`, …) and C02FlatInst.lean
(`instKidsF_eq_lift`, `flat_instance_walk`, `refs_resolve_flat_walk`, `walkOut_eq`); tie: ops `flat.model` / `flat.walk`
on the `flat_form` stream (accept/reject, instance tree, bind nodesets, body refs).
"""

from __future__ import annotations

import formobs
import impl
import vcore
from props import c02_history, formcommon
from vcore import Failure

PROP = "C02"
RULE = (
    "generated forms (1-14 rows quick / 1-30 thorough, nesting depth up to 5 / 8, groups, repeats with "
    "count helpers, selects with or_other, name pool with prefix-related / case-variant / helper-like names, "
    "dynamic defaults, triggers); plus sheets with row-level flat groups at any depth (nested in each other, in plain "
    "groups, beside repeats; small name pool so names clash only through a flat group) compared with the flat-aware "
    "model; distinct by canonical hash of the form; non-trivial = accepted by the "
    "converter and containing at least one group or repeat"
)


def oracle(ctx, form, obs):
    """Closure and uniqueness on the implementation's output."""
    paths = obs["binds"] + obs["body"] + obs["setvalues"]
    v = ctx.driver.call("form.closed", instance=obs["instance_attrs"], paths=paths)
    if not v["ok"]:
        ctx.fail(Failure("dangling-ref", f"nodeset/ref without instance node: {v['bad'][:3]}", {"form": form},
                         extra={"bad": v["bad"]}))
    if len(set(obs["binds"])) != len(obs["binds"]):
        dup = sorted({b for b in obs["binds"] if obs["binds"].count(b) > 1})
        ctx.fail(Failure("duplicate-bind", f"more than one bind for {dup[:3]}", {"form": form}))

    def sibs(node):
        names = [k["n"] for k in node["k"] if not k["t"] and not k["n"].startswith("@")]
        if len(set(names)) != len(names):
            ctx.fail(Failure("duplicate-sibling", f"instance siblings not unique under {node['n']}: {names}", {"form": form}))
        for k in node["k"]:
            sibs(k)

    sibs(obs["instance"])
    # a repeat is rendered as <group ref=P><repeat nodeset=P>: that pair shares its path by design
    for cls in (lambda t: t not in ("group", "repeat"), lambda t: t == "group", lambda t: t == "repeat"):
        ctl_refs = [r for t, r in obs["ctl"] if cls(t)]
        if len(set(ctl_refs)) != len(ctl_refs):
            dup = sorted({b for b in ctl_refs if ctl_refs.count(b) > 1})
            ctx.fail(Failure("duplicate-control-ref", f"two body controls share the ref {dup[:3]}", {"form": form}))
    for p_ in paths:
        if not p_.startswith("/"):
            ctx.fail(Failure("relative-ref", f"nodeset/ref is not an absolute path: {p_!r}", {"form": form}))
            break


def form_case(ctx, form):
    r = impl.run(form)
    m = formcommon.model_call(ctx, form, op="controls.model")
    if m["outcome"] == "unsupported":
        ctx.count("unsupported: " + m.get("why", "?"))
    ctx.count(f"impl:{r['class']}/model:{m['outcome']}")
    nontrivial = False
    if r["ok"]:
        obs = formobs.observe(r["xform"])
        oracle(ctx, form, obs)
        nontrivial = any(x.get("type", "").startswith("begin") for x in form["survey"])
        if m["outcome"] == "ok":
            if not formobs.nt_eq(obs["instance"], m["instance"]):
                ctx.mismatch("instance tree", form, formobs.nt_str(obs["instance"]), formobs.nt_str(m["instance"]))
            if sorted(obs["binds"]) != sorted(m["binds"]):
                ctx.mismatch("bind nodesets", form, obs["binds"], m["binds"])
            if obs["body"] != m["body"]:
                ctx.mismatch("body refs", form, obs["body"], m["body"])
        elif m["outcome"] == "error":
            ctx.mismatch("model rejects, implementation accepts", form, "ok", m["err"])
            if m["err"].get("kind") in ("dupSibling", "dupSection", "ambiguousRef"):
                # names that the validation must keep unambiguous were accepted
                ctx.fail(Failure("accepted-clash", f"a sheet with clashing names was converted: {m['err']}", {"form": form}))
    elif r["class"] == "pyxform" and m["outcome"] == "ok":
        ctx.mismatch("implementation rejects, model accepts", form, r["msg"][:300], "ok")
    ctx.record({"form": form}, nontrivial)


TRUTHY = ("yes", "true", "1", "true()", "y")


def flat_with_repeat(form) -> bool:
    """Does the sheet mark a group `flat` that sits inside a repeat or contains one?"""
    rows = form.get("survey", []) if isinstance(form, dict) else []
    stack = []   # [kind, flat?]
    hit = False
    for r in rows:
        t = str(r.get("type", "")).strip().lower().replace("_", " ")
        if t.startswith("begin"):
            kind = "repeat" if "repeat" in t else "group"
            flat = kind == "group" and str(r.get("flat", "")).strip().lower() in TRUTHY
            if flat and any(k == "repeat" for k, _ in stack):
                hit = True
            if kind == "repeat" and any(f for _, f in stack):
                hit = True
            stack.append([kind, flat])
        elif t.startswith("end") and stack:
            stack.pop()
    return hit


def match_flat_in_repeat(failure) -> bool:
    form = (failure.case or {}).get("form", {})
    return failure.kind in ("duplicate-sibling", "dangling-ref", "duplicate-bind", "duplicate-control-ref") and flat_with_repeat(form)


FLAT_IN_REPEAT = {"survey": [
    {"type": "begin repeat", "name": "t", "label": "T"},
    {"type": "text", "name": "q2", "label": "Q"},
    {"type": "begin group", "name": "q2", "label": "G", "flat": "true"},
    {"type": "text", "name": "u", "label": "U"},
    {"type": "end group"},
    {"type": "end repeat"},
]}


def include_run(ctx, main, inc):
    """Build main + included section with builder.create_survey(sections=…) and evaluate the oracle."""
    from types import SimpleNamespace

    from pyxform.builder import create_survey
    from pyxform.xls2json import workbook_to_json
    from pyxform.xls2json_backends import get_xlsform

    def section(form, name):
        return workbook_to_json(workbook_dict=get_xlsform(xlsform=impl.wb_dict(form)), form_name=name, fallback_form_name=name)

    form = {"include": {"main": main, "address": inc}}

    def run():
        survey = create_survey(name_of_main_section="contact",
                               sections={"contact": section(main, "contact"), "address": section(inc, "address")})
        return SimpleNamespace(xform=survey.to_xml(validate=False, pretty_print=False), warnings=[], itemsets=None)

    r = impl.classify_call(run)
    ctx.count("include-impl:" + r["class"])
    if r["class"] == "internal":
        ctx.fail(Failure("include-crash", f"{r.get('exc')} at {r.get('site')}: {r.get('msg', '')[:200]}", {"form": form}))
    elif r["ok"]:
        oracle(ctx, form, formobs.observe(r["xform"]))
    ctx.record({"form": form}, r["ok"])


def include_case(ctx, rng):
    """A form assembled from several sections with `include` rows: the same section included under 1..3
    groups / repeats of the main form.  Outside the Lean fragment: oracle only."""
    kinds = [("text", {}), ("integer", {}), ("calculate", {"calculation": "1 + 1"}), ("text", {"hint": "h", "label": ""}),
             ("select_one yn", {}), ("decimal", {"required": "yes"})]
    inc_rows = []
    for i, (t, extra) in enumerate(rng.sample(kinds, rng.randint(1, 4))):
        r = {"type": t, "name": f"inc{i}", "label": f"Inc {i}"}
        r.update(extra)
        inc_rows.append({k: v for k, v in r.items() if v != ""})
    if rng.random() < 0.4:
        inc_rows = [{"type": "begin group", "name": "incg", "label": "G"}] + inc_rows + [{"type": "end group"}]
    choices = [{"list_name": "yn", "name": "y", "label": "Yes"}, {"list_name": "yn", "name": "n", "label": "No"}]
    inc = {"survey": inc_rows, "choices": choices, "settings": [{"omit_instanceID": "yes"}]}
    main_rows = [{"type": "text", "name": "person", "label": "Name"}]
    n_inc = rng.randint(1, 3)
    for j in range(n_inc):
        sec = rng.choice(["group", "group", "repeat"])
        main_rows += [{"type": f"begin {sec}", "name": f"host{j}", "label": f"Host {j}"},
                      {"type": "include", "name": "address"}, {"type": f"end {sec}"}]
    ctx.count(f"include:{n_inc}")
    include_run(ctx, {"survey": main_rows, "choices": choices}, inc)


def flat_model_call(ctx, form, root="data", op="flat.model"):
    """`FormFlat.formOutFlat` (op `flat.model`) on the rows as they are, `flat` cells included."""
    rows = [formobs.canon_cells(x) for x in form["survey"]]
    lists = sorted({x.get("list_name", "") for x in form.get("choices", [])})
    settings = formobs.canon_cells(form["settings"][0]) if form.get("settings") else []
    for k, v in settings:
        if k == "name":
            root = v
    return ctx.driver.call(op, rows=rows, lists=lists, settings=settings, root=root)


def flat_case(ctx, form):
    """Correspondence of the flat-aware model (`Pyxv.FormFlat`, theorems `refs_resolve_flat`,
    `siblings_unique_flat`) with the implementation: accept / reject, instance name tree, bind nodesets, body
    refs; plus the closure / uniqueness oracle on the implementation's output."""
    r = impl.run(form)
    m = flat_model_call(ctx, form)
    ctx.count(f"flat-impl:{r['class']}/model:{m['outcome']}")
    if m["outcome"] == "unsupported":
        ctx.count("flat-unsupported: " + m.get("why", "?"))
    if r["class"] == "internal":
        ctx.fail(Failure("flat-crash", f"{r.get('exc')} at {r.get('site')}: {r.get('msg', '')[:200]}", {"form": form}))
    elif r["ok"]:
        obs = formobs.observe(r["xform"])
        oracle(ctx, form, obs)
        if m["outcome"] == "ok":
            if not m["closed"]:
                ctx.mismatch("flat: model output not closed", form, "-", m)
            if not formobs.nt_eq(obs["instance"], m["instance"]):
                ctx.mismatch("flat: instance tree", form, formobs.nt_str(obs["instance"]), formobs.nt_str(m["instance"]))
            if sorted(obs["binds"]) != sorted(m["binds"]):
                ctx.mismatch("flat: bind nodesets", form, obs["binds"], m["binds"])
            if obs["body"] != m["body"]:
                ctx.mismatch("flat: body refs", form, obs["body"], m["body"])
        elif m["outcome"] == "unsupported" and "repeat" in m.get("why", ""):
            # outside the guard of the theorems (flat x repeat, the open finding): the code-shaped instance walk
            # (`instKidsF` / `arrF` / `tmplKidsF`) is still compared with the implementation's instance
            w = flat_model_call(ctx, form, op="flat.walk")
            ctx.count("flat-walk-unguarded:" + w["outcome"])
            if w["outcome"] == "ok" and not formobs.nt_eq(obs["instance"], w["instance"]):
                ctx.mismatch("flat: unguarded instance walk", form, formobs.nt_str(obs["instance"]), formobs.nt_str(w["instance"]))
        elif m["outcome"] == "error":
            ctx.mismatch("flat: model rejects, implementation accepts", form, "ok", m["err"])
            if "dupSibling" in m["err"] or "dupSection" in m["err"]:
                ctx.fail(Failure("accepted-clash", f"a sheet with names clashing through a flat group was converted: {m['err']}",
                                 {"form": form}))
    elif r["class"] == "pyxform" and m["outcome"] == "ok":
        ctx.mismatch("flat: implementation rejects, model accepts", form, r["msg"][:300], "ok")
    ctx.record({"form": form}, r["ok"] and m["outcome"] == "ok")


FLAT_Q = [("text", {}), ("integer", {}), ("note", {}), ("calculate", {"calculation": "1 + 1"}), ("select_one yn", {}),
          ("decimal", {"required": "yes"}), ("text", {"relevant": "1 = 1"}), ("select_multiple yn", {})]


def flat_form(rng, big=False):
    """A sheet with flat groups at any depth: nested in each other, in plain groups, beside (and, rarely, inside or
    around) repeats; a small name pool so that names clash — or not — only through a flat group."""
    pool = ["a", "b", "c", "A", "g", "f", "meta", "x_1"]
    uniq = [0]
    p_rep_mix = 0.15
    rows = []

    def name(kind):
        if rng.random() < (0.55 if kind == "q" else 0.2):
            return rng.choice(pool)
        uniq[0] += 1
        return f"{kind}{uniq[0]}"

    def block(depth, budget, in_flat, in_rep):
        n = rng.randint(1, 4)
        for _ in range(n):
            if budget[0] <= 0:
                return
            budget[0] -= 1
            x = rng.random()
            if depth < (7 if big else 5) and x < 0.42:
                sec = "group"
                flat = False
                if rng.random() < 0.25:
                    sec = "repeat"
                    if in_flat and rng.random() > p_rep_mix:
                        sec = "group"
                if sec == "group" and rng.random() < 0.55:
                    flat = not in_rep or rng.random() < p_rep_mix
                row = {"type": f"begin {sec}", "name": name("s"), "label": "S"}
                if rng.random() < 0.15:
                    row.pop("label")
                if rng.random() < 0.2:
                    row["relevant"] = "1 = 1"
                if flat:
                    row["flat"] = rng.choice(["yes", "true", "1", "no", "x"])
                rows.append(row)
                mark = len(rows)
                block(depth + 1, budget, in_flat or flat, in_rep or sec == "repeat")
                if len(rows) == mark and rng.random() < 0.93:
                    # an empty section is rejected (Section.validate); keep that case rare
                    rows.append({"type": "text", "name": name("q"), "label": "Q"})
                rows.append({"type": f"end {sec}"})
            else:
                t, extra = rng.choice(FLAT_Q)
                row = {"type": t, "name": name("q"), "label": "Q"}
                row.update(extra)
                if t == "calculate":
                    row.pop("label")
                rows.append(row)

    block(0, [rng.randint(2, 26 if big else 14)], False, False)
    form = {"survey": rows, "choices": [{"list_name": "yn", "name": "y", "label": "Yes"}, {"list_name": "yn", "name": "n", "label": "No"}]}
    x = rng.random()
    if x < 0.2:
        form["settings"] = [{"omit_instanceID": "yes"}]
    elif x < 0.3:
        form["settings"] = [{"instance_name": "concat('a', 'b')"}]
    elif x < 0.4:
        form["settings"] = [{"name": rng.choice(["root", "g", "f"])}]
    return form


ATTR_COLS = ["body::ref", "body::nodeset", "bind::nodeset", "action::ref", "control::ref", "control::nodeset"]
ATTR_MSG = __import__("re").compile(r"Invalid (bind|body|action) attribute for '([^']*)': '([^']*)' is set by pyxform\.")


def attr_form(rng, big=False):
    """A flat-group sheet (`flat_form`) whose questions, groups (flat and not) and repeats carry user-supplied
    `body::ref` / `body::nodeset` / `bind::nodeset` / `action::ref` cells, plus (sometimes) a question whose type has
    an action (`background-audio`, `start-geopoint`)."""
    form = flat_form(rng, big=big)
    rows = form["survey"]
    if rng.random() < 0.3:
        rows.insert(rng.randint(0, len(rows)) if rng.random() < 0.3 else 0,
                    {"type": rng.choice(["background-audio", "start-geopoint"]), "name": "act1"})
    cands = [r for r in rows if not r["type"].startswith("end")]
    # one spelling of the body columns per sheet (both spellings of one column on a sheet is a header error)
    spell = rng.choice(["body::", "body::", "control::"])
    all_cols = [c for c in ATTR_COLS if c.startswith(spell) or not c.startswith(("body::", "control::"))]
    for r in rng.sample(cands, min(len(cands), rng.choice([1, 1, 1, 2, 3]))):
        kind = "section" if r["type"].startswith("begin") else ("action" if r["name"] == "act1" else "question")
        cols = [c for c in all_cols if not (c == "action::ref" and kind == "question")]
        if kind == "action" and rng.random() < 0.6:
            cols = ["action::ref"]
        if kind == "section" and "flat" in r and rng.random() < 0.5:
            cols = ["bind::nodeset", spell + "ref"]
        if rng.random() < 0.55:
            # a placement that the code ignores or passes through (the sheet stays convertible)
            if kind == "section" and "repeat" in r["type"]:
                cols = ["action::ref"]
            elif kind == "section" and "flat" not in r:
                cols = [spell + "ref", spell + "nodeset", "action::ref"]
            elif kind == "question":
                cols = [spell + "nodeset"]
        for col in rng.sample(cols, min(len(cols), rng.choice([1, 1, 2]))):
            if col.replace("control::", "body::") in {c.replace("control::", "body::") for c in r}:
                continue
            r[col] = rng.choice(["/data/zzz", "zzz", "/data/" + r["name"], "."])
    return form


def attr_case(ctx, form):
    """Correspondence of `Pyxv.FormAttrs.formOutAttrs` (op `attrs.model`; theorems `attrs_refs_resolve`,
    `attrs_columns_inert`, `row_refs_generated`) with the implementation on sheets carrying the reserved reference
    columns: accept / which element and attribute is refused / instance tree, bind nodesets, body refs; plus the oracle."""
    r = impl.run(form)
    m = flat_model_call(ctx, form, op="attrs.model")
    ctx.count(f"attrs-impl:{r['class']}/model:{m['outcome']}")
    for x in form["survey"]:
        for c in x:
            if "::" in c and c.replace("control::", "body::") in ("body::ref", "body::nodeset", "bind::nodeset", "action::ref"):
                sec = x["type"].split()[-1] if x["type"].startswith("begin") else "question"
                ctx.count(f"attrs-col:{c.replace('control::', 'body::')}@{sec}{'(flat)' if 'flat' in x else ''}")
    if m["outcome"] == "unsupported":
        ctx.count("attrs-unsupported: " + m.get("why", "?"))
    if r["class"] == "internal":
        if m["outcome"] != "unsupported":
            ctx.fail(Failure("attrs-crash", f"{r.get('exc')} at {r.get('site')}: {r.get('msg', '')[:200]}", {"form": form}))
    elif r["ok"]:
        obs = formobs.observe(r["xform"])
        oracle(ctx, form, obs)
        if m["outcome"] == "ok":
            if not m["closed"]:
                ctx.mismatch("attrs: model output not closed", form, "-", m)
            if not formobs.nt_eq(obs["instance"], m["instance"]):
                ctx.mismatch("attrs: instance tree", form, formobs.nt_str(obs["instance"]), formobs.nt_str(m["instance"]))
            if sorted(obs["binds"]) != sorted(m["binds"]):
                ctx.mismatch("attrs: bind nodesets", form, obs["binds"], m["binds"])
            if obs["body"] != m["body"]:
                ctx.mismatch("attrs: body refs", form, obs["body"], m["body"])
            attr_rows(ctx, form, r["xform"], m)
        elif m["outcome"] == "attr":
            ctx.mismatch("attrs: model refuses a user-supplied reference attribute, implementation accepts", form, "ok", m["err"])
            ctx.fail(Failure("accepted-user-ref", f"a user-supplied reference attribute was accepted: {m['name']} {m['err']}",
                             {"form": form}))
        elif m["outcome"] == "error":
            ctx.mismatch("attrs: model rejects, implementation accepts", form, "ok", m["err"])
    elif r["class"] == "pyxform":
        hit = ATTR_MSG.search(r["msg"])
        if m["outcome"] == "ok":
            ctx.mismatch("attrs: implementation rejects, model accepts", form, r["msg"][:300], "ok")
        elif m["outcome"] == "attr":
            got = {"dict": hit.group(1), "name": hit.group(2), "attr": hit.group(3)} if hit else None
            want = [{"dict": o["err"]["dict"], "name": o["name"], "attr": o["err"]["attr"]} for o in m["offenders"]]
            if got not in want:
                ctx.mismatch("attrs: refused element / attribute", form, r["msg"][:300], want)
        elif m["outcome"] == "error" and hit:
            ctx.mismatch("attrs: implementation refuses an attribute, model has a structural error", form, r["msg"][:300], m["err"])
    ctx.record({"form": form, "attrs": True}, r["ok"] and m["outcome"] == "ok")


def attr_rows(ctx, form, xform, m):
    """Element level (`emitQuestionCtl` / `emitGroup` / `emitRepeat`, op `attrs.row`): the attribute list of the body
    element of each row that carries a reserved column equals the model's, for the path the model generated."""
    from lxml import etree
    names = [x.get("name") for x in form["survey"]]
    root = etree.fromstring(xform.encode())
    body = [el for el in root.iter() if isinstance(el.tag, str) and "ref" in el.attrib or "nodeset" in el.attrib]
    lists = sorted({x.get("list_name", "") for x in form.get("choices", [])})
    for x in form["survey"]:
        if not any(c.replace("control::", "body::") in ("body::ref", "body::nodeset") for c in x):
            continue
        if names.count(x["name"]) != 1 or x["type"].startswith("select"):
            continue
        flat = x["type"].startswith("begin") and "flat" in x
        if flat:
            continue  # no ref on the element: nothing to find it by
        paths = [p for p in m["body"] if p.rsplit("/", 1)[-1] == x["name"]]
        if not paths:
            continue
        path = paths[0]
        key = "nodeset" if x["type"].startswith("begin repeat") else "ref"
        els = [el for el in body if formobs.local(el.tag) not in ("bind", "setvalue", "label", "hint", "output", "itemset")
               and el.get(key) == path and (key == "nodeset" or formobs.local(el.tag) != "group" or not x["type"].startswith("begin repeat"))]
        els = [el for el in els if el.getparent() is not None and formobs.local(el.getparent().tag) != "model"
               and not any(formobs.local(a.tag) == "model" for a in el.iterancestors())]
        if len(els) != 1:
            ctx.count("attrs-row: element not identified")
            continue
        w = ctx.driver.call("attrs.row", row=formobs.canon_cells(x), lists=lists, path=path)
        if w["outcome"] != "ok":
            ctx.mismatch("attrs: row emission refused on an accepted sheet", form, "ok", w)
            continue
        want = [a for a in w["ctl"][-1] if a[0] in ("ref", "nodeset")]
        got = [[k, v] for k, v in els[0].attrib.items() if k in ("ref", "nodeset")]
        ctx.count("attrs-row: compared")
        if sorted(got) != sorted(want):
            ctx.mismatch("attrs: ref / nodeset attributes of the element", form, got, want)


def explore(ctx, factor, bs):
    rng = ctx.rng
    form_case(ctx, FLAT_IN_REPEAT)  # directed case of the open finding C02-flat-group-in-repeat
    # process history: convert → re-parent one element of the Survey → regenerate (cached paths, c02_history.py)
    c02_history.explore(ctx, oracle, lambda r: formcommon.structure_form(r, tier_big=not ctx.quick()), factor)
    for _ in range(ctx.pick(40, 600) * factor):
        include_case(ctx, rng)
    # row-level `flat` groups: correspondence with the flat-aware model (`flat.model`) + oracle
    for _ in range(ctx.pick(400, 5000) * factor):
        flat_case(ctx, flat_form(rng, big=not ctx.quick()))
    # user-supplied body::ref / body::nodeset / bind::nodeset / action::ref on questions, groups (flat and not), repeats
    for _ in range(ctx.pick(400, 5000) * factor):
        attr_case(ctx, attr_form(rng, big=not ctx.quick()))
    n = ctx.pick(1200, 30000) * factor
    for i in range(n):
        big = not ctx.quick()
        kw = {}
        if rng.random() < 0.3:
            kw = dict(p_default=0.4, p_settings=0.3)
        form = formcommon.structure_form(rng, tier_big=big, **kw)
        if rng.random() < 0.25:
            # features outside the Lean fragment (the model answers `unsupported`): the closure /
            # uniqueness oracle is still evaluated on the implementation's output
            form = formcommon.add_extras(rng, form)
            ctx.count("extras")
        if rng.random() < 0.2:
            # sibling name clashes at any depth: must be rejected, never converted to ambiguous paths
            clash = formcommon.inject_clash(rng, form)
            if clash is not None:
                form = clash
                ctx.count("name_clash")
        if rng.random() < 0.12:
            # clashes among generated meta children (several audit rows at any depth) and inside bodyless groups
            mc = formcommon.inject_meta_clash(rng, form)
            if mc is not None:
                form = mc
                ctx.count("meta_clash")
        form_case(ctx, form)


def replay(ctx, payload, bs):
    before = len(ctx.failures), len(ctx.mismatches)
    if "history" in payload["case"]:
        c02_history.replay_case(ctx, oracle, payload["case"])
        return (len(ctx.failures), len(ctx.mismatches)) == before
    form = payload["case"]["form"]
    if "include" in form:
        include_run(ctx, form["include"]["main"], form["include"]["address"])
    elif payload["case"].get("attrs"):
        attr_case(ctx, form)
    else:
        form_case(ctx, form)
        if any("flat" in x for x in form.get("survey", [])):
            flat_case(ctx, form)
    return (len(ctx.failures), len(ctx.mismatches)) == before


def main(argv):
    return vcore.run_check(PROP, explore, RULE, matchers={"C02-flat-group-in-repeat": match_flat_in_repeat}, replay=replay, argv=argv)
