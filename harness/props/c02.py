"""
C02 — model, instance and body agree: every nodeset/ref names one existing node.

Theorems: Pyxv/Proofs/C02.lean (`refs_resolve`, `siblings_unique`, `ambiguous_rejected`, `instance_is_tree`;
`refs_resolve_n` / `siblings_unique_n` / `refs_resolve_tl` for the numbered, table-list-aware pipeline
`TableList.formOutT`) and Pyxv/Proofs/C02Setvalues.lean (`setvalue_refs_resolve`, `trigger_refs_resolve`).
Tie: `TableList.formOutT` is run by the driver (`controls.model`) on every generated form and its observation
(instance name tree with template marks, bind nodesets, body refs) must equal the implementation's; the
oracle (closure of every nodeset/ref incl. setvalue/action refs, sibling uniqueness, one bind per node) is
evaluated by the Lean function `resolves` on the implementation's own instance and refs (op `form.closed`).
Row-level `flat` groups: Pyxv/Model/FormFlat.lean + FormFlatInst.lean, theorems in Pyxv/Proofs/C02Flat.lean
(`refs_resolve_flat`, `siblings_unique_flat`, `flat_clash_rejected`, `bindPathsFL_eq_lift`, …) and C02FlatInst.lean
(`instKidsF_eq_lift`, `flat_instance_walk`, `refs_resolve_flat_walk`, `walkOut_eq`); tie: ops `flat.model` / `flat.walk`
on the `flat_form` stream (accept/reject, instance tree, bind nodesets, body refs).
"""

from __future__ import annotations

import formobs
import impl
import vcore
from props import c02_history, formcommon
from vcore import Failure

PROP = "C02"
RULE = (
    "generated forms (1-14 rows quick / 1-30 thorough, nesting depth up to 5 / 8, groups, repeats with "
    "count helpers, selects with or_other, name pool with prefix-related / case-variant / helper-like names, "
    "dynamic defaults, triggers); plus sheets with row-level flat groups at any depth (nested in each other, in plain "
    "groups, beside repeats; small name pool so names clash only through a flat group) compared with the flat-aware "
    "model; distinct by canonical hash of the form; non-trivial = accepted by the "
    "converter and containing at least one group or repeat"
)


def oracle(ctx, form, obs):
    """Closure and uniqueness on the implementation's output."""
    paths = obs["binds"] + obs["body"] + obs["setvalues"]
    v = ctx.driver.call("form.closed", instance=obs["instance_attrs"], paths=paths)
    if not v["ok"]:
        ctx.fail(Failure("dangling-ref", f"nodeset/ref without instance node: {v['bad'][:3]}", {"form": form},
                         extra={"bad": v["bad"]}))
    if len(set(obs["binds"])) != len(obs["binds"]):
        dup = sorted({b for b in obs["binds"] if obs["binds"].count(b) > 1})
        ctx.fail(Failure("duplicate-bind", f"more than one bind for {dup[:3]}", {"form": form}))

    def sibs(node):
        names = [k["n"] for k in node["k"] if not k["t"] and not k["n"].startswith("@")]
        if len(set(names)) != len(names):
            ctx.fail(Failure("duplicate-sibling", f"instance siblings not unique under {node['n']}: {names}", {"form": form}))
        for k in node["k"]:
            sibs(k)

    sibs(obs["instance"])
    # a repeat is rendered as <group ref=P><repeat nodeset=P>: that pair shares its path by design
    for cls in (lambda t: t not in ("group", "repeat"), lambda t: t == "group", lambda t: t == "repeat"):
        ctl_refs = [r for t, r in obs["ctl"] if cls(t)]
        if len(set(ctl_refs)) != len(ctl_refs):
            dup = sorted({b for b in ctl_refs if ctl_refs.count(b) > 1})
            ctx.fail(Failure("duplicate-control-ref", f"two body controls share the ref {dup[:3]}", {"form": form}))
    for p_ in paths:
        if not p_.startswith("/"):
            ctx.fail(Failure("relative-ref", f"nodeset/ref is not an absolute path: {p_!r}", {"form": form}))
            break


def form_case(ctx, form):
    r = impl.run(form)
    m = formcommon.model_call(ctx, form, op="controls.model")
    if m["outcome"] == "unsupported":
        ctx.count("unsupported: " + m.get("why", "?"))
    ctx.count(f"impl:{r['class']}/model:{m['outcome']}")
    nontrivial = False
    if r["ok"]:
        obs = formobs.observe(r["xform"])
        oracle(ctx, form, obs)
        nontrivial = any(x.get("type", "").startswith("begin") for x in form["survey"])
        if m["outcome"] == "ok":
            if not formobs.nt_eq(obs["instance"], m["instance"]):
                ctx.mismatch("instance tree", form, formobs.nt_str(obs["instance"]), formobs.nt_str(m["instance"]))
            if sorted(obs["binds"]) != sorted(m["binds"]):
                ctx.mismatch("bind nodesets", form, obs["binds"], m["binds"])
            if obs["body"] != m["body"]:
                ctx.mismatch("body refs", form, obs["body"], m["body"])
        elif m["outcome"] == "error":
            ctx.mismatch("model rejects, implementation accepts", form, "ok", m["err"])
            if m["err"].get("kind") in ("dupSibling", "dupSection", "ambiguousRef"):
                # names that the validation must keep unambiguous were accepted
                ctx.fail(Failure("accepted-clash", f"a sheet with clashing names was converted: {m['err']}", {"form": form}))
    elif r["class"] == "pyxform" and m["outcome"] == "ok":
        ctx.mismatch("implementation rejects, model accepts", form, r["msg"][:300], "ok")
    ctx.record({"form": form}, nontrivial)


TRUTHY = ("yes", "true", "1", "true()", "y")


def flat_with_repeat(form) -> bool:
    """Does the sheet mark a group `flat` that sits inside a repeat or contains one?"""
    rows = form.get("survey", []) if isinstance(form, dict) else []
    stack = []   # [kind, flat?]
    hit = False
    for r in rows:
        t = str(r.get("type", "")).strip().lower().replace("_", " ")
        if t.startswith("begin"):
            kind = "repeat" if "repeat" in t else "group"
            flat = kind == "group" and str(r.get("flat", "")).strip().lower() in TRUTHY
            if flat and any(k == "repeat" for k, _ in stack):
                hit = True
            if kind == "repeat" and any(f for _, f in stack):
                hit = True
            stack.append([kind, flat])
        elif t.startswith("end") and stack:
            stack.pop()
    return hit


def match_flat_in_repeat(failure) -> bool:
    form = (failure.case or {}).get("form", {})
    return failure.kind in ("duplicate-sibling", "dangling-ref", "duplicate-bind", "duplicate-control-ref") and flat_with_repeat(form)


FLAT_IN_REPEAT = {"survey": [
    {"type": "begin repeat", "name": "t", "label": "T"},
    {"type": "text", "name": "q2", "label": "Q"},
    {"type": "begin group", "name": "q2", "label": "G", "flat": "true"},
    {"type": "text", "name": "u", "label": "U"},
    {"type": "end group"},
    {"type": "end repeat"},
]}


def include_run(ctx, main, inc):
    """Build main + included section with builder.create_survey(sections=…) and evaluate the oracle."""
    from types import SimpleNamespace

    from pyxform.builder import create_survey
    from pyxform.xls2json import workbook_to_json
    from pyxform.xls2json_backends import get_xlsform

    def section(form, name):
        return workbook_to_json(workbook_dict=get_xlsform(xlsform=impl.wb_dict(form)), form_name=name, fallback_form_name=name)

    form = {"include": {"main": main, "address": inc}}

    def run():
        survey = create_survey(name_of_main_section="contact",
                               sections={"contact": section(main, "contact"), "address": section(inc, "address")})
        return SimpleNamespace(xform=survey.to_xml(validate=False, pretty_print=False), warnings=[], itemsets=None)

    r = impl.classify_call(run)
    ctx.count("include-impl:" + r["class"])
    if r["class"] == "internal":
        ctx.fail(Failure("include-crash", f"{r.get('exc')} at {r.get('site')}: {r.get('msg', '')[:200]}", {"form": form}))
    elif r["ok"]:
        oracle(ctx, form, formobs.observe(r["xform"]))
    ctx.record({"form": form}, r["ok"])


def include_case(ctx, rng):
    """A form assembled from several sections with `include` rows: the same section included under 1..3
    groups / repeats of the main form.  Outside the Lean fragment: oracle only."""
    kinds = [("text", {}), ("integer", {}), ("calculate", {"calculation": "1 + 1"}), ("text", {"hint": "h", "label": ""}),
             ("select_one yn", {}), ("decimal", {"required": "yes"})]
    inc_rows = []
    for i, (t, extra) in enumerate(rng.sample(kinds, rng.randint(1, 4))):
        r = {"type": t, "name": f"inc{i}", "label": f"Inc {i}"}
        r.update(extra)
        inc_rows.append({k: v for k, v in r.items() if v != ""})
    if rng.random() < 0.4:
        inc_rows = [{"type": "begin group", "name": "incg", "label": "G"}] + inc_rows + [{"type": "end group"}]
    choices = [{"list_name": "yn", "name": "y", "label": "Yes"}, {"list_name": "yn", "name": "n", "label": "No"}]
    inc = {"survey": inc_rows, "choices": choices, "settings": [{"omit_instanceID": "yes"}]}
    main_rows = [{"type": "text", "name": "person", "label": "Name"}]
    n_inc = rng.randint(1, 3)
    for j in range(n_inc):
        sec = rng.choice(["group", "group", "repeat"])
        main_rows += [{"type": f"begin {sec}", "name": f"host{j}", "label": f"Host {j}"},
                      {"type": "include", "name": "address"}, {"type": f"end {sec}"}]
    ctx.count(f"include:{n_inc}")
    include_run(ctx, {"survey": main_rows, "choices": choices}, inc)


def flat_model_call(ctx, form, root="data", op="flat.model"):
    """`FormFlat.formOutFlat` (op `flat.model`) on the rows as they are, `flat` cells included."""
    rows = [formobs.canon_cells(x) for x in form["survey"]]
    lists = sorted({x.get("list_name", "") for x in form.get("choices", [])})
    settings = formobs.canon_cells(form["settings"][0]) if form.get("settings") else []
    for k, v in settings:
        if k == "name":
            root = v
    return ctx.driver.call(op, rows=rows, lists=lists, settings=settings, root=root)


def flat_case(ctx, form):
    """Correspondence of the flat-aware model (`Pyxv.FormFlat`, theorems `refs_resolve_flat`,
    `siblings_unique_flat`) with the implementation: accept / reject, instance name tree, bind nodesets, body
    refs; plus the closure / uniqueness oracle on the implementation's output."""
    r = impl.run(form)
    m = flat_model_call(ctx, form)
    ctx.count(f"flat-impl:{r['class']}/model:{m['outcome']}")
    if m["outcome"] == "unsupported":
        ctx.count("flat-unsupported: " + m.get("why", "?"))
    if r["class"] == "internal":
        ctx.fail(Failure("flat-crash", f"{r.get('exc')} at {r.get('site')}: {r.get('msg', '')[:200]}", {"form": form}))
    elif r["ok"]:
        obs = formobs.observe(r["xform"])
        oracle(ctx, form, obs)
        if m["outcome"] == "ok":
            if not m["closed"]:
                ctx.mismatch("flat: model output not closed", form, "-", m)
            if not formobs.nt_eq(obs["instance"], m["instance"]):
                ctx.mismatch("flat: instance tree", form, formobs.nt_str(obs["instance"]), formobs.nt_str(m["instance"]))
            if sorted(obs["binds"]) != sorted(m["binds"]):
                ctx.mismatch("flat: bind nodesets", form, obs["binds"], m["binds"])
            if obs["body"] != m["body"]:
                ctx.mismatch("flat: body refs", form, obs["body"], m["body"])
        elif m["outcome"] == "unsupported" and "repeat" in m.get("why", ""):
            # outside the guard of the theorems (flat x repeat, the open finding): the code-shaped instance walk
            # (`instKidsF` / `arrF` / `tmplKidsF`) is still compared with the implementation's instance
            w = flat_model_call(ctx, form, op="flat.walk")
            ctx.count("flat-walk-unguarded:" + w["outcome"])
            if w["outcome"] == "ok" and not formobs.nt_eq(obs["instance"], w["instance"]):
                ctx.mismatch("flat: unguarded instance walk", form, formobs.nt_str(obs["instance"]), formobs.nt_str(w["instance"]))
        elif m["outcome"] == "error":
            ctx.mismatch("flat: model rejects, implementation accepts", form, "ok", m["err"])
            if "dupSibling" in m["err"] or "dupSection" in m["err"]:
                ctx.fail(Failure("accepted-clash", f"a sheet with names clashing through a flat group was converted: {m['err']}",
                                 {"form": form}))
    elif r["class"] == "pyxform" and m["outcome"] == "ok":
        ctx.mismatch("flat: implementation rejects, model accepts", form, r["msg"][:300], "ok")
    ctx.record({"form": form}, r["ok"] and m["outcome"] == "ok")


FLAT_Q = [("text", {}), ("integer", {}), ("note", {}), ("calculate", {"calculation": "1 + 1"}), ("select_one yn", {}),
          ("decimal", {"required": "yes"}), ("text", {"relevant": "1 = 1"}), ("select_multiple yn", {})]


def flat_form(rng, big=False):
    """A sheet with flat groups at any depth: nested in each other, in plain groups, beside (and, rarely, inside or
    around) repeats; a small name pool so that names clash — or not — only through a flat group."""
    pool = ["a", "b", "c", "A", "g", "f", "meta", "x_1"]
    uniq = [0]
    p_rep_mix = 0.15
    rows = []

    def name(kind):
        if rng.random() < (0.55 if kind == "q" else 0.2):
            return rng.choice(pool)
        uniq[0] += 1
        return f"{kind}{uniq[0]}"

    def block(depth, budget, in_flat, in_rep):
        n = rng.randint(1, 4)
        for _ in range(n):
            if budget[0] <= 0:
                return
            budget[0] -= 1
            x = rng.random()
            if depth < (7 if big else 5) and x < 0.42:
                sec = "group"
                flat = False
                if rng.random() < 0.25:
                    sec = "repeat"
                    if in_flat and rng.random() > p_rep_mix:
                        sec = "group"
                if sec == "group" and rng.random() < 0.55:
                    flat = not in_rep or rng.random() < p_rep_mix
                row = {"type": f"begin {sec}", "name": name("s"), "label": "S"}
                if rng.random() < 0.15:
                    row.pop("label")
                if rng.random() < 0.2:
                    row["relevant"] = "1 = 1"
                if flat:
                    row["flat"] = rng.choice(["yes", "true", "1", "no", "x"])
                rows.append(row)
                mark = len(rows)
                block(depth + 1, budget, in_flat or flat, in_rep or sec == "repeat")
                if len(rows) == mark and rng.random() < 0.93:
                    # an empty section is rejected (Section.validate); keep that case rare
                    rows.append({"type": "text", "name": name("q"), "label": "Q"})
                rows.append({"type": f"end {sec}"})
            else:
                t, extra = rng.choice(FLAT_Q)
                row = {"type": t, "name": name("q"), "label": "Q"}
                row.update(extra)
                if t == "calculate":
                    row.pop("label")
                rows.append(row)

    block(0, [rng.randint(2, 26 if big else 14)], False, False)
    form = {"survey": rows, "choices": [{"list_name": "yn", "name": "y", "label": "Yes"}, {"list_name": "yn", "name": "n", "label": "No"}]}
    x = rng.random()
    if x < 0.2:
        form["settings"] = [{"omit_instanceID": "yes"}]
    elif x < 0.3:
        form["settings"] = [{"instance_name": "concat('a', 'b')"}]
    elif x < 0.4:
        form["settings"] = [{"name": rng.choice(["root", "g", "f"])}]
    return form


def explore(ctx, factor, bs):
    rng = ctx.rng
    form_case(ctx, FLAT_IN_REPEAT)  # directed case of the open finding C02-flat-group-in-repeat
    # process history: convert → re-parent one element of the Survey → regenerate (cached paths, c02_history.py)
    c02_history.explore(ctx, oracle, lambda r: formcommon.structure_form(r, tier_big=not ctx.quick()), factor)
    for _ in range(ctx.pick(40, 600) * factor):
        include_case(ctx, rng)
    # row-level `flat` groups: correspondence with the flat-aware model (`flat.model`) + oracle
    for _ in range(ctx.pick(400, 5000) * factor):
        flat_case(ctx, flat_form(rng, big=not ctx.quick()))
    n = ctx.pick(1200, 30000) * factor
    for i in range(n):
        big = not ctx.quick()
        kw = {}
        if rng.random() < 0.3:
            kw = dict(p_default=0.4, p_settings=0.3)
        form = formcommon.structure_form(rng, tier_big=big, **kw)
        if rng.random() < 0.25:
            # features outside the Lean fragment (the model answers `unsupported`): the closure /
            # uniqueness oracle is still evaluated on the implementation's output
            form = formcommon.add_extras(rng, form)
            ctx.count("extras")
        if rng.random() < 0.2:
            # sibling name clashes at any depth: must be rejected, never converted to ambiguous paths
            clash = formcommon.inject_clash(rng, form)
            if clash is not None:
                form = clash
                ctx.count("name_clash")
        if rng.random() < 0.12:
            # clashes among generated meta children (several audit rows at any depth) and inside bodyless groups
            mc = formcommon.inject_meta_clash(rng, form)
            if mc is not None:
                form = mc
                ctx.count("meta_clash")
        form_case(ctx, form)


def replay(ctx, payload, bs):
    before = len(ctx.failures), len(ctx.mismatches)
    if "history" in payload["case"]:
        c02_history.replay_case(ctx, oracle, payload["case"])
        return (len(ctx.failures), len(ctx.mismatches)) == before
    form = payload["case"]["form"]
    if "include" in form:
        include_run(ctx, form["include"]["main"], form["include"]["address"])
    else:
        form_case(ctx, form)
        if any("flat" in x for x in form.get("survey", [])):
            flat_case(ctx, form)
    return (len(ctx.failures), len(ctx.mismatches)) == before


def main(argv):
    return vcore.run_check(PROP, explore, RULE, matchers={"C02-flat-group-in-repeat": match_flat_in_repeat}, replay=replay, argv=argv)
