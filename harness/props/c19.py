"""
C19 — entity declarations follow the documented create/update decision table.

Theorems: Pyxv/Proofs/C19.lean (`entity_table`, `saveto_bind`, `namespace_iff_entity`, `name_rules`,
`unknown_columns_rejected`, `multiple_rows_rejected`, `saveto_in_repeat_or_on_group_rejected`, …) about the
interpreter `Pyxv.Entities.convert` applied to the IR that harness/translate_entities.py regenerates from
the AST of /repo's entity functions on every run.

Check: enumerated forms — the 16 presence combinations of (entity_id, create_if, update_if, label) ×
reference-bearing expressions × save_to placements over small form trees (top level, in group, in repeat,
in group in repeat, on begin/end rows, on rows whose type merely *contains* `group`/`repeat`) × dataset /
property names × entities header spellings, unknown columns, several rows, no entities sheet.
For each case
  1. the implementation (/repo's working tree, in-process) converts the form;
  2. the observation is read from the XForm text (expat, raw prefixes): meta/entity (attributes, children),
     the model children that address it (bind / setvalue: attributes), every `entities:saveto` bind
     attribute, `entities:entities-version` on <model>, `xmlns:entities` on the root, stray `entities:*`;
  3. ORACLE: it must equal what the documented table demands (`Pyxv.Entities.Spec.form`, driver op
     `entities.spec`), rejection included;
  4. CORRESPONDENCE: it must equal what the model (`entities.model`) computes, including the exact text of
     the error message for rejected forms (message templates are regenerated from the source).
"""

from __future__ import annotations

import itertools
import re

import impl
import vcore
import xmlutil
from vcore import Failure

PROP = "C19"
RULE = (
    "enumerated: 16 presence combinations of entity_id/create_if/update_if/label x 6 form trees x every single "
    "and (sampled) double placement of save_to over all rows (questions, begin and end rows, inside groups and "
    "repeats) x expressions with ${ref}s to top-level / grouped / repeated targets; dataset names and property "
    "names (valid and each kind of invalid); entities header spellings; unknown columns; 0 / 2 entity rows; "
    "save_to without entities sheet; types containing 'group'/'repeat' as a substring (F25 family); plus seeded "
    "random mixtures of all dimensions.  distinct by canonical hash of the form; non-trivial = an entity row "
    "or a save_to cell is present"
)

ENT_NS = "http://www.opendatakit.org/xforms/entities"

# ----------------------------------------------------------------------------- inputs

# form trees: ("q", name, type) | ("g"|"r", name, [kids])
TREES = [
    [("q", "a", "text"), ("q", "b", "integer")],
    [("q", "a", "text"), ("g", "g", [("q", "b", "integer")]), ("q", "c", "select_one lst")],
    [("q", "a", "text"), ("r", "r", [("q", "b", "integer")]), ("q", "c", "calculate")],
    [("g", "g", [("r", "r", [("q", "b", "integer")]), ("q", "d", "text")]), ("q", "a", "text")],
    [("r", "r", [("g", "g", [("q", "b", "integer")])]), ("q", "a", "text")],
    [("g", "g", [("g", "h", [("q", "b", "integer")]), ("q", "d", "decimal")]), ("q", "a", "text")],
]
BEGIN_SPELL = {"g": ["begin group", "begin_group"], "r": ["begin repeat", "begin_repeat", "begin lgroup", "begin looped group"]}
END_SPELL = {"g": ["end group", "end_group"], "r": ["end repeat", "end_repeat", "end lgroup", "end looped group"]}
F25_TYPES = ["select_one age_group", "select_multiple repeat_reasons", "select_one groups", "select_one_from_file mygroups.csv",
             "select_one repeat"]
PLAIN_TYPES = ["text", "integer", "decimal", "select_one lst", "calculate", "date", "geopoint", "select_multiple lst", "note"]

EXPRS = [
    "${a}", "${b}", "${a} != ''", "${b} > 3", "concat(${a}, ' ', ${b})", "true()", "1", "uuid()",
    "${b} > 3 and ${a} = 'x'", "a < b", "coalesce(${a}, \"z\")", " ${a} ", "${a}${b}", "if(${b} &gt; 1, 'x', 'y')",
    "string-length(${a}) > 0", "é${a}",
]
DATASETS_OK = ["trees", "t-1", "Trees_2", "_x", "a:b", "é",
               # vocabulary of the NEIGHBOURING rule (reserved *property* names are fine as list names), `__` not as a
               # prefix, dashes / underscores at the allowed boundaries
               "name", "label", "Name", "Label", "NAME", "LABEL", "nAmE", "_name", "a__b", "x__", "_", "a-", "a-b-", "_-"]
DATASETS_BAD = ["__trees", "a.b", "1t", "a b", "-x", "__", ".", "a:b:c", "t!", "tree s", "a..", ":a",
                "name.", ".name", "__name", "__label", "label.x", "-name", "a.-", "_.", "n.ame"]
PROPS_OK = ["pa", "p_b", "P-1", "x.y", "a:b", "nam", "names", "labels", "_x", "é",
            # vocabulary of the dataset rule (periods are fine in property names), column names of the entities sheet
            "trees", "t-1", "a.", "x..y", "_.", "a-", "dataset", "list_name", "entity_id", "create_if", "a__b", "x__"]
PROPS_BAD = ["name", "label", "Name", "LABEL", "nAmE", "__x", "__", "1abc", "a b", "-p", "p!", "a:b:c", "__name",
             ".a", "-a", "__label", "__Name", "na me", "LaBeL"]
HEADERS = {
    "dataset": ["dataset", "list_name", "list name", "List_Name", "DATASET", "Dataset"],
    "entity_id": ["entity_id", "Entity_ID", "entity id"],
    "create_if": ["create_if", "create if", "Create_If"],
    "update_if": ["update_if", "UPDATE_IF", "update  if"],
    "label": ["label", "Label", "LABEL"],
}
EXTRA_COLS = ["foo", "why", "name", "type", "parameters", "repeat", "save_to", "entity", "Foo Bar", "datasets", "id"]


def flatten(tree, rng=None, spell=False):
    """tree → list of row dicts (without save_to); returns rows and, per row, its kind"""
    rows, kinds = [], []

    def go(items, in_rep):
        for it in items:
            if it[0] == "q":
                t = it[2]
                row = {"type": t, "name": it[1], "label": "L " + it[1]}
                if t == "calculate":
                    row["calculation"] = "1 + 1"
                rows.append(row)
                kinds.append(("q", in_rep))
            else:
                k = it[0]
                b = rng.choice(BEGIN_SPELL[k]) if spell and rng else BEGIN_SPELL[k][0]
                e = rng.choice(END_SPELL[k]) if spell and rng else END_SPELL[k][0]
                rows.append({"type": b, "name": it[1], "label": "G " + it[1]})
                kinds.append(("begin-" + k, in_rep))
                go(it[2], in_rep or k == "r")
                rows.append({"type": e})
                kinds.append(("end", in_rep))

    go(tree, False)
    return rows, kinds


CHOICES = [
    {"list_name": ln, "name": n, "label": n.upper()}
    for ln in ("lst", "age_group", "repeat_reasons", "groups", "repeat")
    for n in ("x", "y")
]


def entity_row(rng, combo, dataset="trees", exprs=None, headers=None):
    """combo = (id, create, update, label) presence flags"""
    ex = exprs or [rng.choice(EXPRS) for _ in range(4)]
    h = headers or {k: v[0] for k, v in HEADERS.items()}
    row = {}
    if dataset is not None:
        row[h["dataset"]] = dataset
    for flag, col, e in zip(combo, ("entity_id", "create_if", "update_if", "label"), ex):
        if flag:
            row[h[col]] = e
    return row


# values of the settings `namespaces` cell (the last three declare the prefix `entities` themselves): well-formed
# declarations in the three quote styles, several at once, a prefix that is already standard, malformed tokens
NAMESPACES = [
    'ex="http://example.com/xforms"',
    "ex='http://example.com/xforms'",
    "ex=http://example.com/xforms",
    'esri="http://esri.com/xforms" enk="http://enketo.org/xforms" naf="http://nafundi.com/xforms"',
    'a="urn:a" b="urn:b"',
    'jr="http://example.com/not-javarosa" ex="http://example.com/xforms"',
    'ex="http://example.com/xforms" junk',
    'junk ex="http://example.com/xforms"',
    'a=b=c ex="urn:x"',
    '="urn:noprefix" ex="urn:x"',
    'ex="urn:1" ex="urn:2"',
    "junk",
    'entities="http://example.com/mine"',
    'ex="urn:x" entities="http://www.opendatakit.org/xforms/entities"',
    "entities='urn:first' entities='urn:second' b=\"urn:b\"",
]


# settings that shape the generated meta block (and an audit row, which lands there too)
META_SETTINGS = [
    {"omit_instanceID": "yes"}, {"omit_instanceID": "true"}, {"omit_instanceID": "no"}, {"omit_instanceID": "false"},
    {"instance_name": "concat(${a}, '-x')"}, {"omit_instanceID": "yes", "instance_name": "${a}"},
    {"omit_instanceID": "true", "instance_name": "'n'"}, {"instance_id": "uuid()"},
    {"omit_instanceID": "no", "instance_name": "${a}"},
]


# headers with a delimiter whose first token is not an entities column (the key alone decides)
GROUPED_UNKNOWN = ["foo:bar", "foo::bar", "why : en", "Foo Bar::x::y", "jr:foo", "a:jr:b", "note:", ":x", "labels:en",
                   "entity:id", "list_name_x::en"]


def header_cases(rng, quick):
    rows0, _ = flatten(TREES[0])
    combos = ((1, 1, 1, 1), (0, 0, 0, 1), (1, 0, 0, 0))
    for col, spellings in HEADERS.items():
        others = spellings + [" " + spellings[0] + " ", spellings[0] + " "]
        for a, b in itertools.permutations(others, 2):
            if quick and rng.random() < 0.5:
                continue
            combo = rng.choice(combos)
            er = entity_row(rng, combo)
            er.pop(col, None)
            va, vb = ("trees", "shrubs") if col == "dataset" else ("'va'", "${a}")
            # both cells filled / the duplicate column present but empty / spellings split over two rows
            shape = rng.choice(["both", "both", "empty-second", "empty-first", "two-rows"])
            if shape == "both":
                form = mk_form(rows0, [{a: va, **er, b: vb}])
            elif shape == "empty-second":
                form = mk_form(rows0, [{a: va, **er, b: ""}])
            elif shape == "empty-first":
                form = mk_form(rows0, [{a: "", **er, b: vb}])
            else:
                form = mk_form(rows0, [{a: va, **er}, {b: vb, **er}])
            yield "header-duplicate", form
    for g in GROUPED_UNKNOWN:
        for combo in combos:
            er = entity_row(rng, combo)
            er[g] = "v"
            if rng.random() < 0.4:
                er[rng.choice(GROUPED_UNKNOWN)] = "w"
            if rng.random() < 0.3:
                base = g.split(":")[0].strip()
                # (a header that is or ends in the bare token `jr` raises IndexError in process_header: C05's finding,
                #  `unsupported` in the model; not generated here)
                er[base if base not in ("", "jr") else "foo"] = "u"
            yield "header-grouped-unknown", mk_form(rows0, [er])
    for g in GROUPED_KNOWN:
        col = SPEC_ENT_ALIASES.get("_".join(g.split("::" if "::" in g else ":")[0].split()).lower(), None) or \
            "_".join(g.split("::" if "::" in g else ":")[0].split()).lower()
        for combo in combos:
            er = entity_row(rng, combo)
            er.pop(col, None)
            er[g] = "trees" if col == "dataset" else "'v'"
            yield "header-grouped-column", mk_form(rows0, [er])
    for a, b in ((" foo ", "foo"), ("foo", " foo "), ("Foo", "foo"), ("why", "why ")):
        er = entity_row(rng, (0, 0, 0, 1))
        er[a] = "1"
        er[b] = "2"
        yield "header-unknown-padded", mk_form(rows0, [er])


# headers with a delimiter whose first token IS an entities column: the cell becomes a dict (known finding)
GROUPED_KNOWN = ["label:en", "label::en", "Label : en", "entity_id:x", "create_if::a", "update_if : b", "dataset:x",
                 "list_name::x", "dataset::a::b"]


def grouped_known_headers(ents, cols=None):
    out = []
    for h in impl.headers_of(ents or [], cols):
        if ":" not in h:
            continue
        n = "_".join(h.split("::" if "::" in h else ":")[0].split()).lower()
        if SPEC_ENT_ALIASES.get(n, n) in SPEC_ENT_COLS:
            out.append(h)
    return out


def match_grouped_column(f: Failure) -> bool:
    """the failure is a crash / a Python dict repr in the declaration, on a sheet with a grouped entities column"""
    if f.kind not in ("crash-on-header", "dict-valued-cell"):
        return False
    form = f.case.get("form", {})
    if not grouped_known_headers(form.get("entities"), form.get("entities_cols")):
        return False
    if f.kind == "crash-on-header":
        return "'dict' object has no attribute" in f.detail
    return True


def header_shape_special(ents, cols=None):
    """the sheet has a header with a delimiter, or two headers that normalise to one column: the documented
    table (C19's statement) says nothing about these; only correspondence and the crash oracle apply"""
    hs = impl.headers_of(ents or [], cols)
    if any(":" in h for h in hs):
        return True
    norm = []
    for h in hs:
        n = "_".join(h.split()).lower()
        norm.append(SPEC_ENT_ALIASES.get(n, n))
    return len(set(norm)) != len(norm)


def mk_form(rows, entities, root=None, namespaces=None, extra_settings=None, audit=False):
    if audit:
        rows = list(rows) + [{"type": "audit", "name": "audit"}]
    form = {"survey": rows, "choices": [dict(c) for c in CHOICES]}
    if entities is not None:
        form["entities"] = entities
    st = dict(extra_settings or {})
    if root:
        st["name"] = root
    if namespaces is not None:
        st["namespaces"] = namespaces
    if st:
        form["settings"] = [st]
    return form


COMBOS = list(itertools.product([0, 1], repeat=4))
# (generator bias only: the combinations that usually convert, so that random cases reach the output comparison)
VALID_COMBOS = [(1, 0, 0, 0), (1, 0, 0, 1), (1, 0, 1, 0), (1, 0, 1, 1), (1, 1, 1, 0), (1, 1, 1, 1), (0, 0, 0, 1), (0, 1, 0, 1)]


def enumerate_cases(ctx, factor):
    """directed, exhaustive parts (deterministic) followed by seeded random mixtures"""
    rng = ctx.rng
    quick = ctx.quick()
    # (1) 16 combinations x trees x single save_to placement on every row (and none)
    for ti, tree in enumerate(TREES):
        base, kinds = flatten(tree)
        for combo in COMBOS:
            for pos in [None] + list(range(len(base))):
                rows = [dict(r) for r in base]
                if pos is not None:
                    rows[pos]["save_to"] = "p" + str(pos)
                yield "table-x-placement", mk_form(rows, [entity_row(rng, combo)])
    # (2) double placements (all pairs at thorough, sampled at quick) with a valid declaration
    for ti, tree in enumerate(TREES):
        base, kinds = flatten(tree)
        pairs = list(itertools.combinations(range(len(base)), 2))
        if quick:
            pairs = rng.sample(pairs, min(len(pairs), 6))
        for i, j in pairs:
            rows = [dict(r) for r in base]
            rows[i]["save_to"] = "pi"
            rows[j]["save_to"] = rng.choice(["pj", "pi"])
            yield "double-placement", mk_form(rows, [entity_row(rng, rng.choice([(0, 0, 0, 1), (1, 0, 0, 0), (1, 1, 1, 1)]))])
    # (3) dataset names x combos (all combos at thorough)
    for ds in DATASETS_OK + DATASETS_BAD:
        for combo in (COMBOS if not quick else [(0, 0, 0, 1), (1, 0, 1, 0), (0, 1, 1, 0)]):
            rows, _ = flatten(TREES[1])
            rows[0]["save_to"] = "pa"
            yield "dataset-name", mk_form(rows, [entity_row(rng, combo, dataset=ds)])
    # (4) property names x positions
    for p in PROPS_OK + PROPS_BAD:
        for ti in (0, 1, 2, 3):
            base, kinds = flatten(TREES[ti])
            for pos in range(len(base)):
                if quick and (pos + ti + len(p)) % 3:
                    continue
                rows = [dict(r) for r in base]
                rows[pos]["save_to"] = p
                yield "property-name", mk_form(rows, [entity_row(rng, (0, 0, 0, 1))])
    # (5) header spellings, unknown columns, row counts, missing dataset, no sheet
    for col, spellings in HEADERS.items():
        for sp in spellings:
            h = {k: v[0] for k, v in HEADERS.items()}
            h[col] = sp
            for combo in ((1, 1, 1, 1), (0, 0, 0, 1), (1, 0, 0, 0)):
                rows, _ = flatten(TREES[0])
                yield "header-spelling", mk_form(rows, [entity_row(rng, combo, headers=h)])
    for extra in EXTRA_COLS:
        for combo in ((1, 1, 1, 1), (0, 0, 0, 1), (0, 0, 0, 0)):
            rows, _ = flatten(TREES[0])
            er = entity_row(rng, combo)
            er[extra] = "v"
            if rng.random() < 0.3:
                er[rng.choice(EXTRA_COLS)] = "w"
            yield "unknown-column", mk_form(rows, [er])
    # (5a) the header loop: two spellings of one column in both orders (exact spelling first / last, alias, padded,
    #      empty-celled duplicate column, spellings split over two rows), headers with a delimiter (`:` / `::`) whose
    #      first token is not an entities column, unknown columns differing only in padding
    yield from header_cases(rng, quick)
    for combo in COMBOS:
        rows, _ = flatten(TREES[0])
        yield "two-rows", mk_form(rows, [entity_row(rng, combo), entity_row(rng, (0, 0, 0, 1), dataset="shrubs")])
        yield "no-dataset", mk_form(rows, [entity_row(rng, combo, dataset=None)])
    yield "three-rows", mk_form(flatten(TREES[0])[0], [entity_row(rng, (0, 0, 0, 1)) for _ in range(3)])
    for ti, tree in enumerate(TREES):
        base, kinds = flatten(tree)
        for pos in [None] + list(range(len(base))):
            rows = [dict(r) for r in base]
            if pos is not None:
                rows[pos]["save_to"] = "pz"
            yield "no-entities-sheet", mk_form(rows, None)
            form = mk_form([dict(r) for r in rows], [])
            form["entities_cols"] = ["dataset", "label"]
            yield "empty-entities-sheet", form
    # (5b) settings `namespaces` x entity declared or not x save_to present or not x a few combinations
    for nsv in NAMESPACES:
        for combo in (None, (0, 0, 0, 1), (1, 1, 1, 1), (1, 0, 0, 0), (0, 0, 1, 0)):
            for ti in (0, 1):
                for with_saveto in (False, True):
                    rows, _ = flatten(TREES[ti])
                    if with_saveto:
                        rows[0]["save_to"] = "pa"
                    ents = None if combo is None else [entity_row(rng, combo)]
                    yield "namespaces-setting", mk_form(rows, ents, namespaces=nsv)
    # (5c) the meta block: 16 combinations x settings that shape it (omit_instanceID, instance_name) x audit row
    for combo in [None] + COMBOS:
        for es in [None] + META_SETTINGS:
            for audit in (False, True):
                if quick and combo is not None and es is not None and (sum(combo) + len(es) + audit) % 2 and combo not in VALID_COMBOS[:4]:
                    continue
                rows, _ = flatten(TREES[0])
                rows[0]["save_to"] = "pm"
                ents = None if combo is None else [entity_row(rng, combo)]
                if combo is None:
                    rows[0].pop("save_to")
                yield "meta-block", mk_form(rows, ents, extra_settings=es, audit=audit)
    # (5d) question names that collide with names of generated / non-question elements (the EntityDeclaration is called
    #      `entity`; external-instance rows and the dataset have names too) and are referenced from every entities cell:
    #      only Question|Section elements take part in ${name} resolution, so all of these are valid
    def coll(tree_rows, ref, dataset="trees"):
        for combo in VALID_COMBOS + [(0, 0, 1, 1), (1, 1, 0, 1)]:
            for shape in (0, 1):
                ex = [f"${{{ref}}}", f"${{{ref}}} != ''", f"${{{ref}}} = 'u'", f"concat(${{{ref}}}, '-')"] if shape == 0 else \
                     [f"coalesce(${{{ref}}}, ${{a}})", f"string-length(${{{ref}}}) > 1", "${a} = ''", f"${{{ref}}}"]
                rows = [dict(r) for r in tree_rows]
                yield "name-collision", mk_form(rows, [entity_row(rng, combo, dataset=dataset, exprs=ex)])

    q = lambda n, t="text", **kw: dict({"type": t, "name": n, "label": "L " + n}, **kw)  # noqa: E731
    grp = lambda n, kids: [{"type": "begin group", "name": n, "label": "G"}] + kids + [{"type": "end group"}]  # noqa: E731
    yield from coll([q("a"), q("entity", save_to="pe")], "entity")
    yield from coll([q("a")] + grp("g", [q("entity"), q("b", "integer")]), "entity")
    yield from coll([q("a"), {"type": "csv-external", "name": "trees"}] + grp("g", [q("trees", save_to="pt")]), "trees")
    yield from coll([q("a"), {"type": "xml-external", "name": "ext"}] + grp("g", [q("ext")]), "ext", dataset="ext")
    yield from coll([q("a"), q("trees", "integer")], "trees")
    yield from coll([q("a")] + grp("g", [q("meta"), q("instanceID"), q("label"), q("dataset")]), "dataset", dataset="dataset")
    yield from coll([q("a")] + grp("entity", [q("b", "integer", save_to="pb")]), "b")
    # (5e) entity cells from an adversarial alphabet: %-formats, braces, backslashes, markup characters
    ADV = ["%", "%%", "%s", "%(x)s", "%d", "%3A", "%20", "100%", "{0}", "{}", "{x}", "{", "}", "\\", "\\n", "#", "&", "<", '"', "|",
           "%%s", "{{}}", "%c%", "$", "$$", "$ {a}"]
    for atom in ADV:
        if quick and rng.random() < 0.2:
            continue
        for combo in ((1, 0, 0, 0), (1, 0, 1, 0), (1, 1, 1, 1), (0, 0, 0, 1), (0, 1, 0, 1)):
            for tpl in ("translate(${a}, '%s', '')", "%s", "concat('%s', ${b}, '%s')"):
                e = tpl.replace("%s", atom)
                rows, _ = flatten(TREES[1])
                rows[0]["save_to"] = "pa"
                yield "adversarial-expression", mk_form(rows, [entity_row(rng, combo, exprs=[e, e, e, e])])
    # (6) types containing group / repeat as a substring (F25 family) at every question position
    for t in F25_TYPES + PLAIN_TYPES:
        for ti in (0, 1, 2):
            base, kinds = flatten(TREES[ti])
            for pos, (k, _) in enumerate(kinds):
                if k != "q":
                    continue
                rows = [dict(r) for r in base]
                rows[pos]["type"] = t
                rows[pos].pop("calculation", None)
                if t == "calculate":
                    rows[pos]["calculation"] = "2"
                rows[pos]["save_to"] = "pf"
                for with_sheet in (True, False):
                    yield "type-substring", mk_form(rows, [entity_row(rng, (0, 0, 0, 1))] if with_sheet else None)
    # (7) seeded random mixtures
    n = ctx.pick(2000, 60000) * factor
    for _ in range(n):
        tree = rng.choice(TREES)
        base, kinds = flatten(tree, rng, spell=True)
        rows = [dict(r) for r in base]
        for pos, (k, in_rep) in enumerate(kinds):
            if k == "q" and rng.random() < 0.15:
                t = rng.choice(PLAIN_TYPES + F25_TYPES[:3])
                rows[pos]["type"] = t
                rows[pos].pop("calculation", None)
                if t == "calculate":
                    rows[pos]["calculation"] = "2"
            r = rng.random()
            if r < (0.3 if k == "q" and not in_rep else 0.04):
                rows[pos]["save_to"] = rng.choice(PROPS_OK) if rng.random() < 0.9 else rng.choice(PROPS_BAD)
        r = rng.random()
        if r < 0.08:
            ents = None
        elif r < 0.12:
            ents = [entity_row(rng, rng.choice(COMBOS)) for _ in range(rng.choice([0, 2, 3]))]
        else:
            h = {k: (v[0] if rng.random() < 0.8 else rng.choice(v)) for k, v in HEADERS.items()}
            ds = rng.choice(DATASETS_OK) if rng.random() < 0.85 else rng.choice(DATASETS_BAD)
            combo = rng.choice(VALID_COMBOS) if rng.random() < 0.7 else rng.choice(COMBOS)
            er = entity_row(rng, combo, dataset=ds, headers=h)
            if rng.random() < 0.07:
                er[rng.choice(EXTRA_COLS)] = "v"
            ents = [er]
        yield "random", mk_form(rows, ents, root=rng.choice([None, None, "f1", "Form-2"]),
                                namespaces=rng.choice(NAMESPACES) if rng.random() < 0.2 else None,
                                extra_settings=rng.choice(META_SETTINGS) if rng.random() < 0.25 else None,
                                audit=rng.random() < 0.15)


# ----------------------------------------------------------------------------- observation


def find(el, tag):
    return [k for k in el["k"] if k.get("t") == tag]


STD_PREFIXES = {"xmlns", "xmlns:h", "xmlns:ev", "xmlns:xsd", "xmlns:jr", "xmlns:orx", "xmlns:odk"}


class NotWellFormed(Exception):
    pass


def observe(xform: str, root_name: str) -> dict:
    tree, err = xmlutil.expat_tree(xform)
    if tree is None:
        raise NotWellFormed(str(err))
    rattrs = dict(tree["a"])
    head = find(tree, "h:head")[0]
    model = find(head, "model")[0]
    mattrs = dict(model["a"])
    inst = find(model, "instance")[0]
    prim = [k for k in inst["k"] if "t" in k][0]
    E = f"/{prim['t']}/meta/entity"
    meta_kids = []
    for meta in find(prim, "meta"):
        meta_kids += [k["t"] for k in meta["k"] if "t" in k]
    entity = None
    for meta in find(prim, "meta"):
        for e in find(meta, "entity"):
            entity = {"tag": e["t"], "attrs": sorted([list(p) for p in e["a"]]), "kids": [k["t"] for k in e["k"] if "t" in k]}
    nodes, saveto, stray = [], [], []
    for k in model["k"]:
        if "t" not in k:
            continue
        a = dict(k["a"])
        ref = a.get("nodeset", a.get("ref", ""))
        if k["t"] in ("bind", "setvalue") and (ref == E or ref.startswith(E + "/")):
            nodes.append({"tag": k["t"], "attrs": sorted([list(p) for p in k["a"]])})
        if k["t"] == "bind" and "entities:saveto" in a:
            saveto.append([a["nodeset"], a["entities:saveto"]])

    def walk(el, path):
        for n, v in el["a"]:
            if n.startswith("entities:"):
                if (el["t"] == "bind" and n == "entities:saveto") or (el is model and n == "entities:entities-version"):
                    continue
                stray.append([path + "/" + el["t"], n, v])
        for k in el["k"]:
            if "t" in k:
                walk(k, path + "/" + el["t"])

    walk(tree, "")
    # any element in the entities namespace or named entity elsewhere under meta is covered by `entity` above
    return {
        "entity": entity,
        "nodes": sorted(nodes, key=lambda n: (dict(n["attrs"]).get("nodeset", dict(n["attrs"]).get("ref", "")), n["tag"])),
        "nodes_in_order": nodes,
        "saveto": sorted(saveto),
        "version": ["entities:entities-version", mattrs["entities:entities-version"]] if "entities:entities-version" in mattrs else None,
        "xmlns": ["entities", rattrs["xmlns:entities"]] if "xmlns:entities" in rattrs else None,
        # the other non-standard namespace declarations on the root element (settings `namespaces`)
        "custom_ns": [[n[len("xmlns:"):], v] for n, v in tree["a"]
                      if n.startswith("xmlns:") and n not in STD_PREFIXES and n != "xmlns:entities"],
        "stray": stray,
        # children of the generated meta group, in document order ([] when there is no meta element)
        "meta_kids": meta_kids,
        # what C19 itself demands of the meta block: the declaration is there iff declared, as the last child
        "meta_entity": [meta_kids.count("entity"), meta_kids[-1:] == ["entity"]],
    }


def canon_out(o: dict) -> dict:
    """driver Out → the shape of `observe`"""

    def cn(n):
        return {"tag": n["tag"], "attrs": sorted([list(p) for p in n["attrs"]])}

    ent = None
    if o.get("entity"):
        ent = cn(o["entity"])
        ent["kids"] = list(o["entity"]["kids"])
    nodes = [cn(n) for n in o["nodes"]]
    return {
        "entity": ent,
        "nodes": sorted(nodes, key=lambda n: (dict(n["attrs"]).get("nodeset", dict(n["attrs"]).get("ref", "")), n["tag"])),
        "nodes_in_order": nodes,
        "saveto": sorted([list(p) for p in o["saveto"]]),
        "version": list(o["version"]) if o.get("version") else None,
        "xmlns": list(o["xmlns"]) if o.get("xmlns") else None,
        "custom_ns": [list(p) for p in o.get("customNs", [])],
        "stray": [],
        "meta_kids": list(o.get("metaKids", [])),
        "meta_entity": [list(o.get("metaKids", [])).count("entity"), list(o.get("metaKids", []))[-1:] == ["entity"]],
    }


KEYS = ("entity", "nodes", "saveto", "version", "xmlns", "stray", "meta_entity")
# the other meta children (audit / instanceID / instanceName: C04, C11) and the custom namespaces (C11) are compared with
# the model only
MODEL_KEYS = KEYS + ("custom_ns", "meta_kids")


def diff(a: dict, b: dict, keys=KEYS) -> list[str]:
    return [k for k in keys if a[k] != b[k]]


# ----------------------------------------------------------------------------- model / spec input

SURVEY_CANON = {"save_to": "bind::entities:saveto", "calculation": "bind::calculate"}
SPEC_ENT_ALIASES = {"list_name": "dataset"}
SPEC_ENT_COLS = {"dataset", "entity_id", "create_if", "update_if", "label"}


def survey_cells(rows):
    return [[[SURVEY_CANON.get(k, k), str(v)] for k, v in r.items() if v not in (None, "")] for r in rows]


def ent_cells_raw(ents):
    return [[[k, str(v)] for k, v in r.items() if v not in (None, "")] for r in (ents or [])]


def ent_cells_spec(ents):
    """the harness's own reading of the documented header spellings (case, spaces, list_name)"""
    out = []
    for r in ents or []:
        cells = []
        for k, v in r.items():
            if v in (None, ""):
                continue
            n = "_".join(k.split()).lower()
            n = SPEC_ENT_ALIASES.get(n, n)
            cells.append([n if n in SPEC_ENT_COLS else k, str(v)])
        out.append(cells)
    return out


def user_entities_ns(nsv):
    """the harness's own reading of what the settings cell itself declares for the prefix `entities`:
    whitespace-separated tokens `prefix=uri` (exactly one `=`), quotes dropped, the last one wins"""
    uri = None
    for tok in (nsv or "").split():
        parts = tok.split("=")
        if len(parts) == 2 and parts[0] == "entities":
            uri = parts[1].replace('"', "").replace("'", "")
    return uri


def namespaces_of(form):
    for st in form.get("settings") or []:
        if st.get("namespaces"):
            return st["namespaces"]
    return None


def root_of(form):
    for s in form.get("settings") or []:
        if s.get("name"):
            return s["name"]
    return "data"


_VERSION = [None]


def entities_version():
    if _VERSION[0] is None:
        from pyxform import constants

        _VERSION[0] = constants.ENTITIES_OFFLINE_VERSION
    return _VERSION[0]


# ----------------------------------------------------------------------------- known findings

# F25 (save_to on `select_one age_group` rejected by a substring test) is repaired in the tree: no open finding.
MATCHERS = {"C19-grouped-entities-column": lambda f: match_grouped_column(f)}


# ----------------------------------------------------------------------------- one case


def form_case(ctx, label, form):
    root = root_of(form)
    r = impl.run(form)
    sv = survey_cells(form["survey"])
    nsv = namespaces_of(form)
    st = (form.get("settings") or [{}])[0]
    mkw = {"settings": [[k, str(v)] for k, v in st.items() if v not in (None, "")]}
    # the harness's own reading of what shapes the meta block
    meta_cfg = {
        "audit": sum(1 for r in form["survey"] if r.get("type") == "audit"),
        "omit_instanceID": str(st.get("omit_instanceID", "")).lower() in ("yes", "true"),
        "instance_name": bool(st.get("instance_name")),
    }
    if form.get("entities") is not None:
        mkw["entities_header"] = impl.headers_of(form["entities"], form.get("entities_cols"))
    special = header_shape_special(form.get("entities"), form.get("entities_cols"))
    model = ctx.driver.call("entities.model", root=root, entities=ent_cells_raw(form.get("entities")), survey=sv, **mkw)
    skw = {"user_entities_ns": user_entities_ns(nsv)} if user_entities_ns(nsv) is not None else {}
    spec = ctx.driver.call("entities.spec", root=root, version=entities_version(),
                           entities=ent_cells_spec(form.get("entities")), survey=sv, **skw, **meta_cfg)
    ctx.count(f"{label}: impl:{r['class']}/spec:{spec['outcome']}/model:{model['outcome']}")
    case = {"label": label, "form": form}
    obs = None
    if r["ok"]:
        # a converted form must be namespace-well-formed XML: every `entities:` (and custom) prefix it uses declared
        try:
            obs = observe(r["xform"], root)
        except NotWellFormed as e:
            ctx.fail(Failure("not-well-formed", f"the XForm does not parse: {e}", case))
            ctx.record(case, True)
            return
        if not xmlutil.expat_ns_ok(r["xform"]):
            used = sorted({n.split(":")[0] for n in re.findall(r"[\s<]([A-Za-z_][\w.-]*:[\w.-]+)[=\s/>]", r["xform"])})
            ctx.fail(Failure("unbound-prefix", "the XForm uses a namespace prefix that is not declared "
                             f"(declared on the root: xmlns={obs['xmlns']}, custom={obs['custom_ns']}; prefixes used: {used})",
                             case, extra={"xmlns": obs["xmlns"], "custom_ns": obs["custom_ns"]}))

    # ---- oracle: every bind of the declaration that reads the entity being updated uses the same item predicate
    #      as @id (`instance('<dataset>')/root/item[name=<entity_id>]/__field`)
    if obs is not None and obs["entity"] is not None:
        calc = {dict(n["attrs"]).get("nodeset", ""): dict(n["attrs"]).get("calculate") for n in obs["nodes"] if n["tag"] == "bind"}
        idc = next((v for k, v in calc.items() if k.endswith("/@id")), None)
        for k, v in calc.items():
            for attr, field in (("baseVersion", "__version"), ("trunkVersion", "__trunkVersion"), ("branchId", "__branchId")):
                if k.endswith("/@" + attr):
                    ds = dict(obs["entity"]["attrs"]).get("dataset", "")
                    want = f"instance('{ds}')/root/item[name={idc}]/{field}"
                    if idc is None or v != want:
                        ctx.fail(Failure("version-predicate-differs",
                                         f"@{attr} is calculated as {v!r}, but @id as {idc!r} (expected {want!r})", case))

    # ---- oracle: the documented table, on the implementation's output
    if special:
        ctx.count("spec-not-applicable:header-shape")
        if r["ok"] and obs is not None:
            vals = [v for n in ([obs["entity"]] if obs["entity"] else []) + obs["nodes"] for _, v in n["attrs"]]
            if any("{'" in v for v in vals):
                ctx.fail(Failure("dict-valued-cell", "a Python dict repr was written into the entity declaration: "
                                 + str([v for v in vals if "{'" in v][:2]), case))
        if r["class"] == "internal":
            ctx.fail(Failure("crash-on-header", "internal exception on an entities sheet with grouped / duplicate headers: "
                             + r["msg"][:200], case, extra={"impl_msg": r["msg"], "site": r.get("site")}))
    elif spec["outcome"] == "unsupported":
        ctx.count("spec-unsupported:" + spec.get("why", ""))
    elif spec["outcome"] == "rejected":
        if r["ok"]:
            ctx.fail(Failure("accepted-invalid", "a form the documented rules reject was converted", case,
                             extra={"observed": {k: obs[k] for k in KEYS}}))
        elif r["class"] == "internal":
            # "rejected" means a PyXFormError; a crash (e.g. the former KeyError for a sheet without dataset
            # column, repaired in the tree) is not a rejection
            ctx.fail(Failure("crash-on-invalid", "internal exception instead of a rejection: " + r["msg"][:200], case,
                             extra={"impl_msg": r["msg"], "site": r.get("site")}))
    else:
        want = canon_out(spec)
        if r["ok"]:
            d = diff(obs, want)
            if d:
                ctx.fail(Failure("declaration-differs", f"{d}: observed {[obs[k] for k in d]} documented {[want[k] for k in d]}",
                                 case, signature="declaration-differs:" + ",".join(d)))
        elif r["class"] == "pyxform":
            ctx.fail(Failure("rejected-valid", "a form the documented rules accept was rejected: " + r["msg"][:200], case,
                             extra={"impl_msg": r["msg"]}))
        else:
            ctx.fail(Failure("crash-on-valid", "internal exception on a valid entity form: " + r["msg"][:200], case,
                             extra={"impl_msg": r["msg"], "site": r.get("site")}))

    # ---- correspondence: the model (interpreter over the regenerated IR)
    if model["outcome"] == "unsupported":
        ctx.count("model-unsupported:" + model["why"])
    elif model["outcome"] == "ok":
        ctx.count("in-fragment")
        if not r["ok"]:
            ctx.mismatch("model accepts, implementation rejects", case, r["msg"][:300], "ok")
        else:
            got = canon_out(model)
            d = diff(obs, got, MODEL_KEYS)
            if d:
                ctx.mismatch("observation differs: " + ",".join(d), case, {k: obs[k] for k in d}, {k: got[k] for k in d})
            elif obs["nodes_in_order"] == got["nodes_in_order"]:
                ctx.count("bind-order-identical")
    else:
        ctx.count("in-fragment")
        if model["kind"] == "legacy-disagrees":
            ctx.mismatch("model: dealiasRows and dealiasSheet disagree", case, r["msg"][:300], model)
        elif r["ok"]:
            ctx.mismatch("model rejects, implementation accepts", case, "ok", model)
        elif False:
            ctx.mismatch("model: dealiasRows and dealiasSheet disagree", case, r["msg"][:300], model)
        elif model["kind"] == "msg":
            if r["class"] != "pyxform" or r["msg"] != model["msg"]:
                ctx.mismatch("error message differs", case, r["msg"][:400], model["msg"])
        elif model["kind"] == "columns":
            if r["class"] != "pyxform" or "unexpected column" not in r["msg"] or not all(f"'{c}'" in r["msg"] for c in model["columns"]):
                ctx.mismatch("unknown-columns error differs", case, r["msg"][:400], model["columns"])
        elif model["kind"] == "internal" and r["class"] != "internal":
            ctx.mismatch("model predicts an internal exception, implementation raises PyXFormError", case, r["msg"][:300], model)
    nontrivial = bool(form.get("entities")) or any(x.get("save_to") for x in form["survey"])
    ctx.record(case, nontrivial)


def check_lower_assumption():
    """`evalB .eqLower` uses ASCII lower-casing: sound iff no non-ASCII character lower-cases into the
    letters of 'name' / 'label'."""
    letters = set("namelb")
    for c in range(0x80, 0x110000):
        low = chr(c).lower()
        if low and all(ch in letters for ch in low):
            raise vcore.Infra(f"U+{c:04X} lower-cases to {low!r}: the ASCII model of save_to.lower() is not exact")


def explore(ctx, factor, bs):
    if factor == 1:
        check_lower_assumption()
        ir = ctx.driver.call("entities.ir")
        ctx.notes["entity_ir_translated_from_current_source"] = ir.get("fresh", True)
        ctx.notes["entity_ir_fallback_reason"] = ir.get("fallback_reason", "")
        import translate_entities

        ctx.notes["translator_fragment"] = translate_entities.FRAGMENT
        ctx.notes["entity_ir"] = {k: v[:400] for k, v in ir.items() if isinstance(v, str)}
    for label, form in enumerate_cases(ctx, factor):
        form_case(ctx, label, form)
    total = sum(v for k, v in ctx.dist.items() if k == "in-fragment") + sum(
        v for k, v in ctx.dist.items() if k.startswith("model-unsupported"))
    ctx.notes["fragment_share"] = round(ctx.dist.get("in-fragment", 0) / max(1, total), 4)


def replay(ctx, payload, bs):
    before = len(ctx.failures), len(ctx.mismatches), dict(ctx.known_seen)
    c = payload["case"]
    form_case(ctx, c.get("label", "replay"), c["form"])
    return (len(ctx.failures), len(ctx.mismatches)) == before[:2]


def main(argv):
    return vcore.run_check(PROP, explore, RULE, matchers=MATCHERS, replay=replay, argv=argv)
