"""
C08 — each language shows exactly the text written for it.

Theorems: Pyxv/Proofs/C08.lean.  Tie: Lean `Headers.processHeader` / `dealiasAndGroupHeaders` vs the Python
functions on the same header/row tuples; Lean text model (`c08.model`) vs the effective text observed in the
implementation's XForm.  Oracle: the observation equals `Spec.text` (Lean, `c08.spec`; cross-checked by the
short Python reading in c08_lib.py), every language named gets a translation, none invented.
"""

from __future__ import annotations

import copy
import json

import c08_lib as L
import vcore
from vcore import Failure

PROP = "C08"
RULE = (
    "bounded-exhaustive: 1 element x each kind x {unsuffixed, en, fr} subsets x all column orders x 4 default-language "
    "configurations x 2 delimiters on survey and choices; random: <=3 elements (questions, selects, a group) x 7 kinds x "
    "<=3 languages with distinct marker texts, alias spellings, 5 delimiter styles, shuffled column order, default_language "
    "setting/argument; the same random forms with rows nested in repeats/groups at depth <=4 (own translated labels) and a "
    "directed family of depth 1..6; distinct by canonical hash; non-trivial = accepted and at least one translation"
)


def run_impl(case):
    from pyxform.errors import PyXFormError
    from pyxform.xls2xform import convert

    kw = {}
    if case.get("arg_dl") is not None:
        kw["default_language"] = case["arg_dl"]
    try:
        if case.get("_xlsx") is not None:
            import io

            r = convert(xlsform=io.BytesIO(L.xlsx_of_case(case, case["_xlsx"])), file_type=".xlsx", form_name="data", **kw)
        else:
            r = convert(xlsform=copy.deepcopy(L.wb_of_case(case)), **kw)
    except PyXFormError as e:
        return {"class": "pyxform", "msg": str(e)}
    except Exception as e:  # noqa: BLE001
        return {"class": "internal", "msg": f"{type(e).__name__}: {e}"}
    return {"class": "ok", "xform": r.xform, "warnings": list(r.warnings)}


def first_diff(a, b):
    for key in sorted(set(a) | set(b)):
        for kind in sorted(set(a.get(key, {})) | set(b.get(key, {}))):
            x, y = a.get(key, {}).get(kind, {}), b.get(key, {}).get(kind, {})
            for lang in sorted(set(x) | set(y)):
                if x.get(lang) != y.get(lang):
                    return key, kind, lang, x.get(lang), y.get(lang)
    return None


def oracle(ctx, case, obs, spec):
    """Decide the property on the implementation's observation."""
    ok = True
    if obs["dup_langs"]:
        ctx.fail(Failure("language-duplicated", f"translations {obs['langs']}", {"case": case}))
        ok = False
    have, want, content = set(obs["langs"]), set(spec["langs"]), set(spec["langs_content"])
    if have - want:
        ctx.fail(Failure("language-invented", f"translation(s) {sorted(have - want)} for languages the sheets never mention", {"case": case}))
        ok = False
    missing = want - have
    if missing:
        only_empty = missing <= (want - content)
        kind = "language-missing-empty-column" if only_empty else "language-missing"
        ctx.fail(Failure(kind, f"no translation for {sorted(missing)} (named by a translated column)", {"case": case},
                         extra={"missing": sorted(missing)}))
        ok = False
    want_text = spec["text"]
    # A choice without any label cell in an itext-bearing list: nothing was written in any language.  The property's
    # placeholder '-' and an absent label both say so; accept '-' there (any *text* there is still a failure).
    obs_text = obs["text"]
    for key, kinds in list(obs_text.items()):
        if key.startswith("c") and "label" in kinds and "label" not in want_text.get(key, {}):
            if all(v == L.PLACEHOLDER for v in kinds["label"].values()):
                obs_text = {**obs_text, key: {k: v for k, v in kinds.items() if k != "label"}}
                if not obs_text[key]:
                    del obs_text[key]
    d = first_diff(obs_text, want_text)
    if d is not None:
        key, kind, lang, got, exp = d
        ctx.fail(Failure("text", f"element {key} {kind} for language {lang!r}: shown {got!r}, written {exp!r}", {"case": case},
                         extra={"key": key, "kind": kind, "lang": lang, "got": got, "exp": exp}))
        ok = False
    return ok


def triples_to_text(pairs):
    out = {}
    for key, ts in pairs:
        for kind, lang, t in ts:
            out.setdefault(key, {}).setdefault(kind, {})[lang] = t
    return out


def lean_spec(ctx, case, view):
    """`Spec` evaluated by the Lean driver; cross-checked against the Python reading (a disagreement between the
    two readings of the property is a harness defect, never a violation)."""
    v = ctx.driver.call("c08.spec", view=view, **L.driver_case(case))
    spec = {"langs": sorted(v["langs"]), "langs_content": sorted(v["langs_content"]),
            "text": L.expand_choice_keys(case, triples_to_text(v["texts"]))}
    py = L.py_spec(case)
    py_text = L.expand_choice_keys(case, L.spec_text(py, view))
    if py["langs"] != spec["langs"] or py["langs_content"] != spec["langs_content"] or py_text != spec["text"]:
        raise vcore.Infra("Lean Spec and Python reading of C08 disagree on " + json.dumps(case) + " : "
                          + json.dumps([py["langs"], spec["langs"], first_diff(py_text, spec["text"])]))
    return spec


def v_json(v):
    if v is None:
        return None
    if isinstance(v, dict):
        return [[k, v_json(x)] for k, x in v.items()]
    return str(v)


def py_dealias(sheet, cols, rows, dl):
    from pyxform import aliases
    from pyxform.errors import PyXFormError
    from pyxform.parsing.sheet_headers import dealias_and_group_headers
    from pyxform.question import MultipleChoiceQuestion, Option

    try:
        r = dealias_and_group_headers(
            sheet_name=sheet, sheet_data=[dict(x) for x in rows], sheet_header=[{c: None for c in cols}],
            header_aliases=aliases.survey_header if sheet == "survey" else aliases.list_header,
            header_columns=set(MultipleChoiceQuestion.get_slot_names() if sheet == "survey" else Option.get_slot_names()),
            headers_required={"type"} if sheet == "survey" else {"name"}, default_language=dl)
    except PyXFormError as e:
        m = str(e)
        kind = "duplicate" if "different names for the same column" in m else "missingRequired" if "required column" in m else "invalidHeader"
        return {"err": kind}
    except Exception as e:  # noqa: BLE001
        return {"err": "internal", "exc": type(e).__name__}
    return {"headers": [list(t) for t in r.headers], "rows": [v_json(x) for x in r.data]}


def headers_corr(ctx, case):
    """Lean `dealiasAndGroupHeaders` / `processHeader` vs the Python functions, called directly on the same tuples."""
    from pyxform import aliases
    from pyxform.parsing.sheet_headers import process_header
    from pyxform.question import MultipleChoiceQuestion, Option

    dl = case["settings"].get("default_language") or case["arg_dl"] or "default"
    for sheet in ("survey", "choices"):
        cols, rows = case[sheet + "_cols"], case[sheet]
        if not cols:
            continue
        m = ctx.driver.call("c08.dealias", sheet=sheet, cols=cols, rows=[[[k, v] for k, v in r.items()] for r in rows], dl=dl)
        p = py_dealias(sheet, cols, rows, dl)
        ctx.count("fn:dealias")
        if "err" in m or "err" in p:
            same = m.get("err") == p.get("err")
        else:
            same = m == p
        if not same:
            ctx.mismatch(f"dealias_and_group_headers({sheet})", {"case": case}, p, m)
        double = any("::" in c for c in cols)
        al = aliases.survey_header if sheet == "survey" else aliases.list_header
        hc = set(MultipleChoiceQuestion.get_slot_names() if sheet == "survey" else Option.get_slot_names())
        for h in cols:
            key = (sheet, h, double)
            if key in ctx.notes.setdefault("_hdr_seen", set()):
                continue
            ctx.notes["_hdr_seen"].add(key)
            mh = ctx.driver.call("c08.process_header", sheet=sheet, header=h, double=double)
            try:
                nh, toks = process_header(h, double, al, hc)
                ph = {"new_header": nh if isinstance(nh, str) else None, "tokens": list(toks)}
            except Exception as e:  # noqa: BLE001
                ph = {"err": "internal"}
            ctx.count("fn:process_header")
            if (mh.get("err"), mh.get("new_header"), mh.get("tokens")) != (ph.get("err"), ph.get("new_header"), ph.get("tokens")):
                ctx.mismatch("process_header", {"sheet": sheet, "header": h, "double": double}, ph, mh)


def one_case(ctx, case, tag=""):
    r = run_impl(case)
    ctx.count(f"{tag}impl:{r['class']}")
    m = ctx.driver.call("c08.model", **L.driver_case(case))
    ctx.count(f"model:{m['outcome']}")
    if case.get("_xlsx") is None:
        headers_corr(ctx, case)
    nontrivial = False
    expected = {"ok": "ok", "pyxform": "rejected", "internal": "crash"}[r["class"]]
    in_fragment = m["outcome"] != "unsupported"
    if in_fragment and m["outcome"] != expected and not (m["outcome"] == "error" and r["class"] == "pyxform"):
        ctx.mismatch("outcome", {"case": case}, r["class"] + " " + r.get("msg", "")[:200], m["outcome"])
    if L.nested_default_hits(case):
        ctx.count("shape:default-suffix-after-unsuffixed-and-other")  # F39 / C17 crash shape, repaired by b0e6b55
    if r["class"] == "internal":
        ctx.fail(Failure("crash", r["msg"], {"case": case}))
    elif r["class"] == "ok":
        obs = L.observe(r["xform"], case)
        spec = lean_spec(ctx, case, obs["langs"] or [""])
        oracle(ctx, case, obs, spec)
        nontrivial = bool(obs["langs"])
        ctx.count(f"langs:{len(obs['langs'])}")
        if m["outcome"] == "ok":
            mt = triples_to_text(m["texts"])
            if sorted(m["langs"]) != sorted(obs["langs"]):
                ctx.mismatch("languages", {"case": case}, obs["langs"], m["langs"])
            d = first_diff(obs["text"], mt)
            if d is not None:
                ctx.mismatch("effective text", {"case": case}, {"at": d[:3], "impl": d[3]}, {"at": d[:3], "model": d[4]})
    ctx.record({"case": case}, nontrivial)
    return r


def maybe_xlsx(ctx, case, p):
    """the same content through the xlsx container with layout noise (spacer columns, trailing empty columns, blank rows)"""
    if ctx.rng.random() < p:
        one_case(ctx, {**case, "_xlsx": ctx.rng.randrange(1 << 30)}, tag="xlsx:")


def explore(ctx, factor, bs):
    rng = ctx.rng
    for sheet in ("s", "c"):
        for form in L.exhaustive_small(sheet=sheet):
            one_case(ctx, L.render(form), tag="exh:")
    ctx.notes["exhaustive_substream"] = "a bounded sub-stream of this run is enumerated completely; the run as a whole samples an unbounded space"
    for case in L.directed_cases():
        one_case(ctx, case, tag="dir:")
        maybe_xlsx(ctx, case, 1.0)
    fam = list(L.search_family())
    rng.shuffle(fam)
    for form in fam[: ctx.pick(150, len(fam)) * (1 if factor == 1 else 2)]:
        one_case(ctx, L.render(form), tag="search:")
    for form in L.ref_message_family():
        one_case(ctx, L.render(form), tag="refmsg:")
    fam = list(L.same_name_family())
    rng.shuffle(fam)
    for form in fam[: ctx.pick(60, len(fam))]:
        one_case(ctx, L.render(form), tag="samename:")
    fam = list(L.long_list_family())
    rest = fam[2:]
    rng.shuffle(rest)
    for form in fam[:2] + rest[: ctx.pick(4, len(rest))]:
        one_case(ctx, L.render(form), tag="longlist:")
    fam = list(L.unlabelled_family())
    rng.shuffle(fam)
    for form in fam[: ctx.pick(150, len(fam)) * (1 if factor == 1 else 2)]:
        one_case(ctx, L.render(form), tag="unlabelled:")
    # repeats: the same kind of forms with their rows nested in repeats (and converted groups) at depth 1..4
    for case in L.deep_repeat_family():
        one_case(ctx, case, tag="deeprep:")
        maybe_xlsx(ctx, case, 0.25)
    for i in range(ctx.pick(350, 12000) * factor):
        case = L.nest_repeats(rng, L.render(L.random_form(rng, big=not ctx.quick())))
        one_case(ctx, case, tag="rep:")
        ctx.count("rep:depth:%d" % max([p.count("/") - 2 for _, p, _, _ in L.survey_layout(case)] or [0]))
        maybe_xlsx(ctx, case, ctx.pick(0.06, 0.03))
    n = ctx.pick(1500, 40000) * factor
    for i in range(n):
        form = L.random_form(rng, big=not ctx.quick())
        case = L.render(form)
        one_case(ctx, case, tag="rnd:")
        maybe_xlsx(ctx, case, ctx.pick(0.12, 0.05))


def is_f38(f: Failure) -> bool:
    return f.kind == "language-missing-empty-column"


def replay(ctx, payload, bs):
    before = len(ctx.failures), len(ctx.mismatches)
    one_case(ctx, payload["case"]["case"])
    return (len(ctx.failures), len(ctx.mismatches)) == before


def main(argv):
    return vcore.run_check(PROP, explore, RULE, matchers={"F38-empty-translated-column": is_f38}, replay=replay, argv=argv)
