"""
C08 — each language shows exactly the text written for it.

Theorems: Pyxv/Proofs/C08.lean.  Tie: Lean `Headers.processHeader` / `dealiasAndGroupHeaders` vs the Python
functions on the same header/row tuples; Lean text model (`c08.model`) vs the effective text observed in the
implementation's XForm.  Oracle: the observation equals `Spec.text` (Lean, `c08.spec`; cross-checked by the
short Python reading in c08_lib.py), every language named gets a translation, none invented.
"""

from __future__ import annotations

import copy
import json

import c08_lib as L
import vcore
from vcore import Failure

PROP = "C08"
RULE = (
    "bounded-exhaustive: 1 element x each kind x {unsuffixed, en, fr} subsets x all column orders x 4 default-language "
    "configurations x 2 delimiters on survey and choices; random: <=3 elements (questions, selects, a group) x 7 kinds x "
    "<=3 languages with distinct marker texts, alias spellings, 5 delimiter styles, shuffled column order, default_language "
    "setting/argument; distinct by canonical hash; non-trivial = accepted and at least one translation"
)


def run_impl(case):
    from pyxform.errors import PyXFormError
    from pyxform.xls2xform import convert

    kw = {}
    if case.get("arg_dl") is not None:
        kw["default_language"] = case["arg_dl"]
    try:
        r = convert(xlsform=copy.deepcopy(L.wb_of_case(case)), **kw)
    except PyXFormError as e:
        return {"class": "pyxform", "msg": str(e)}
    except Exception as e:  # noqa: BLE001
        return {"class": "internal", "msg": f"{type(e).__name__}: {e}"}
    return {"class": "ok", "xform": r.xform, "warnings": list(r.warnings)}


def first_diff(a, b):
    for key in sorted(set(a) | set(b)):
        for kind in sorted(set(a.get(key, {})) | set(b.get(key, {}))):
            x, y = a.get(key, {}).get(kind, {}), b.get(key, {}).get(kind, {})
            for lang in sorted(set(x) | set(y)):
                if x.get(lang) != y.get(lang):
                    return key, kind, lang, x.get(lang), y.get(lang)
    return None


def oracle(ctx, case, obs, spec):
    """Decide the property on the implementation's observation."""
    ok = True
    if obs["dup_langs"]:
        ctx.fail(Failure("language-duplicated", f"translations {obs['langs']}", {"case": case}))
        ok = False
    have, want, content = set(obs["langs"]), set(spec["langs"]), set(spec["langs_content"])
    if have - want:
        ctx.fail(Failure("language-invented", f"translation(s) {sorted(have - want)} for languages the sheets never mention", {"case": case}))
        ok = False
    missing = want - have
    if missing:
        only_empty = missing <= (want - content)
        kind = "language-missing-empty-column" if only_empty else "language-missing"
        ctx.fail(Failure(kind, f"no translation for {sorted(missing)} (named by a translated column)", {"case": case},
                         extra={"missing": sorted(missing)}))
        ok = False
    view = obs["langs"] or [""]
    want_text = L.spec_text(spec, view)
    d = first_diff(obs["text"], want_text)
    if d is not None:
        key, kind, lang, got, exp = d
        ctx.fail(Failure("text", f"element {key} {kind} for language {lang!r}: shown {got!r}, written {exp!r}", {"case": case},
                         extra={"key": key, "kind": kind, "lang": lang}))
        ok = False
    return ok


def one_case(ctx, case, tag=""):
    r = run_impl(case)
    spec = L.py_spec(case)
    ctx.count(f"{tag}impl:{r['class']}")
    nontrivial = False
    if r["class"] == "internal":
        if L.nested_default_shape(case):
            # a crash, not a wrong text: C17's finding (merge_dicts nests {dl: {dl: text}}); nothing for C08 to observe
            ctx.count("skipped:c17-crash-nested-default-language")
        else:
            ctx.fail(Failure("crash", r["msg"], {"case": case}))
    elif r["class"] == "ok":
        obs = L.observe(r["xform"], case)
        oracle(ctx, case, obs, spec)
        nontrivial = bool(obs["langs"])
        ctx.count(f"langs:{len(obs['langs'])}")
    ctx.record({"case": case}, nontrivial)
    return r


def explore(ctx, factor, bs):
    rng = ctx.rng
    for sheet in ("s", "c"):
        for form in L.exhaustive_small(sheet=sheet):
            one_case(ctx, L.render(form), tag="exh:")
    ctx.notes["exhaustive"] = True
    for case in L.directed_cases():
        one_case(ctx, case, tag="dir:")
    n = ctx.pick(1500, 40000) * factor
    for i in range(n):
        form = L.random_form(rng, big=not ctx.quick())
        one_case(ctx, L.render(form), tag="rnd:")


def is_f38(f: Failure) -> bool:
    return f.kind == "language-missing-empty-column"


def is_f39(f: Failure) -> bool:
    """wrong/missing text of a *choice* whose row has the nested-default shape for that very kind"""
    if f.kind != "text" or not f.extra.get("key", "").startswith("c"):
        return False
    hits = L.nested_default_hits(f.case["case"])
    return ("choices", int(f.extra["key"][1:]), f.extra["kind"]) in hits


def replay(ctx, payload, bs):
    before = len(ctx.failures), len(ctx.mismatches)
    one_case(ctx, payload["case"]["case"])
    return (len(ctx.failures), len(ctx.mismatches)) == before


def main(argv):
    return vcore.run_check(PROP, explore, RULE, matchers={"F38-empty-translated-column": is_f38, "F39-choices-default-suffix-nested": is_f39}, replay=replay, argv=argv)
