"""
C02 — history stream: "in every XForm produced" also covers an XForm regenerated from a Survey object that was
edited after a first conversion.  `SurveyElement.get_xpath` caches the absolute path of each element
(`_survey_element_xpath`, the `state` anchor of the property: "must be reset when parent changes"); binds, body
refs and setvalue refs are emitted from that cache while the primary instance is rebuilt from the tree, so a stale
cache makes a nodeset name a node that is no longer there.

Sequence per case: convert (fills every cache) → move one question or one whole section (with its descendants)
to another section through the public `add_child()` → `Survey.to_xml()` again → the closure / uniqueness oracle of
the C02 check on the regenerated XForm.  A move that the regenerated survey rejects (PyXFormError: name clash in
the new place, reference out of scope …) is a rejection, not a case.  Moves keep every element name of the form
unique, so no `${ref}` becomes ambiguous by the move.

Genuine defect found by this stream on the pinned tree and repaired (fix: bc746a3): moving a *section* reset only
the section's own cache, its descendants kept `/data/a/q1` while the instance had `/data/b/a/q1`.
"""

from __future__ import annotations

import formobs
import impl
from vcore import Failure

DIRECTED = [
    # (form, name of the element to move, name of the target section or None for the survey root)
    ({"survey": [
        {"type": "text", "name": "village", "label": "V"},
        {"type": "begin group", "name": "household", "label": "H"},
        {"type": "text", "name": "head", "label": "Head", "relevant": "${village} != ''"},
        {"type": "end group"},
    ]}, "village", "household"),
    ({"survey": [
        {"type": "begin group", "name": "a", "label": "A"},
        {"type": "text", "name": "q1", "label": "Q1", "required": "yes"},
        {"type": "begin repeat", "name": "r", "label": "R"},
        {"type": "integer", "name": "q3", "label": "Q3", "constraint": ". > 0"},
        {"type": "end repeat"},
        {"type": "end group"},
        {"type": "begin group", "name": "b", "label": "B"},
        {"type": "text", "name": "q2", "label": "Q2"},
        {"type": "end group"},
    ]}, "a", "b"),
    ({"survey": [
        {"type": "begin group", "name": "a", "label": "A"},
        {"type": "begin group", "name": "inner", "label": "I"},
        {"type": "text", "name": "q1", "label": "Q1", "calculation": "1 + 1"},
        {"type": "end group"},
        {"type": "end group"},
    ]}, "inner", None),
]


def _sections(survey):
    from pyxform.section import Section

    return [e for e in survey.iter_descendants() if isinstance(e, Section)]


def _movable(survey):
    """Questions and sections that came from rows (generated meta / helper nodes stay where they are)."""
    from pyxform.question import Question
    from pyxform.section import Section

    out = []
    for e in survey.iter_descendants():
        if e is survey or e.parent is None:
            continue
        if not isinstance(e, Question | Section):
            continue
        nm = e.name or ""
        if nm == "meta" or e.parent.name == "meta" or nm.endswith("_count") or nm.endswith("_other"):
            continue
        out.append(e)
    return out


def _inside(e, anc) -> bool:
    while e is not None:
        if e is anc:
            return True
        e = e.parent
    return False


def move_and_regenerate(ctx, oracle, form, pick):
    """`pick(survey) -> (element, target) | None`.  Returns True when a regenerated XForm was judged."""
    from pyxform.errors import PyXFormError

    r = impl.run(form, want_survey=True)
    if not r["ok"]:
        return False
    survey = r["_survey"]
    mv = pick(survey)
    if mv is None:
        return False
    elem, target = mv
    old_parent = elem.parent
    desc = {"move": elem.name, "from": old_parent.name, "to": target.name, "to_root": target is survey,
            "kind": type(elem).__name__}
    case = {"form": form, "history": desc}
    old_parent.children = [c for c in old_parent.children if c is not elem]
    target.add_child(elem)
    try:
        xform2 = survey.to_xml(validate=False, pretty_print=False)
    except PyXFormError:
        ctx.count("history:rejected-after-move")
        return False
    except RecursionError:
        return False
    obs = formobs.observe(xform2)
    before = len(ctx.failures)
    oracle(ctx, case, obs)
    for f in ctx.failures[before:]:
        f.kind = f.signature = "history-" + f.kind
        f.case = case
    ctx.count("history:regenerated")
    ctx.count("history:moved-" + ("section" if desc["kind"].endswith("Section") else "question"))
    ctx.record(case, True)
    return True


def _pick_named(name, target_name):
    def pick(survey):
        elem = next((e for e in survey.iter_descendants() if e.name == name and e is not survey), None)
        target = survey if target_name is None else next(
            (e for e in _sections(survey) if e.name == target_name), None)
        if elem is None or target is None:
            return None
        return elem, target
    return pick


def _pick_random(rng):
    def pick(survey):
        cands = _movable(survey)
        if not cands:
            return None
        # sections first half of the time: their descendants' caches are the interesting state
        from pyxform.section import Section

        secs = [e for e in cands if isinstance(e, Section)]
        elem = rng.choice(secs) if secs and rng.random() < 0.5 else rng.choice(cands)
        targets = [s for s in _sections(survey)
                   if s is not elem.parent and not _inside(s, elem) and s.name != "meta"
                   and not (s.get("flat"))]
        if not targets:
            return None
        return elem, rng.choice(targets)
    return pick


def replay_case(ctx, oracle, case):
    h = case["history"]

    def pick(survey):
        elem = next((e for e in survey.iter_descendants() if e.name == h["move"] and e is not survey), None)
        target = survey if h.get("to_root") else next(
            (e for e in _sections(survey) if e.name == h["to"] and e is not survey), None)
        if elem is None or target is None:
            return None
        return elem, target
    return move_and_regenerate(ctx, oracle, case["form"], pick)


def explore(ctx, oracle, gen_form, factor):
    for form, name, target in DIRECTED:
        move_and_regenerate(ctx, oracle, form, _pick_named(name, target))
    rng = ctx.rng
    done = 0
    for _ in range(ctx.pick(250, 6000) * factor):
        if move_and_regenerate(ctx, oracle, gen_form(rng), _pick_random(rng)):
            done += 1
    ctx.notes["history_stream"] = (
        f"{done} regenerated XForms after re-parenting one question / section of a converted Survey "
        "(convert → add_child → to_xml), judged by the same closure / uniqueness oracle")
