"""
C06 — user text is data, never markup.

Theorem side: Pyxv/Proofs/C06.lean (channel theorems over Pyxv/Model/Channel.lean) on top of the
XML round-trip theorems (Pyxv/Proofs/XmlRoundTrip.lean).

Check:
 (a) correspondence, function level: `pyxform.utils.node` (text / attribute / toParseString),
     `escape_text_for_xml`, `Survey.insert_output_values` on a tiny real survey object are run on the same
     strings as the Lean channel model (`chan.*` ops); what an XML reader recovers from both must agree;
 (b) oracle 1 (recovery): every probe cell of a generated form is located in the implementation's XForm
     (expat tree, cross-checked against the Lean reader) and compared with the cell modulo the documented
     whitespace normalisation, together with its child structure (text chunks / one `output` per reference);
 (c) oracle 2 (shape non-interference): tags + attribute names of the whole document equal those of the
     same form with every literal text replaced by a benign word (two implementation runs).
"""

from __future__ import annotations

import copy

import c06_forms as F
import impl
import vcore
import xmlutil
from vcore import Failure

PROP = "C06"
RULE = (
    "probe forms: every text-bearing cell kind (label, hint, guidance_hint, constraint_message, required_message, "
    "group label, choice label, choice extra column, static default, form_title, version, appearance, bind::x, body::x) "
    "x structured adversarial cells (XML metacharacters, entity/CDATA/comment/PI/DOCTYPE-like fragments, quotes, braces, "
    "astral, RTL/bidi controls, NBSP, TAB/LF) x with/without ${ref} (and instance() expressions in labels/hints) x 0-3 "
    "languages; function-level correspondence of node()/escape_text_for_xml/insert_output_values with the Lean channel "
    "model on the same strings. distinct = canonical hash of (form) or (channel, string); non-trivial = form accepted by "
    "the converter with >= 1 probe located / string with >= 1 XML metacharacter"
)
XP = {"a": "/data/a", "b2": "/data/b2"}
import re as _re

# `indexed-repeat(` … `)` with a line break inside the parentheses (F46)
RE_IR_MULTILINE = _re.compile(r"indexed-repeat\([^)]*\n[^)]*\)")


# ------------------------------------------------------------------ oracle on one form


def parse_doc(ctx, text, what, case):
    """expat tree (None when not well-formed) cross-checked against the Lean reader."""
    et, err = xmlutil.expat_tree(text)
    if ctx.rng.random() < ctx.notes.get("_lean_parse_rate", 1.0):
        v = ctx.driver.call("xml.parse", text=text)
        lt = v["tree"] if v["ok"] else None
        if et is None and lt is not None:
            # the Lean reader is laxer than expat on reserved PI targets (`<?xml …?>` inside content):
            # go with the stricter verdict (not well-formed) and record the discrepancy
            ctx.count("lean_reader_laxer_than_expat")
        elif (lt is None) != (et is None) or (lt is not None and not xmlutil.tree_eq(lt, et)):
            raise vcore.Infra(f"Lean XML reader and expat disagree on {what}: lean={'ok' if lt else 'reject'} expat={err or 'ok'} text={text[:300]!r}")
        ctx.count("lean_reader_crosschecked")
    return et, err


def strip_nonxml(form):
    f = copy.deepcopy(form)
    hit = False
    for s in impl.SHEETS:
        for row in f.get(s) or []:
            for k, v in list(row.items()):
                if isinstance(v, str) and any(not F.is_xml_char(c) for c in v):
                    row[k] = "".join(c for c in v if F.is_xml_char(c))
                    hit = True
    return f, hit


def esc_once(s):
    return s.replace("&", "&amp;").replace("<", "&lt;").replace(">", "&gt;")


def classify_probe_failure(probe, exp, got):
    """signature of a recovery/structure failure (for the known-finding matchers)."""
    parts = probe["parts"]
    if probe["chan"] == "guidance_hint" and ":" in probe["where"].get("xpath", "").rsplit("/", 1)[-1]:
        # F41: Survey.itext() takes the part after the FIRST colon of the itext id as the label type
        g, e = F.ws_norm_text(F.flat(got)), F.ws_norm_text(F.flat(exp))
        if g == F.ws_norm_text("jr://guidance/" + F.flat(exp)) or (g.startswith("jr://guidance/") and g[len("jr://guidance/"):].strip() == e):
            return "guidance-media-url-prefixed-name"
    got_o = [c[1] for c in got if c[0] == "o"]
    exp_o = [c[1] for c in exp if c[0] == "o"]
    for i, p in enumerate(parts):
        if p[0] != "i":
            continue
        before = F.cell_text(parts[:i])
        if ("'" in before or '"' in before) and any(c[0] == "t" and "instance(" in c[1] for c in got):
            return "instance-hidden-by-quote"
        val = next((c[1] for c in exp if c[0] == "o" and c[1].startswith(p[1])), None)
        if val is None:
            continue
        # text that follows the instance expression in the (cleaned) cell
        tail = F.RE_SPACES.sub(" ", F.cell_text(parts[i + 1:]))
        dbl = esc_once(val)
        for g in got_o:
            for v in (val, dbl):
                if g.startswith(v) and g != v and any(tail.startswith(op) for op in (" and ", " or ", " div ", " mod ")):
                    return "instance-op-swallow"
        if dbl != val and dbl in got_o and val not in got_o:
            # everything else equal?
            if [x if x != dbl else val for x in got_o] == exp_o:
                return "instance-double-escape"
    return "other"


def check_form(ctx, form, probes, tag="gen", expect_reject=False, r=None, env_name=None):
    case = {"kind": "form", "form": form, "probes": probes}
    if env_name:
        case["env"] = env_name
    if r is None:
        r = impl.run(form)
    ctx.count(f"form:{r['class']}")
    if expect_reject:
        # a cell with a character that is not an XML Char: the only outcomes compatible with the property are a
        # located rejection (PyXFormError) - anything converted is judged by the oracles below
        ctx.count("f4:" + ("rejected" if r["class"] == "pyxform" else r["class"]))
    if not r["ok"]:
        if r["class"] == "internal":
            ctx.count("internal:" + r.get("site", "?"))
            if r.get("site") == "utils.py:node" or r.get("exc") == "ExpatError":
                # node(..., toParseString=True) could not re-parse what insert_output_values produced
                f2, hit = strip_nonxml(form)
                sig = "reparse-crash:nonxml-char" if hit and impl.run(f2)["ok"] else "reparse-crash:other"
                ctx.fail(Failure("reparse-crash", f"re-parse of the mixed channel failed: {r['msg']}", case, signature=sig))
                ctx.record({"form": form}, True)
                return None
        if not expect_reject and tag in ("gen", "env", "directed") and probes:
            # user text must not decide whether the form converts: the same form with benign texts
            ph0 = F.with_cells(form, probes, lambda p: F.placeholder_parts(p["parts"]))
            r0 = impl.run(ph0)
            if r0["ok"]:
                sig = f"text-changes-outcome:{r['class']}:{r.get('site', '')}"
                if r.get("site") == "survey.py:_is_return_relative_path" and r.get("exc") == "AttributeError" and any(
                        RE_IR_MULTILINE.search(F.cell_text(p["parts"])) for p in probes):
                    sig = "text-changes-outcome:indexed-repeat-multiline"
                ctx.fail(Failure("text-changes-outcome", f"the form is {r['class']} ({r.get('msg')}) although the same form with benign texts converts",
                                 case, signature=sig))
                ctx.record({"form": form}, True)
                return None
        ctx.record({"form": form}, False)
        return None
    tree, err = parse_doc(ctx, r["xform"], "XForm", form)
    if tree is None:
        f2, hit = strip_nonxml(form)
        sig = "not-wellformed:other"
        if hit:
            r2 = impl.run(f2)
            if r2["ok"] and xmlutil.expat_tree(r2["xform"])[0] is not None:
                sig = "not-wellformed:nonxml-char"
        ctx.fail(Failure("not-wellformed", f"XForm is not well-formed: {err}", case, signature=sig, extra={"xform": r["xform"][:4000]}))
        ctx.record({"form": form}, True)
        return None
    doc = F.Doc(tree)
    located = 0
    dynamic = set()
    known_failed = {}
    for p in probes:
        kind, got = F.locate(doc, p)
        cell = F.cell_text(p["parts"])
        key = f"{p['chan']}|{'ref' if any(x[0] != 't' for x in p['parts']) else 'plain'}|{'tr' if p['lang'] else 'mono'}"
        ctx.count("probe:" + key)
        pc = dict(case)
        pc["probe"] = p["id"]
        if kind == "missing":
            ctx.fail(Failure("not-found", f"{p['chan']} lang={p['lang']}: {got}; cell={cell!r}", pc, signature="not-found:" + p["chan"]))
            continue
        located += 1
        if kind in ("attr", "attr-dynamic"):
            if kind == "attr-dynamic":
                dynamic.add(p["id"])
                ctx.count("default:dynamic")
            if F.ws_norm_attr(got) != F.ws_norm_attr(F.expected_attr(p["parts"], XP)):
                ctx.fail(Failure("not-recovered", f"{p['chan']} (attribute): cell={cell!r} recovered={got!r}", pc,
                                 signature="not-recovered:attr:other"))
            continue
        exp = F.expected_chunks(p["parts"], XP)
        bad_struct = F.kinds(got) != F.kinds(exp)
        bad_text = F.ws_norm_text(F.flat(got)) != F.ws_norm_text(F.flat(exp))
        if bad_struct or bad_text:
            sig = classify_probe_failure(p, exp, got)
            k = "structure" if bad_struct else "not-recovered"
            if ctx.fail(Failure(k, f"{p['chan']} lang={p['lang']}: cell={cell!r} expected={exp!r} recovered={got!r}", pc,
                                signature=f"{k}:{sig}")) == "known":
                known_failed[p["id"]] = sig
    # oracle 2: shape non-interference
    def ph_parts(p):
        return [["t", "1 + 1"]] if p["id"] in dynamic else F.placeholder_parts(p["parts"])

    ph = F.with_cells(form, probes, ph_parts)
    r2 = impl.run(ph)
    if not r2["ok"]:
        ctx.fail(Failure("shape", f"the form with benign texts is {r2['class']}: {r2.get('msg')} while the adversarial one converts", case,
                         signature="shape:placeholder-rejected"))
    else:
        t2, err2 = xmlutil.expat_tree(r2["xform"])
        if t2 is None:
            raise vcore.Infra(f"placeholder form not well-formed: {err2}")
        d = F.shape_diff(F.shape(tree), F.shape(t2))
        if d:
            # is the difference explained by the probes that already failed with a known signature?  Replace
            # exactly those cells by their placeholders in the original form and compare again.
            sig = "other"
            if known_failed:
                f3 = F.with_cells(form, probes, lambda p: ph_parts(p) if p["id"] in known_failed else p["parts"])
                r3 = impl.run(f3)
                t3 = xmlutil.expat_tree(r3["xform"])[0] if r3["ok"] else None
                if t3 is not None and F.shape_diff(F.shape(t3), F.shape(t2)) is None:
                    sig = sorted(set(known_failed.values()))[0]
            ctx.fail(Failure("shape", f"document shape differs from the benign-text form: {d}", case, signature="shape:" + sig))
    ctx.record({"form": form}, located > 0)
    return r


# ------------------------------------------------------------------ function-level correspondence


class Tiny:
    """one real Survey with questions a, b2 (and a context question q) for insert_output_values"""

    _cache = None

    @classmethod
    def get(cls):
        if cls._cache is None:
            r = impl.run({"survey": [{"type": "text", "name": "a", "label": "A"}, {"type": "integer", "name": "b2", "label": "B"},
                                      {"type": "text", "name": "q", "label": "Q"}]}, want_survey=True)
            if not r["ok"]:
                raise vcore.Infra("tiny survey does not convert: " + str(r.get("msg")))
            s = r["_survey"]
            s._setup_xpath_dictionary()
            q = [c for c in s.children if c.name == "q"][0]
            cls._cache = (s, q)
        return cls._cache


def impl_channel(kind, tag, s, attrname="v"):
    """the implementation's element for one channel, serialised by its own writer"""
    from pyxform.errors import PyXFormError
    from pyxform.utils import node

    if kind == "text":
        el = node(tag, s)
    elif kind == "attr":
        el = node(tag, **{attrname: s})
    elif kind == "attrx":
        survey, q = Tiny.get()
        try:
            v = survey.insert_xpaths(s, q)
        except PyXFormError as e:
            return {"err": "pyxform", "msg": str(e)}
        except Exception as e:  # noqa: BLE001
            return {"err": "crash", "msg": f"{type(e).__name__}: {e}", "exc": type(e).__name__}
        el = node(tag, **{attrname: v})
    else:
        survey, q = Tiny.get()
        try:
            text, changed = survey.insert_output_values(s, q)
        except PyXFormError as e:
            return {"err": "pyxform", "msg": str(e)}
        except Exception as e:  # noqa: BLE001 a crash of the substitution itself
            return {"err": "crash", "msg": f"{type(e).__name__}: {e}", "exc": type(e).__name__}
        try:
            el = node(tag, text, toParseString=changed)
        except PyXFormError as e:
            return {"err": "pyxform", "msg": str(e)}
        except Exception as e:  # noqa: BLE001 expat error on the re-parse
            return {"err": "reparse", "msg": f"{type(e).__name__}: {e}"}
        return {"xml": el.toxml(), "inserted": text, "changed": changed}
    return {"xml": el.toxml()}


def corr_case(ctx, kind, s):
    """model channel vs implementation channel on the same string; compare what an XML reader sees"""
    tag = "label"
    m = ctx.driver.call("chan.run", kind=kind, tag=tag, s=s, refs=[[k, v] for k, v in XP.items()] + [["q", "/data/q"]])
    i = impl_channel(kind, tag, s)
    ctx.count(f"corr:{kind}")
    case = {"kind": "corr", "chan": kind, "s": s}
    if m.get("unsupported"):
        ctx.count("corr:unsupported:" + m["unsupported"])
        ctx.record(case, False)
        return
    ctx.count("corr:in_fragment")
    if i.get("err") == "crash":
        # oracle, function level: reference substitution crashed on user text (the model has no crash to mirror)
        sig = "text-changes-outcome:indexed-repeat-multiline" if (i.get("exc") == "AttributeError" and RE_IR_MULTILINE.search(s)) else "channel-crash:other"
        ctx.fail(Failure("text-changes-outcome", f"reference substitution crashed on {s!r}: {i['msg']}", case, signature=sig))
        ctx.record(case, True)
        return
    if "err" in i or m.get("err"):
        # observation level: is there an element at all?  (Which exception class a rejection uses is C17's
        # business; a crash of the re-parse is judged by the oracle just below.)
        if bool(i.get("err")) != bool(m.get("err")):
            ctx.mismatch(f"chan.{kind}: outcome", case, i, m)
        if i.get("err") == "reparse":
            # oracle, function level: the channel crashed on user text (an internal error, not a PyXFormError)
            sig = "reparse-crash:nonxml-char" if any(not F.is_xml_char(c) for c in s) else "reparse-crash:other"
            ctx.fail(Failure("reparse-crash", f"node(toParseString=True) cannot re-parse what insert_output_values made of {s!r}: {i['msg']}", case, signature=sig))
        ctx.record(case, True)
        return
    if kind == "mixed":
        # the intermediate string and flag are internals (quote style, spacing of the markup may change
        # without moving what a reader sees): measured, never deciding
        ctx.count("corr:inserted_string_equal" if (i["inserted"], i["changed"]) == (m["inserted"], m["changed"]) else "corr:inserted_string_differs")
    it, ierr = xmlutil.expat_tree(i["xml"])
    mt, merr = xmlutil.expat_tree(m["xml"])
    if (it is None) != (mt is None) or (it is not None and not xmlutil.tree_eq(it, mt)):
        ctx.mismatch(f"chan.{kind}: parsed element", case, i["xml"], m["xml"])
    ctx.count("corr:bytes_equal" if i["xml"] == m["xml"] else "corr:bytes_differ")
    # the model's own reader on the model's output must report the spec (the theorems' statement, evaluated)
    if not m.get("spec_ok", True) and all(F.is_xml_char(c) for c in s):
        ctx.mismatch(f"chan.{kind}: model output does not parse to the spec", case, m.get("parsed"), m.get("spec"))
    # oracle on the implementation's element (function level)
    if it is None:
        if any(not F.is_xml_char(c) for c in s):
            # node() itself does not check characters; validate_xml_document does, on the finished document
            # (directed stream `f4`): nothing to decide at function level
            ctx.count("corr:nonxml_left_to_document_check")
        else:
            ctx.fail(Failure("not-wellformed", f"node() output not well-formed for {s!r}: {ierr}", case, signature="not-wellformed:other"))
    ctx.record(case, any(c in s for c in "<>&\"'"))


BOUNDARY_CHARS = [0x0, 0x1, 0x8, 0x9, 0xA, 0xB, 0xC, 0xD, 0xE, 0x1F, 0x20, 0x7F, 0x85, 0xA0, 0xD7FF, 0xE000, 0xFFFD, 0xFFFE, 0xFFFF,
                  0x10000, 0x1FFFE, 0x10FFFF]


def validchars_case(ctx, s):
    """`_validate_xml_chars` (INVALID_XML_CHAR_REGEX) vs Chan.validChars"""
    import pyxform.utils as U

    rx = getattr(U, "INVALID_XML_CHAR_REGEX", None)
    if rx is None:
        ctx.count("validchars:regex_absent")
        return
    i = rx.search(s) is None
    m = ctx.driver.call("chan.validchars", s=s)
    ctx.count("corr:validchars")
    if i != m:
        ctx.mismatch("validChars vs INVALID_XML_CHAR_REGEX", {"kind": "validchars", "s": s}, i, m)


INST_JUNK = ["instance(", "instance('l')", "instance('l')/", "instance('l')/root", "/root/item", "[", "]", "[name = 1]", " and ", " or ",
             " div ", " mod ", "'", '"', " ", "  ", "${a}", "${b2}", "/label", "myinstance('x')", "instance(\"l\")/root/item[a=${a}]/b",
             "x", "<", "&", ",", "(", ")", "-", "*", "|", "instance('l')/root/item[instance('m')/root/x = 1]/label", "\n", "1", ".", ".."]


def corr_string(rng):
    r = rng.random()
    if r < 0.14:
        # instance() expressions: structured cells (as in the probe forms) or lexical junk around `instance(`
        if rng.random() < 0.5:
            parts = F.gen_parts(rng, ["a", "b2", "q"], rng.random() < 0.6, True)
            if not any(p[0] == "i" for p in parts):
                parts.append(["t", " "])
                parts.append(["i", rng.choice(F.INST_PRE), rng.choice(["a", None]) , rng.choice(F.INST_POST)])
                if parts[-1][2] is None:
                    parts[-1][1] += "1"
            return F.cell_text(parts) + rng.choice(["", "", " and ${a} t", " or x", " div 2", "'s", " \"q\""])
        return "".join(rng.choice(INST_JUNK) for _ in range(rng.randint(2, 9)))
    s = F.adv(rng, 7)
    if r < 0.5:
        return s
    refs = ["a", "b2", "q"]
    n = rng.randint(1, 3)
    out = s if rng.random() < 0.8 else ""
    for _ in range(n):
        x = rng.random()
        if x < 0.7:
            out += "${" + rng.choice(refs) + "}"
        elif x < 0.8:
            out += "${last-saved#" + rng.choice(refs) + "}"
        elif x < 0.9:
            out += "${" + rng.choice(["zz", "a b", "", "a&b", " a", "a}b"]) + "}"
        elif x < 0.97:
            out += rng.choice(["${", "}", "{", "$", "${a\n}", "${last-saved#}"])
        else:
            out += rng.choice([" instance('l')/root/item[name = ${a}]/label ", "instance(", " myinstance('x') "])
        if rng.random() < 0.7:
            out += F.adv(rng, 4)
    return out


# ------------------------------------------------------------------ directed streams (known findings must be rediscovered)


def directed(ctx):
    base = [{"type": "text", "name": "a", "label": "A"}, {"type": "integer", "name": "b2", "label": "B"}]

    def one(parts, chan="label", extra=None, expect_reject=False):
        row = {"type": "text", "name": "q0", "label": "L"}
        row[chan] = F.cell_text(parts)
        row.update(extra or {})
        form = {"survey": [*copy.deepcopy(base), row]}
        probes = [{"id": 0, "chan": chan, "where": {"xpath": "/data/q0"}, "lang": None, "parts": parts, "sheet": "survey", "row": 2, "col": chan}]
        check_form(ctx, form, probes, "directed", expect_reject=expect_reject)

    # F15: a boolean/math word operator after an instance() path
    for op in (" and ", " or ", " div ", " mod "):
        one([["i", "instance('l')/root/item[name = 'c1']/label", None, ""], ["t", op], ["r", "a"], ["t", " tail"]])
        one([["t", "x "], ["i", "instance('l')/root/item[name = ", "a", "]/label"], ["t", op + "y"]], chan="hint")
    # the same shapes with harmless followers must pass
    one([["i", "instance('l')/root/item[name = 'c1']/label", None, ""], ["t", " - "], ["r", "a"], ["t", " tail"]])
    one([["t", "x "], ["i", "instance('l')/root/item[name = ", "a", "]/label"], ["t", " y"]])
    # double escaping of the instance expression's own text
    for lit in ("name < 3", "name > 3", "name = 'a&b'", "name = \"<x>\""):
        one([["t", "x "], ["i", f"instance('l')/root/item[{lit}]/label", None, ""], ["t", " y"]])
    # F4 (fixed by validate_xml_document): characters that are not XML characters, in several channels, must be
    # rejected; never a not-well-formed document
    for c in F.NON_XML[:6] + F.NON_XML[7:]:
        for chan in ("label", "hint", "constraint_message", "default", "appearance", "bind::foo"):
            if ctx.quick() and ctx.rng.random() < 0.7:
                continue
            one([["t", f"a{c}b"]], chan=chan, expect_reject=True)
    one([["t", "a\x01b "], ["r", "a"], ["t", " c"]], expect_reject=True)
    # cells that share one itext id (label / hint / guidance_hint / media), each absent, plain or per language:
    # every combination, in a two-language form; every text must be displayed by the control (seeded C06-8 class)
    import itertools

    for lab, hin, gui, med in itertools.product(("plain", "lang"), (None, "plain", "lang"), (None, "plain", "lang"), (False, "plain", "lang")):
        if ctx.quick() and (hin is None and gui is None):
            continue
        only = {"label"} | ({"hint"} if hin else set()) | ({"guidance_hint"} if gui else set())
        form, probes = F.gen_probe_form(ctx.rng, ["English (en)", "fr"], p_ref=0.3, only=only, p_instance=False,
                                        only_style={"label": lab, "hint": hin, "guidance_hint": gui}, media=med)
        ctx.count("combo:forms")
        check_form(ctx, form, probes, "directed")
    # the NUMBER of references in one cell as a size dimension: 1, 2, 15, 16, 17, 40 in every channel kind
    # (mixed content, itext value, attribute through insert_xpaths) - the theorems say "any number"
    for n in F.REF_COUNTS:
        for langs in ([], ["en", "fr"]) if n in (17, 40) else ([],):
            row = {"type": "text", "name": "q0"}
            probes = []
            for chan in ("label", "hint", "guidance_hint", "constraint_message", "required_message", "no_app_error_string",
                         "appearance", "bind::foo", "body::bar"):
                for lg in ((langs or [None]) if chan in F.TRANSLATABLE else [None]):
                    parts = F.many_ref_parts(ctx.rng, ["a", "b2"], n)
                    col = chan if lg is None else f"{chan}::{lg}"
                    row[col] = F.cell_text(parts)
                    probes.append({"id": len(probes), "chan": chan, "where": {"xpath": "/data/q0"}, "lang": lg, "parts": parts,
                                   "sheet": "survey", "row": 2, "col": col})
            ctx.count("manyrefs:forms")
            check_form(ctx, {"survey": [*copy.deepcopy(base), row]}, probes, "directed")
    # F40: a quote before an instance() expression
    one([["t", "it's "], ["i", "instance('l')/root/item[name = 1]/label", None, ""]])
    # F46 (fixed by 9564302; regression): text that mentions indexed-repeat( … ) over several lines next to a reference
    one([["t", "see indexed-repeat(x,\n"], ["r", "a"], ["t", ") z"]], chan="hint")
    one([["t", "indexed-repeat(x, y, 1) "], ["r", "a"], ["t", " same line"]], chan="label")
    # a question name with a declared namespace prefix: every channel of that question, 0-2 languages (F41 lives here)
    for langs in ([], ["en"], ["en", "fr"]):
        row = {"type": "text", "name": "ex:q"}
        probes = []
        for chan in ("label", "hint", "guidance_hint", "constraint_message", "required_message"):
            for lg in (langs or [None]):
                parts = F.gen_parts(ctx.rng, ["a", "b2"], ctx.rng.random() < 0.4, False)
                col = chan if lg is None else f"{chan}::{lg}"
                row[col] = F.cell_text(parts)
                probes.append({"id": len(probes), "chan": chan, "where": {"xpath": "/data/ex:q"}, "lang": lg, "parts": parts,
                               "sheet": "survey", "row": 2, "col": col})
        form = {"survey": [*copy.deepcopy(base), row], "settings": [{"namespaces": 'ex="http://example.com/ex"'}]}
        check_form(ctx, form, probes, "directed")
    # line ends and attribute-value normalisation (must pass modulo the documented normalisation)
    for chan in ("label", "hint", "constraint_message", "default", "appearance", "bind::foo", "body::bar", "required_message"):
        one([["t", "l1\r\nl2\rl3\nl4\tl5  l6"]], chan=chan)
    one([["t", "l1\r\nl2 "], ["r", "a"], ["t", "\rl3\n"], ["r", "b2"], ["t", "\tl5"]])


# ------------------------------------------------------------------ environment stream: the locale of the converting process

ENVS = {
    # what Python has on a stock Windows installation / under a legacy POSIX locale: default text encoding not UTF-8
    "legacy-locale": {"LC_ALL": "C", "LANG": "C", "PYTHONUTF8": "0", "PYTHONCOERCECLOCALE": "0"},
    "utf8": {"LC_ALL": "C.UTF-8", "LANG": "C.UTF-8", "PYTHONUTF8": "1"},
}


def run_children(forms, env_name):
    import json
    import os
    import subprocess
    import sys

    env = dict(os.environ)
    for k in ("LC_ALL", "LANG", "LC_CTYPE", "PYTHONUTF8", "PYTHONCOERCECLOCALE", "PYTHONIOENCODING"):
        env.pop(k, None)
    env.update(ENVS[env_name])
    here = os.path.dirname(os.path.dirname(os.path.abspath(__file__)))
    env["PYTHONPATH"] = here + os.pathsep + env.get("PYTHONPATH", "")
    p = subprocess.run([sys.executable, os.path.join(here, "c06_child.py")], input=json.dumps(forms).encode("ascii"),
                       capture_output=True, env=env, timeout=600, check=False)
    if p.returncode != 0:
        raise vcore.Infra(f"child process ({env_name}) failed: {p.stderr.decode('utf-8', 'replace')[-1500:]}")
    return json.loads(p.stdout.decode("ascii"))


def env_forms(ctx, n):
    """probe forms whose cells all carry text outside ASCII / Latin-1 / the BMP"""
    rng = ctx.rng
    spice = ["é", "ñ€", "שלום", "مرحبا", "中文", "\U0001F600", "\U00010348", "Ω–", "ß"]
    out = []
    for _ in range(n):
        langs = rng.choice([[], ["en"], ["fr", "ar"]])
        form, probes = F.gen_probe_form(rng, langs, p_ref=0.4, p_instance=False)
        for p in probes:
            for part in p["parts"]:
                if part[0] == "t" and part[1].strip():
                    part[1] = part[1] + rng.choice(spice)
        form = F.with_cells(form, probes, lambda p: p["parts"])
        out.append((form, probes))
    return out


def env_stream(ctx, cases=None):
    """The same forms converted in child processes whose default text encoding is / is not UTF-8: the outcome and
    the recovered texts must not depend on it."""
    cases = cases or env_forms(ctx, ctx.pick(3, 12))
    forms = [f for f, _ in cases]
    res = {name: run_children(forms, name) for name in ENVS}
    ctx.notes["environments"] = {n: {"preferred_encoding": r["preferred_encoding"], "utf8_mode": r["utf8_mode"]} for n, r in res.items()}
    if res["legacy-locale"]["preferred_encoding"].lower().replace("-", "") in ("utf8",):
        ctx.count("env:legacy_locale_unavailable")
    for i, (form, probes) in enumerate(cases):
        a, b = res["legacy-locale"]["results"][i], res["utf8"]["results"][i]
        ctx.count("env:forms")
        case = {"kind": "env", "form": form, "probes": probes}
        if a["class"] != b["class"]:
            ctx.fail(Failure("locale-dependent", f"outcome depends on the process locale: legacy={a['class']} ({a.get('msg')}) utf8={b['class']} ({b.get('msg')})",
                             case, signature="locale-dependent:outcome"))
            ctx.record({"env": form}, True)
            continue
        if a["ok"]:
            if a["xform"] != b["xform"]:
                ta, tb = xmlutil.expat_tree(a["xform"])[0], xmlutil.expat_tree(b["xform"])[0]
                if ta is None or tb is None or not xmlutil.tree_eq(ta, tb):
                    ctx.fail(Failure("locale-dependent", "the XForm read by an XML parser depends on the process locale", case,
                                     signature="locale-dependent:document", extra={"legacy": a["xform"][:3000], "utf8": b["xform"][:3000]}))
            # the recovery / structure / shape oracles on what the legacy-locale process produced
            check_form(ctx, form, probes, "env", r=a, env_name="legacy-locale")
        else:
            ctx.record({"env": form}, False)


# ------------------------------------------------------------------ explore / replay


def explore(ctx, factor, bs):
    rng = ctx.rng
    ctx.notes["_lean_parse_rate"] = ctx.pick(1.0, 0.25)
    directed(ctx)
    if factor == 1:
        env_stream(ctx)
    n_forms = ctx.pick(500, 9000) * factor
    n_corr = ctx.pick(6000, 120000) * factor
    for _ in range(n_forms):
        langs = rng.choice([[], [], ["en"], ["en", "fr"], ["English (en)", "fr", "ar"]])
        form, probes = F.gen_probe_form(rng, langs, p_ref=rng.choice([0.0, 0.35, 0.7]), plain=rng.random() < 0.05)
        check_form(ctx, form, probes)
    for _ in range(n_corr):
        kind = rng.choice(["text", "attr", "attrx", "mixed", "mixed"])
        s = corr_string(rng) if kind in ("mixed", "attrx") else F.adv(rng, 7)
        if rng.random() < 0.03:
            s += rng.choice(["\r", "\r\n", "\t", "\n"]) + F.adv(rng, 2)
        corr_case(ctx, kind, s)
    for n in F.REF_COUNTS:
        for kind in ("mixed", "attrx"):
            for _ in range(ctx.pick(2, 10)):
                corr_case(ctx, kind, F.cell_text(F.many_ref_parts(rng, ["a", "b2", "q"], n)))
                ctx.count("corr:manyrefs")
    for n in BOUNDARY_CHARS:
        validchars_case(ctx, f"a{chr(n)}b")
    for _ in range(ctx.pick(300, 5000) * factor):
        s = F.adv(rng, 4)
        if rng.random() < 0.5:
            k = rng.randint(0, len(s))
            s = s[:k] + chr(rng.choice(BOUNDARY_CHARS)) + s[k:]
        validchars_case(ctx, s)
    for c in ("\x01", "￾"):
        for kind in ("text", "attr", "mixed"):
            corr_case(ctx, kind, f"a{c}b" + (" ${a}" if kind == "mixed" else ""))
    ctx.notes.pop("_lean_parse_rate", None)
    tot = ctx.dist.get("corr:in_fragment", 0) + sum(v for k, v in ctx.dist.items() if k.startswith("corr:unsupported:"))
    ctx.notes["fragment_share"] = round(ctx.dist.get("corr:in_fragment", 0) / tot, 4) if tot else None
    ctx.notes["normalisation"] = (
        "recovery is compared modulo: XML line-end normalisation; strip() + runs of U+0020 -> one (clean_text_values); "
        "attribute-value normalisation (TAB/LF/CR -> space); the boundary spaces writexml adds around mixed content. "
        "Smart quotes (replaced by design) are not generated; ${ref} in choices extra columns / settings is expected verbatim (F35)."
    )


def replay(ctx, payload, bs):
    case = payload["case"]
    before = len(ctx.failures)
    ctx.notes["_lean_parse_rate"] = 1.0
    if case["kind"] == "env":
        env_stream(ctx, [(case["form"], case["probes"])])
    elif case["kind"] == "validchars":
        validchars_case(ctx, case["s"])
    elif case["kind"] == "form" and case.get("env"):
        env_stream(ctx, [(case["form"], case["probes"])])
    elif case["kind"] == "form":
        check_form(ctx, case["form"], case["probes"], "replay")
    else:
        corr_case(ctx, case["chan"], case["s"])
    ctx.notes.pop("_lean_parse_rate", None)
    return len(ctx.failures) == before and not ctx.mismatches


MATCHERS = {
    # fixed, hence no matcher (they come back as VIOLATION): F4 (4f1a33e validate_xml_document), F4-reparse-non-xml-char
    # (9bea19c character check before the re-parse), F41-guidance-prefixed-name (ac4d9ef rpartition in Survey.itext),
    # F46-indexed-repeat-multiline-crash (9564302 RE_FUNCTION_ARGS with re.DOTALL); their directed cases stay as regressions
    "F15-instance-op-swallow": lambda f: f.signature in ("structure:instance-op-swallow", "not-recovered:instance-op-swallow", "shape:instance-op-swallow"),
    "F39-instance-double-escape": lambda f: f.signature in ("structure:instance-double-escape", "not-recovered:instance-double-escape", "shape:instance-double-escape"),
    "F40-instance-hidden-by-quote": lambda f: f.signature in ("structure:instance-hidden-by-quote", "not-recovered:instance-hidden-by-quote", "shape:instance-hidden-by-quote"),
}


def main(argv):
    return vcore.run_check(PROP, explore, RULE, matchers=MATCHERS, replay=replay, argv=argv)
