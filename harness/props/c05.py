"""
C05 — logic cells reach the right bind unchanged, with the type the table prescribes.

Theorems: Pyxv/Proofs/C05.lean.  Tie: `binds.model` (Lean: header row + raw cells ↦ ordered list of
bind elements with ordered attributes, `Pyxv.Binds.formBinds`) against the `<bind>` elements of the
implementation's XForm, exactly (order of binds, order of attributes); `binds.process_header`,
`binds.to_snake_case`, `binds.clean_cell` against the Python functions call for call.
Oracle: `binds.spec` (Lean `Pyxv.Binds.Spec.expected`, evaluated on the *abstract* row the generator
drew — canonical (bind, attr) keys, independent of the header spelling and of /repo's alias table)
gives the attribute map every row's bind must carry; the implementation's binds, keyed by nodeset,
must be exactly these maps: no attribute dropped, changed, duplicated or attached to another row,
no bind for a row without logic whose type prescribes none, no two binds for one node.
Phase 8: `binds.model_refs` (`Pyxv.Binds.formBindsR`: the same pipeline with the reference substitution of C03's
`Pyxv.Refs.insertXpathsText` from the row's own node — `${name}` to any element, relative paths included; theorems
Pyxv/Proofs/C05Refs.lean) must equal `binds.model` wherever that answers and is compared with the implementation on
the sheets only it answers; `binds.spec_refs` (`Spec.expectedR`) is the oracle's expected map on those sheets.
"""

from __future__ import annotations

import re

import impl
import vcore
import xmlutil
from vcore import Failure

PROP = "C05"
RULE = (
    "generated survey sheets: every non-select type of the regenerated type table + select_one/"
    "select_multiple/rank (+or_other) + groups/repeats (+count helper), random subsets of the logic "
    "columns (relevant, required, readonly, constraint, calculation, constraint/required message "
    "(plain, with ${ref}, translated), noAppErrorString, custom bind:: attributes incl. type override), "
    "each under a random documented spelling (alias, case, spacing, bind::x, bind:x), shuffled column "
    "order, yes/no spellings, ${ref}s to top-level questions, trigger, disabled rows; distinct by "
    "canonical hash; non-trivial = accepted with at least one logic cell"
)

# ---------------------------------------------------------------- abstract rows → sheets

# canonical bind attribute → spellings of the *first header token(s)* (documented aliases, own copy)
SPELL = {
    "relevant": ["relevant", "relevance", "bind::relevant"],
    "required": ["required", "bind::required"],
    "readonly": ["read_only", "readonly", "bind::readonly"],
    "constraint": ["constraint", "bind::constraint"],
    "calculate": ["calculation", "calculate", "bind::calculate"],
    "jr:constraintMsg": ["constraint_message", "constraining_message", "bind::jr:constraintMsg"],
    "jr:requiredMsg": ["required_message", "requiredmsg", "bind::jr:requiredMsg"],
    "jr:noAppErrorString": ["noapperrorstring", "no_app_error_string", "bind::jr:noAppErrorString"],
}
CUSTOM = ["foo", "Foo", "data-x", "odk:length", "jr:preload", "jr:preloadParams", "type", "x.y", "orx:max-pixels", "_u",
          "tag", "toParseString"]
YESNO = ["yes", "Yes", "YES", "true", "True", "TRUE", "no", "No", "NO", "false", "False", "FALSE",
         "true()", "false()", "maybe", "y", "tRuE", "1", "yes ", " no"]
EXPRS = [". > 3", ". != ''", "string-length(.) < 10", "1 + 1", "now()", "a  b", " . = 'x' ", "'a  b' = .",
         ". < 5 and . > 1", "‘q’ = .", "“z”", "true()", "yes", "no", "x", "0", "a&b", "<", ">", '"',
         "concat('a', \"b\")", "regex(., '^[a-z]+$')", "count(.) = 1", "{}", "}", "$", "$ {", "a:b", "é", "中",
         "selected(., 'a')", ". mod 2 = 0", "-1", "if(. = 1, 'a', 'b')", "once()", "uuid()", "NO", "False",
         # text shaped like XML character / entity references: it is cell text, and must come back as typed
         "concat('a', '&#10;', 'b')", "'&#x41;' = .", ". != '&#38;'", "&amp;", ". = '&lt;b&gt;'", "&quot;x&quot;", "&#9;", "a &#x;b",
         "&#0;", "&apos; &#65", "&#xD;&#xA;"]
MSGS = ["Too big", "Must be  set", "é ü", "a < b", "say \"hi\"", "it's", "x", "yes", "No", "No tab (&#9;) please", "R&amp;D &#x26; co",
        "line&#10;break"]
LANGS = ["fr", "en", "French (fr)", "default", "es"]


def case_variant(rng, s: str) -> str:
    """case / spacing noise on the first token of a header (documented as irrelevant)."""
    r = rng.random()
    if r < 0.55:
        return s
    if r < 0.65:
        return s.upper()
    if r < 0.75:
        return s.capitalize()
    if r < 0.85:
        return s.replace("_", rng.choice([" ", "  ", " \t"]))
    if r < 0.93:
        return " " + s + rng.choice([" ", "  "])
    return "".join(c.upper() if rng.random() < 0.5 else c for c in s)


def spell_header(rng, attr: str, lang, style: str) -> str:
    """One spelling for bind attribute `attr` (+ optional language) under the sheet's delimiter style."""
    if attr in SPELL and rng.random() < 0.9:
        sp = rng.choice(SPELL[attr])
    else:
        sp = "bind::" + attr
    delim = "::" if style == "double" else ":"
    if sp.startswith("bind::"):
        first = case_variant(rng, "bind")
        rest = sp[6:]
        if rng.random() < 0.2:
            rest = " " + rest + " "
        pad = rng.choice(["", "", " "])
        h = first + pad + delim + pad + rest
    else:
        h = case_variant(rng, sp)
    if lang is not None:
        h = h + delim + lang
    return h


def clean(v: str) -> str:
    """the harness's own copy of the documented cell cleaning (strip, runs of spaces → one, smart quotes)."""
    v = re.sub(" +", " ", v.strip())
    for a, b in (("‘", "'"), ("’", "'"), ("“", '"'), ("”", '"')):
        v = v.replace(a, b)
    return v


_TYPES = None


def plain_types():
    """(type cell, type-table key) for every non-select, non-special entry of the type table + aliases."""
    global _TYPES
    if _TYPES is None:
        from pyxform import aliases
        from pyxform.question_type_dictionary import QUESTION_TYPE_DICT as Q

        skip = {"osm", "audit", "background-geopoint", "xml-external", "csv-external"}
        out = []
        for t, e in Q.items():
            tag = (e.get("control") or {}).get("tag")
            if t in skip or tag in ("select", "select1", "odk:rank"):
                continue
            if re.match(r"^(begin|end)[\s_]", t) or re.search(r"select| using$| from$", t):
                continue
            out.append((t, t))
        for a, t in aliases._type_alias_map.items():
            if t in Q and a not in Q:
                out.append((a, t))
        _TYPES = out
    return _TYPES


VISIBLE_TKEYS = {"text", "integer", "decimal", "date", "note", "acknowledge", "trigger", "select one",
                 "select all that apply", "rank", "range", "geopoint", "photo", "audio", "time", "dateTime", "barcode"}

# ---- parameters (own copy of the documented rules; independent of /repo)
NUMS_INT = ["0", "1", "5", "10", "-3", "+2", "100", "007"]
NUMS_DEC = ["0.5", "9.5", "2.25", ".5", "5.", "-0.1", "1.0", "10.50"]
NUMS_ZERO_DEC = ["0.0", "0.00", ".0"]


def gen_params(rng, tkey):
    """ordered [(key, value)] for the types whose parameters reach the bind (or must not disturb it)."""
    if tkey == "range":
        keys = rng.sample(["start", "end", "step"], rng.randint(0, 3))
        shape = rng.choice(["int", "one-dec", "one-dec", "one-dec", "mixed", "zero-dec"])
        ps = [[k, rng.choice(NUMS_INT)] for k in keys]
        if ps and shape == "one-dec":
            rng.choice(ps)[1] = rng.choice(NUMS_DEC)
        elif shape == "mixed":
            ps = [[k, rng.choice(NUMS_INT + NUMS_DEC)] for k in keys]
        elif ps and shape == "zero-dec":
            rng.choice(ps)[1] = rng.choice(NUMS_ZERO_DEC)
        return ps
    if tkey in ("photo", "image"):
        return [["max-pixels", rng.choice(["640", "1024", "+80"])]] if rng.random() < 0.7 else []
    if tkey == "audio":
        return [["quality", rng.choice(["voice-only", "low", "normal", "external", "LOW", "Normal"])]] if rng.random() < 0.7 else []
    if tkey == "background-audio":
        return [["quality", rng.choice(["voice-only", "low", "normal"])]] if rng.random() < 0.5 else []
    if tkey in ("geopoint", "geoshape", "geotrace"):
        ps = []
        if rng.random() < 0.7:
            ps.append(["allow-mock-accuracy", rng.choice(["true", "false", "TRUE", "False"])])
        if tkey == "geopoint" and rng.random() < 0.4:
            ps.append(["capture-accuracy", rng.choice(["5", "2.5"])])
        if tkey == "geopoint" and rng.random() < 0.3:
            ps.append(["warning-accuracy", rng.choice(["50", "10.5"])])
        rng.shuffle(ps)
        return ps
    if tkey == "text":
        return [["rows", rng.choice(["3", "10"])]] if rng.random() < 0.3 else []
    if tkey == "audit":
        ps = []
        if rng.random() < 0.5:
            ps.append(["track-changes", rng.choice(["true", "false", "TRUE"])])
        if rng.random() < 0.3:
            ps.append(["track-changes-reasons", "on-form-edit"])
        if rng.random() < 0.4:
            ps.append(["identify-user", rng.choice(["true", "false"])])
        if rng.random() < 0.5:
            lo = rng.choice([0, 5, 10])
            loc = [["location-priority", rng.choice(["no-power", "low-power", "balanced", "high-accuracy", "Balanced"])],
                   ["location-min-interval", str(lo)], ["location-max-age", str(lo + rng.choice([0, 1, 50]))]]
            rng.shuffle(loc)
            ps += loc
        rng.shuffle(ps)
        return ps
    return []


def render_params(rng, ps):
    sep = rng.choice([" ", " ", ";", ",", "; ", " ;", ", "])
    return sep.join((k.upper() if rng.random() < 0.1 else k) + rng.choice(["=", "=", " =", "= "] if sep.strip() and len(ps) > 1 else ["="]) + v
                    for k, v in ps)


def _is_nonzero_dec(v: str) -> bool:
    return "." in v and any(c in "123456789" for c in v)


def own_param_logic(tkey, ps):
    """bind attributes the documented parameter rules prescribe (XLSForm reference: range is decimal when
    any of start/end/step — written or defaulted — is a decimal; max-pixels, quality, allow-mock-accuracy
    pass through, lower-cased)."""
    d = {k.lower(): v.lower() for k, v in ps}
    if tkey == "range":
        vals = list(d.values()) + [v for k, v in (("start", "1"), ("end", "10"), ("step", "1")) if k not in d]
        return [["type", "decimal"]] if any(_is_nonzero_dec(v) for v in vals) else []
    if tkey in ("photo", "image") and "max-pixels" in d:
        return [["orx:max-pixels", d["max-pixels"]]]
    if tkey == "audio" and "quality" in d:
        return [["odk:quality", d["quality"]]]
    if tkey in ("geopoint", "geoshape", "geotrace") and "allow-mock-accuracy" in d:
        return [["odk:allow-mock-accuracy", d["allow-mock-accuracy"]]]
    if tkey == "audit":
        return [["odk:" + k, d[k]] for k in ("track-changes", "track-changes-reasons", "identify-user", "location-max-age",
                                             "location-min-interval", "location-priority") if k in d]
    return []


PARAM_TYPES = ["range", "range", "range", "photo", "image", "audio", "background-audio", "geopoint", "geoshape", "geotrace", "text"]

LABELS = {"a": "A", "b": "Bee two", "other": "Other"}

SELECTS = [("select_one", "select one"), ("select_multiple", "select all that apply"), ("rank", "rank"),
           ("select one", "select one"), ("select1", "select one"), ("select all that apply", "select all that apply")]
OR_OTHER = [" or_other", " or other", " or specify other"]


class ARow:
    """abstract row: what the property talks about"""

    def __init__(self, kind, name, tcell, tkey):
        self.kind = kind  # q | begin | end | disabled
        self.name = name
        self.tcell = tcell
        self.tkey = tkey
        self.logic = []  # [(attr, str | {lang: str})]
        self.trigger = None
        self.count = None
        self.other = False
        self.path = None
        self.extra = {}
        self.params = []
        self.appearance = None
        self.tl = False  # begin row of a table-list group
        self.loop = False  # `begin loop over <list>` row
        self.loop_list = None
        self.in_loop = None  # the loop ARow this row is a template child of
        self.block = False  # part of a directed block (never disabled)
        self.rownum = None
        self.rep = False
        self.audit = False


def gen_value(rng, attr, tops):
    if attr in ("required", "readonly") and rng.random() < 0.7:
        return rng.choice(YESNO)
    if attr in ("jr:constraintMsg", "jr:requiredMsg", "jr:noAppErrorString"):
        v = rng.choice(MSGS)
        if tops and rng.random() < 0.25:
            v += " ${" + rng.choice(tops) + "}"
        return v
    if attr == "type":
        return rng.choice(["int", "string", "decimal", "xsd:int"])
    v = rng.choice(EXPRS)
    if tops and rng.random() < 0.35:
        v = rng.choice(["${%s} > 1", "${%s}", ". != ${%s}", "${%s}=${%s}", " ${%s} "]).replace("%s", rng.choice(tops), 1)
        v = v.replace("%s", rng.choice(tops))
    if rng.random() < 0.1:
        v = rng.choice([" ", "  "]) + v + rng.choice(["", " "])
    return v


def gen_form(rng, big=False, directed=None):
    """Returns (form dict for impl, abstract rows, meta)."""
    style = rng.choice(["double", "double", "single"])
    nq = rng.randint(1, 12 if big else 7)
    p_struct = rng.choice([0.0, 0.0, 0.15, 0.3])
    p_logic = rng.choice([0.2, 0.5, 0.8])
    p_params = 0.6 if directed == "params" else rng.choice([0.0, 0.0, 0.2])
    rows: list[ARow] = []
    stack = []
    names = []
    cnt = [0]

    def fresh(prefix="q"):
        cnt[0] += 1
        n = rng.choice([prefix, prefix.upper(), "n_", "a-b", "x.y_", "_"]) + str(cnt[0])
        names.append(n)
        return n

    p_tl = 0.5 if directed == "table-list" else rng.choice([0.0, 0.0, 0.06])
    p_loop = 0.5 if directed == "loop" else rng.choice([0.0, 0.0, 0.0, 0.05])
    choices_translated = rng.random() < 0.3
    # first pass: structure
    for _ in range(nq):
        r = rng.random()
        if p_tl and rng.random() < p_tl and len(stack) < 3:
            # a table-list group: generated label note + label-only header select before the first select
            g = ARow("begin", fresh("g"), rng.choice(["begin group", "begin_group"]), "")
            g.tl, g.block = True, True
            g.appearance = rng.choice(["table-list", "table-list minimal", "minimal table-list", " table-list "])
            rows.append(g)
            ln = rng.choice(["l1", "l2"])
            if rng.random() < 0.3:
                q0 = ARow("q", fresh("q"), "text", "text")
                q0.block = True
                rows.append(q0)
            for _i in range(rng.randint(1, 3)):
                cmd, key = rng.choice(SELECTS[:2] + SELECTS[3:])
                sq = ARow("q", fresh("s"), cmd + " " + ln, key)
                sq.block = True
                rows.append(sq)
            e = ARow("end", None, "end group", "")
            rows.append(e)
        elif p_loop and rng.random() < p_loop and len(stack) < 3 and not any(x.loop for x in rows):
            # a loop block: its rows are instantiated once per choice, %(name)s / %(label)s substituted
            ln = rng.choice(["l1", "l2"])
            g = ARow("begin", fresh("g"), rng.choice(["begin loop over ", "begin_loop over "]) + ln, "")
            g.loop, g.loop_list, g.block = True, ln, True
            rows.append(g)
            for _i in range(rng.randint(1, 3)):
                tcell = rng.choice(["text", "integer", "decimal", "note", "calculate", "date"])
                cq = ARow("q", fresh("q"), tcell, tcell)
                cq.in_loop, cq.block = g, True
                rows.append(cq)
            rows.append(ARow("end", None, rng.choice(["end loop", "end_loop"]), ""))
        elif r < p_struct and len(stack) < 3:
            rep = rng.random() < 0.5
            ar = ARow("begin", fresh("g"), rng.choice(["begin group", "begin_group", "begin  group"]) if not rep
                      else rng.choice(["begin repeat", "begin_repeat"]), "")
            ar.rep = rep
            rows.append(ar)
            stack.append(ar)
        elif r < p_struct * 1.6 and stack and rows[-1].kind != "begin":
            b = stack.pop()
            e = ARow("end", None, ("end repeat" if b.rep else rng.choice(["end group", "end_group"])), "")
            rows.append(e)
        elif rng.random() < 0.15:
            cmd, key = rng.choice(SELECTS)
            sel_list = rng.choice(["l1", "l2"])
            ar = ARow("q", fresh("s"), cmd + " " + sel_list, key)
            ar.loop_list = sel_list
            if key != "rank" and rng.random() < 0.3:
                ar.other = True
                ar.tcell += rng.choice(OR_OTHER)
            rows.append(ar)
        else:
            tcell, key = rng.choice(plain_types())
            if rng.random() < 0.5:
                tcell, key = rng.choice([("text", "text"), ("integer", "integer"), ("note", "note"), ("calculate", "calculate"),
                                         ("date", "date"), ("decimal", "decimal"), ("acknowledge", "acknowledge"), ("trigger", "trigger")])
            ar = ARow("q", fresh("q"), tcell, key)
            if p_params and rng.random() < p_params:
                t = rng.choice(PARAM_TYPES)
                ar.tcell, ar.tkey = t, ("photo" if t == "image" else t)
                ar.params = gen_params(rng, t)
            rows.append(ar)
    if directed == "params" and rng.random() < 0.5 or rng.random() < 0.04:
        # an audit row (anywhere in the sheet, even inside a group) goes to the meta block
        ar = ARow("q", "audit", "audit", "audit")
        ar.audit, ar.block = True, True
        ar.noname = rng.random() < 0.5
        ar.params = gen_params(rng, "audit")
        rows.insert(rng.randint(0, len(rows)), ar) if not any(x.block for x in rows) else rows.append(ar)
    while stack:
        if rows[-1].kind == "begin":
            rows.append(ARow("q", fresh("q"), "text", "text"))
        b = stack.pop()
        rows.append(ARow("end", None, "end repeat" if b.rep else "end group", ""))
    # paths, top-level question names
    st = []
    tops = []
    for ar in rows:
        if ar.kind == "end":
            st.pop()
            continue
        ar.path = "/data/" + "/".join([*st, ar.name])
        if ar.audit:
            ar.path = "/data/meta/audit"
        elif ar.kind == "begin":
            st.append(ar.name)
        elif not st:
            tops.append(ar.name)
    # second pass: logic
    attrs_pool = list(SPELL) + [c for c in CUSTOM if style == "double" or ":" not in c]
    vis_tops = [ar.name for ar in rows if ar.kind == "q" and ar.path == "/data/" + ar.name and ar.tkey in VISIBLE_TKEYS]
    used_attrs = []
    # phase 8: in about a third of the forms with nesting, `${name}` may name any element of the form (questions,
    # groups and repeats at any depth) — the fragment of `binds.model_refs` (Pyxv.Binds composed with Pyxv.Refs)
    nested = [x.name for x in rows if x.kind in ("q", "begin") and x.name and not x.audit and x.in_loop is None
              and not x.loop and x.path.count("/") > 2]
    pool = tops + nested if nested and rng.random() < 0.35 else tops
    for ar in rows:
        if ar.kind == "end":
            continue
        if ar.tkey == "calculate" or (rng.random() < p_logic):
            k = rng.randint(1, 4)
            chosen = rng.sample(attrs_pool, k)
            if ar.tkey == "calculate" and "calculate" not in chosen:
                chosen.append("calculate")
            for a in chosen:
                if a == "type" and ar.tkey in ("select one", "select all that apply", "rank") and rng.random() < 0.9:
                    continue
                if a in ("jr:constraintMsg", "jr:requiredMsg", "jr:noAppErrorString") and rng.random() < 0.4:
                    ls = rng.sample(LANGS, rng.randint(1, 2))
                    val = {l: gen_value(rng, a, []) for l in ls}
                    if rng.random() < 0.3:
                        val[None] = gen_value(rng, a, [])  # unsuffixed column as well
                else:
                    val = gen_value(rng, a, pool if ar.in_loop is None else tops)
                if ar.in_loop is not None:
                    # template cells: plain strings, placeholders for the choice the copy is made for
                    if isinstance(val, dict):
                        val = gen_value(rng, a, tops)
                    val = val.replace("%", "")
                    if rng.random() < 0.6:
                        ph = "%(name)s" if choices_translated or rng.random() < 0.5 else "%(label)s"
                        val = rng.choice(["selected(${T}, '" + ph + "')", val + " " + ph, ph + " " + val, "'" + ph + "' != ''"]).replace(
                            "${T}", "${" + rng.choice(tops) + "}" if tops else "1")
                ar.logic.append((a, val))
                if a not in used_attrs:
                    used_attrs.append(a)
        if ar.kind == "q" and vis_tops and rng.random() < 0.08 and ar.tkey not in ("start", "end", "today") and ar.in_loop is None and not ar.audit:
            t = rng.choice(vis_tops)
            if t != ar.name:
                ar.trigger = "${" + t + "}"
        if ar.kind == "begin" and ar.rep and rng.random() < 0.4:
            ar.count = rng.choice(["3", "${" + tops[0] + "}" if tops else "2", "1 + 1", " 4 "])
    # columns: one spelling per (attr, lang)
    cols = {}  # (attr, lang) -> header
    for ar in rows:
        for a, val in ar.logic:
            for lang in (val if isinstance(val, dict) else [None]):
                if (a, lang) not in cols:
                    cols[(a, lang)] = spell_header(rng, a, lang, style)
    base = ["type", "name", "label"]
    base = [case_variant(rng, b) if rng.random() < 0.3 else b for b in base]
    tcol, ncol, lcol = base
    extra_cols = []
    if any(ar.trigger for ar in rows):
        extra_cols.append("trigger")
    if any(ar.params for ar in rows):
        extra_cols.append(rng.choice(["parameters", "parameters", "Parameters"]))
    if any(ar.count for ar in rows):
        extra_cols.append(rng.choice(["repeat_count", "count", "jr:count"] if style == "single" else ["repeat_count", "count", "control::jr:count"]))
    if any(ar.appearance for ar in rows):
        extra_cols.append(rng.choice(["appearance", "Appearance"] + (["control::appearance", "body::appearance"] if style == "double" else [])))
    has_disabled = rng.random() < 0.15
    if has_disabled:
        extra_cols.append("disabled")
    if rng.random() < 0.2:
        extra_cols.append(rng.choice(["hint", "default"] + ([] if any(ar.appearance for ar in rows) else ["appearance"])))
    header = base + extra_cols + list(dict.fromkeys(cols.values()))
    if style == "double" and not any("::" in h for h in header):
        style = "single"
    rng.shuffle(header)
    # concrete rows
    survey = []
    arows_out = []
    for idx, ar in enumerate(rows):
        ar.rownum = idx + 2
        cells = {tcol: ar.tcell}
        if ar.kind != "end":
            if not (ar.audit and getattr(ar, "noname", False)):
                cells[ncol] = ar.name
            cells[lcol] = "L " + ar.name
        for a, val in ar.logic:
            if isinstance(val, dict):
                for lang, v in val.items():
                    cells[cols[(a, lang)]] = v
            else:
                cells[cols[(a, None)]] = val
        if ar.trigger:
            cells["trigger"] = ar.trigger
        if ar.appearance:
            cells[[c for c in extra_cols if c.lower().endswith("appearance")][0]] = ar.appearance
        if ar.params:
            cells[[c for c in extra_cols if c.lower() == "parameters"][0]] = render_params(rng, ar.params)
        if ar.count:
            cells[[c for c in extra_cols if "count" in c][0]] = ar.count
        for c in extra_cols:
            if c == "hint" and rng.random() < 0.3:
                cells[c] = "h"
            if c == "appearance" and ar.kind == "q" and ar.tkey == "text" and rng.random() < 0.3:
                cells[c] = "multiline"
        row = {h: cells[h] for h in header if h in cells}
        if rng.random() < 0.05:
            items = list(row.items())
            rng.shuffle(items)
            row = dict(items)
        if has_disabled and ar.kind == "q" and not ar.block and rng.random() < 0.2 and ar.name not in _referenced(rows):
            row["disabled"] = rng.choice(["yes", "true", "TRUE", "no", "maybe"])
            if row["disabled"] in ("yes", "true", "TRUE"):
                ar = None
        survey.append(row)
        if ar is not None:
            arows_out.append(ar)
    if choices_translated:
        choices = [{"list_name": ln, "name": n, "label::en": n.upper(), "label::fr": n.upper() + "f"} for ln in ("l1", "l2") for n in ("a", "b")]
    else:
        choices = [{"list_name": ln, "name": n, "label": LABELS[n]} for ln in ("l1", "l2") for n in ("a", "b")]
    form = {"survey": survey, "survey_cols": header, "choices": choices}
    return form, arows_out, {"tops": [t for t in tops if any(a.name == t for a in arows_out)], "style": style, "cols": cols,
                             "deep": pool is not tops}


def _referenced(rows):
    out = set()
    for ar in rows:
        for _, val in ar.logic:
            for v in (val.values() if isinstance(val, dict) else [val]):
                out.update(re.findall(r"\$\{([^}]*)\}", v))
        if ar.trigger:
            out.update(re.findall(r"\$\{([^}]*)\}", ar.trigger))
        if getattr(ar, "count", None):
            out.update(re.findall(r"\$\{([^}]*)\}", ar.count))
    return out


# ---------------------------------------------------------------- canonical (spec) rows


def _logic_of(ar, subst=None):
    logic = []
    for a, val in ar.logic:
        if isinstance(val, dict):
            d = [[("default" if l is None else l), clean(v)] for l, v in val.items()]
            # an unsuffixed column is the default language's text; order is irrelevant for the oracle
            logic.append([a, d])
        else:
            v = clean(val)
            if subst is not None:
                v = v.replace("%(name)s", subst[0]).replace("%(label)s", subst[1])
            logic.append([a, v])
    return logic


def spec_rows(arows):
    """The abstract rows as the Lean spec takes them (+ generated helper rows): the harness's own reading
    of the documented constructs (count helper, or_other companion, table-list helpers, loop copies)."""
    out = []
    tl = None  # table-list state: None | "armed" | "seen"
    # an `or_other` select adds the choice `other` to its list — for every user of the list, loops included
    other_lists = {ar.loop_list for ar in arows if ar.kind == "q" and ar.other}
    for ar in arows:
        if ar.kind == "end":
            tl = None
            continue
        if ar.in_loop is not None:
            # one copy per choice of the list, placeholders replaced by that choice's name / label
            for cname in ("a", "b") + (("other",) if ar.in_loop.loop_list in other_lists else ()):
                out.append({"path": f"{ar.in_loop.path}/{cname}/{ar.name}", "tkey": ar.tkey,
                            "logic": _logic_of(ar, (cname, LABELS[cname])), "trigger": False, "row": ar.name, "gen": "loop-copy"})
            continue
        logic = _logic_of(ar)
        if ar.kind == "begin" and ar.count and not re.fullmatch(r"\$\{[A-Za-z_][\w.\-]*\}", clean(ar.count)):
            out.append({"path": ar.path + "_count", "tkey": "calculate",
                        "logic": [["readonly", "true()"], ["calculate", clean(ar.count)]], "trigger": False, "gen": "count"})
        for k, v in own_param_logic(ar.tkey, ar.params):
            logic = [kv for kv in logic if kv[0] != k] + [[k, v]]
        if ar.kind == "q" and tl == "armed" and ar.tkey in ("select one", "select all that apply", "rank"):
            # the label-only header select generated before the first select of a table-list: no logic of its own
            parent = ar.path.rsplit("/", 1)[0]
            out.append({"path": f"{parent}/reserved_name_for_field_list_labels_{ar.rownum}", "tkey": ar.tkey, "logic": [],
                        "trigger": False, "gen": "table-list-header"})
            tl = "seen"
        out.append({"path": ar.path, "tkey": ar.tkey, "logic": logic, "trigger": bool(ar.trigger), "row": ar.name,
                    "params": ar.params, "kind": ("rep" if ar.rep else "group") if ar.kind == "begin" else "q"})
        if ar.kind == "begin" and ar.tl:
            tl = "armed"
            # the note carrying the group's label
            out.append({"path": f"{ar.path}/generated_table_list_label_{ar.rownum}", "tkey": "note", "logic": [],
                        "trigger": False, "gen": "table-list-label"})
        if ar.other:
            out.append({"path": ar.path + "_other", "tkey": "text",
                        "logic": [["relevant", f"selected(../{ar.name}, 'other')"]], "trigger": False, "gen": "other"})
    out.append({"path": "/data/meta/instanceID", "tkey": "calculate",
                "logic": [["readonly", "true()"], ["jr:preload", "uid"]], "trigger": False, "gen": "instanceID"})
    return out


def spec_chains(srows):
    """chains (name, kind of every ancestor and of the node itself) of the spec rows + the list of all elements'
    chains: the input of `binds.spec_refs` (Spec.expectedR: C03's insert_xpaths from the row's own node)."""
    kinds = {"/data": "group", "/data/meta": "group"}
    for sr in srows:
        kinds[sr["path"]] = sr.get("kind", "q")

    def chain(path):
        segs = path.strip("/").split("/")
        return [[segs[i], kinds.get("/" + "/".join(segs[: i + 1]), "group")] for i in range(len(segs))]

    paths = ["/data"]
    for sr in srows:
        segs = sr["path"].strip("/").split("/")
        for i in range(2, len(segs) + 1):
            pth = "/" + "/".join(segs[:i])
            if pth not in paths:
                paths.append(pth)
    return [chain(pth) for pth in paths], [chain(sr["path"]) for sr in srows]


def spec_expected(ctx, case):
    """the property's expected attribute maps: Spec.expected (references to top-level questions); when that reading
    does not cover a reference of the form, Spec.expectedR (references to any element, relative paths included)."""
    exp = ctx.driver.call("binds.spec", root="data", tops=case["tops"], rows=case["spec_rows"])
    if any(e is None for e in exp):
        els, chains = spec_chains(case["spec_rows"])
        rows = [dict(path=sr["path"], tkey=sr["tkey"], logic=sr["logic"], trigger=sr["trigger"], chain=ch)
                for sr, ch in zip(case["spec_rows"], chains)]
        exp = ctx.driver.call("binds.spec_refs", els=els, rows=rows)
        ctx.count("oracle:spec-refs:" + ("outside" if any(e is None for e in exp) else "decides"))
    return exp


# ---------------------------------------------------------------- observation


def itext_ids(xform: str):
    tree, err = xmlutil.expat_tree(xform)
    ids = set()

    def walk(el, in_itext):
        if "t" not in el:
            return
        if el["t"] == "text" and in_itext:
            ids.update(v for k, v in el["a"] if k == "id")
        for k in el["k"]:
            walk(k, in_itext or el["t"] == "itext")

    if tree is not None:
        walk(tree, False)
    return ids


class NotWellFormed(Exception):
    pass


def observe_binds(xform: str):
    tree, err = xmlutil.expat_tree(xform)
    if tree is None:
        raise NotWellFormed(str(err))
    out = []

    def walk(el, in_model):
        if "t" not in el:
            return
        if el["t"] == "bind" and in_model:
            attrs = [list(a) for a in el["a"]]
            ns = [v for k, v in attrs if k == "nodeset"]
            out.append([ns[0] if ns else None, [a for a in attrs if a[0] != "nodeset"], len(ns), attrs[0][0] if attrs else None])
        for k in el["k"]:
            walk(k, in_model or el["t"] == "model")

    walk(tree, False)
    return out


# ---------------------------------------------------------------- one case


def form_case(ctx, form, arows, meta):
    case = {"form": form, "spec_rows": spec_rows(arows), "tops": meta["tops"]}
    r = impl.run(form)
    headers = form["survey_cols"]
    rows = [[[k, v] for k, v in row.items() if v not in (None, "")] for row in form["survey"]]
    m = ctx.driver.call("binds.model", headers=headers, rows=rows, lists=["l1", "l2"], root="data", dl="default")
    ctx.count(f"impl:{r['class']}/model:{m['outcome']}" + (":" + m["why"] if m["outcome"] == "unsupported" else ""))
    ctx.count("fragment-toplevel-refs:" + ("inside" if m["outcome"] != "unsupported" else "outside"))
    # phase 8: the composed model (Pyxv.Binds.formBindsR: reference substitution = C03's Refs.insertXpathsText from the
    # row's own node).  Where the first model answers, the composed one must answer the same (model-to-model);
    # where only the composed one answers, it is the one compared with the implementation.
    mr = ctx.driver.call("binds.model_refs", headers=headers, rows=rows, lists=["l1", "l2"], root="data", dl="default")
    if m["outcome"] != "unsupported":
        ctx.count("model-refs:same-as-model")
        if mr != m:
            ctx.mismatch("Pyxv.Binds.formBinds vs formBindsR (composed with Pyxv.Refs)", case, m, mr)
    else:
        ctx.count("model-refs:" + mr["outcome"] + (":" + mr["why"] if mr["outcome"] == "unsupported" else "")
                  + ("/deep" if meta.get("deep") else ""))
        m = mr
    if meta.get("deep"):
        ctx.count("deep-refs:impl:" + r["class"] + "/model:" + m["outcome"])
    ctx.count("fragment:" + ("inside" if m["outcome"] != "unsupported" else "outside"))
    # model-to-model: Pyxv.Binds' private process_header / process_row against Pyxv.Headers (C08/C13's model)
    hb = ctx.driver.call("binds.headers_bridge", headers=headers, rows=rows, dl="default")
    ctx.count("headers-bridge:" + hb["where"])
    if not hb["ok"]:
        ctx.mismatch("Pyxv.Binds vs Pyxv.Headers (" + hb["where"] + ")", case, "Headers", hb)
    nontrivial = False
    if r["ok"]:
        try:
            obs = observe_binds(r["xform"])
        except NotWellFormed as e:
            # no XML reader can read any bind of this form: the cells did not reach a bind at all
            ctx.fail(Failure("xform-not-wellformed", f"the accepted form's XForm does not parse ({e}); no bind can be read", case))
            ctx.record(case, False)
            return
        obs_pairs = [[o[0], o[1]] for o in obs]
        # ---- correspondence (exact: order of binds, order of attributes)
        if m["outcome"] == "ok":
            if obs_pairs != m["binds"]:
                ctx.mismatch("bind elements", case, obs_pairs, m["binds"])
        elif m["outcome"] == "error":
            ctx.mismatch("model rejects (duplicate column), implementation accepts", case, "ok", m)
        # ---- oracle on the implementation's output
        exp = spec_expected(ctx, case)
        oracle(ctx, case, obs, exp, itext_ids(r["xform"]))
        nontrivial = any(sr["logic"] and "row" in sr for sr in case["spec_rows"])
        ctx.count("types:" + str(len({sr["tkey"] for sr in case["spec_rows"]})))
    else:
        if m["outcome"] == "ok":
            ctx.mismatch("implementation rejects, model accepts", case, r["msg"][:300], "ok")
            ctx.fail(Failure("rejected-wellformed", "sheet inside the modelled fragment rejected: " + r["msg"][:200], case))
        elif m["outcome"] == "error":
            if "different names for the same column" not in r["msg"]:
                ctx.mismatch("error kind", case, r["msg"][:300], m)
        elif r["class"] == "internal":
            ctx.count("impl-internal:" + r.get("site", ""))
    ctx.record(case, nontrivial)


def oracle(ctx, case, obs, exp, ids=None):
    srows = case["spec_rows"]
    want = {}
    optional = {}
    for sr, e in zip(srows, exp):
        if e is None:
            ctx.count("oracle:spec-outside-fragment")
            return
        if e:
            want[sr["path"]] = (sr, dict((k, v) for k, v in e))
        elif sr["logic"]:
            # every logic cell of the row went elsewhere (a triggered calculate → setvalue): the property
            # neither demands nor forbids an attribute-less bind for such a row
            optional[sr["path"]] = (sr, {})
    seen = {}
    for ns, attrs, n_nodeset, first in obs:
        if n_nodeset != 1 or first != "nodeset":
            ctx.fail(Failure("bind-without-nodeset", f"bind element with {n_nodeset} nodeset attributes", case))
            continue
        if ns in seen:
            ctx.fail(Failure("duplicate-bind", f"two bind elements for {ns}", case, extra={"nodeset": ns}))
            continue
        seen[ns] = attrs
    if ids is not None:
        for ns, attrs in seen.items():
            for k, v in attrs:
                m = re.fullmatch(r"jr:itext\('(.*)'\)", v)
                if m and m.group(1) not in ids:
                    ctx.fail(Failure("dangling-itext", f"{ns}: {k} refers to itext id {m.group(1)!r}, which the form does not define",
                                     case, extra={"attr": k}))
    for ns, attrs in seen.items():
        if ns in optional and ns not in want:
            want[ns] = optional[ns]
            ctx.count("oracle:attribute-less bind of a row whose only logic went to a setvalue")
        if ns not in want:
            ctx.fail(Failure("unexpected-bind", f"bind for {ns} {attrs}: no row with logic or typed node there", case,
                             extra={"nodeset": ns}))
            continue
        sr, w = want[ns]
        got = {}
        for k, v in attrs:
            if k in got:
                ctx.fail(Failure("attr-duplicated", f"{ns}: attribute {k} twice", case, extra={"attr": k}))
            got[k] = v
        for k, v in w.items():
            if k not in got:
                ctx.fail(Failure("attr-dropped", f"{ns}: attribute {k}={v!r} missing from the bind (has {attrs})", case,
                                 extra={"attr": k, "row": sr}))
            elif norm_attr(got[k]) != norm_attr(v):
                ctx.fail(Failure("attr-changed", f"{ns}: attribute {k} is {got[k]!r}, the row prescribes {v!r}", case,
                                 extra={"attr": k, "row": sr}))
        # data type / preload attributes against the harness's own copy of the documented type table
        overridden = {a for a, _ in sr["logic"]}
        for k, v in OWN_TYPES.get(sr.get("tkey", ""), {}).items():
            if k not in overridden and got.get(k) != v:
                ctx.fail(Failure("type-table", f"{ns}: a {sr['tkey']!r} question must have {k}={v!r}, has {got.get(k)!r}", case,
                                 extra={"attr": k, "row": sr}))
        # yes/no normalisation against the harness's own copy of the documented spellings
        for a, val in sr["logic"]:
            if a in OWN_CONVERTIBLE and isinstance(val, str) and val in OWN_YESNO and a in got and not (sr["trigger"] and a == "calculate"):
                if got[a] != OWN_YESNO[val]:
                    ctx.fail(Failure("yesno-normalisation", f"{ns}: {a}={val!r} must become {OWN_YESNO[val]!r}, is {got[a]!r}", case,
                                     extra={"attr": a, "row": sr}))
        for k in got:
            if k not in w:
                ctx.fail(Failure("attr-foreign", f"{ns}: attribute {k}={got[k]!r} comes from no cell of this row nor from the type table",
                                 case, extra={"attr": k, "row": sr}))
    for ns, (sr, w) in want.items():
        if ns not in seen:
            ctx.fail(Failure("bind-missing", f"no bind for {ns}; the row prescribes {w}", case, extra={"row": sr}))


# the harness's own copy of what the XLSForm reference prescribes for the documented question types
# (independent of /repo's question_type_dictionary; type-table key → bind attributes)
def _pre(kind, param, typ="string"):
    return {"jr:preload": kind, "jr:preloadParams": param, "type": typ}


OWN_TYPES = {
    "integer": {"type": "int"}, "int": {"type": "int"}, "decimal": {"type": "decimal"}, "text": {"type": "string"},
    "string": {"type": "string"}, "date": {"type": "date"}, "time": {"type": "time"}, "dateTime": {"type": "dateTime"},
    "datetime": {"type": "dateTime"}, "geopoint": {"type": "geopoint"}, "geotrace": {"type": "geotrace"},
    "geoshape": {"type": "geoshape"}, "photo": {"type": "binary"}, "image": {"type": "binary"}, "audio": {"type": "binary"},
    "video": {"type": "binary"}, "file": {"type": "binary"}, "barcode": {"type": "barcode"},
    "note": {"type": "string", "readonly": "true()"}, "calculate": {"type": "string"}, "hidden": {"type": "string"},
    "acknowledge": {"type": "string"}, "select one": {"type": "string"}, "select all that apply": {"type": "string"},
    "rank": {"type": "odk:rank"}, "range": {"type": "int"},
    "start": _pre("timestamp", "start", "dateTime"), "end": _pre("timestamp", "end", "dateTime"),
    "today": _pre("date", "today", "date"), "deviceid": _pre("property", "deviceid"),
    "username": _pre("property", "username"), "phonenumber": _pre("property", "phonenumber"),
    "email": _pre("property", "email"), "simserial": _pre("property", "simserial"),
    "subscriberid": _pre("property", "subscriberid"), "start-geopoint": {"type": "geopoint"},
    "background-audio": {"type": "binary"}, "audit": {"type": "binary"},
}

OWN_CONVERTIBLE = {"readonly", "required", "relevant", "constraint", "calculate"}
OWN_YESNO = {**{k: "true()" for k in ("yes", "Yes", "YES", "true", "True", "TRUE")},
             **{k: "false()" for k in ("no", "No", "NO", "false", "False", "FALSE")}}


def norm_attr(v: str) -> str:
    # attribute-value normalisation of any XML parser: tab / newline → space (cells have none; kept for safety)
    return v.replace("\t", " ").replace("\n", " ").replace("\r", " ")


# ---------------------------------------------------------------- function-level ties

HEADER_ATOMS = ["bind", "Bind", "relevant", "Relevant", "read only", "Read_Only", "constraint_message", "jr", "jr:count", "count",
                "constraint message", "label", "hint", "media", "image", "fr", "English (en)", "::", ":", " ", "  ", "_", "x", "type",
                "name", "required message", "calculation", "body", "control", "instance", "foo", "Foo", "\t", "big-image", "save_to",
                "appearance", "choice_filter", "parameters", "trigger", "tag", "value", "caption", "sms_field", "-", "A", "z9"]


def fn_ties(ctx, n):
    from pyxform import aliases
    from pyxform.parsing import sheet_headers as sh
    from pyxform.question import MultipleChoiceQuestion
    from pyxform.xls2json import clean_text_values

    rng = ctx.rng
    cols = set(MultipleChoiceQuestion.get_slot_names())
    for _ in range(n):
        h = "".join(rng.choice(HEADER_ATOMS) for _ in range(rng.randint(1, 5)))
        if rng.random() < 0.3:
            h = rng.choice(list(aliases.survey_header)) + rng.choice(["", "::fr", ":fr", " ", "::", "::a::b"])
        a = sh.to_snake_case(h)
        b = ctx.driver.call("binds.to_snake_case", s=h)
        if a != b:
            ctx.mismatch("to_snake_case", {"s": h}, a, b)
        udc = rng.random() < 0.5 or "::" in h
        try:
            nh, toks = sh.process_header(h, udc, aliases.survey_header, cols)
            pa = [nh if isinstance(nh, str) else None, list(toks)]
        except IndexError:
            pa = None
        pb = ctx.driver.call("binds.process_header", h=h, udc=udc)
        if pa != pb:
            ctx.mismatch("process_header", {"h": h, "udc": udc}, pa, pb)
        v = "".join(rng.choice(["a", " ", "  ", "‘", "”", "x", "\t", "'", " ", "b c"]) for _ in range(rng.randint(1, 6)))
        if v.strip():
            ca = clean_text_values("survey", [{"k": v}], strip_whitespace=True)[0]["k"]
            cb = ctx.driver.call("binds.clean_cell", s=v)
            if ca != cb:
                ctx.mismatch("clean_text_values", {"s": v}, ca, cb)
        ctx.count("fn-ties")


# ---------------------------------------------------------------- directed families


def dup_header_case(ctx):
    """two spellings of one column: must be rejected (never one cell silently dropped)."""
    rng = ctx.rng
    a = rng.choice(list(SPELL))
    s1, s2 = rng.sample(SPELL[a], 2)
    s2 = case_variant(rng, s2) if not s2.startswith("bind::") else s2
    form = {"survey": [{"type": "text", "name": "q1", "label": "L", s1: "1", s2: "2"}],
            "survey_cols": ["type", "name", "label", s1, s2]}
    r = impl.run(form)
    rows = [[[k, v] for k, v in form["survey"][0].items()]]
    m = ctx.driver.call("binds.model", headers=form["survey_cols"], rows=rows, lists=[], root="data", dl="default")
    case = {"form": form, "directed": "dup-header"}
    ctx.count("directed:dup-header")
    if r["ok"]:
        ctx.fail(Failure("duplicate-column-accepted", f"columns {s1!r} and {s2!r} name the same bind attribute; accepted, so one cell is dropped", case))
    if (m["outcome"] == "error") != (not r["ok"] and "different names for the same column" in r.get("msg", "")):
        ctx.mismatch("duplicate column verdict", case, r.get("msg", "ok")[:200], m)
    ctx.record(case, True)


def explore(ctx, factor, bs):
    rng = ctx.rng
    n = ctx.pick(700, 30000) * factor
    fn_ties(ctx, ctx.pick(1500, 20000) * factor)
    for i in range(ctx.pick(30, 300)):
        dup_header_case(ctx)
    for i in range(n):
        directed = rng.choice(["params", "params", "table-list", "table-list", "loop"]) if rng.random() < 0.22 else None
        form, arows, meta = gen_form(rng, big=not ctx.quick(), directed=directed)
        form_case(ctx, form, arows, meta)
    inside = ctx.dist.get("fragment:inside", 0)
    total = inside + ctx.dist.get("fragment:outside", 0)
    ctx.notes["fragment_share"] = round(inside / total, 4) if total else None


def replay(ctx, payload, bs):
    before = len(ctx.failures), len(ctx.mismatches), dict(ctx.known_seen)
    case = payload["case"]
    if case.get("directed") == "dup-header" or "spec_rows" not in case:
        form = case["form"]
        r = impl.run(form)
        if r["ok"]:
            ctx.fail(Failure("duplicate-column-accepted", "accepted", case))
    else:
        form = case["form"]
        r = impl.run(form)
        if r["ok"]:
            try:
                obs = observe_binds(r["xform"])
            except NotWellFormed as e:
                ctx.fail(Failure("xform-not-wellformed", str(e), case))
                return False
            exp = spec_expected(ctx, case)
            oracle(ctx, case, obs, exp, itext_ids(r["xform"]))
            rows = [[[k, v] for k, v in row.items() if v not in (None, "")] for row in form["survey"]]
            m = ctx.driver.call("binds.model", headers=form["survey_cols"], rows=rows, lists=["l1", "l2"], root="data", dl="default")
            if m["outcome"] == "ok" and [[o[0], o[1]] for o in obs] != m["binds"]:
                ctx.mismatch("bind elements", case, obs, m["binds"])
            mr = ctx.driver.call("binds.model_refs", headers=form["survey_cols"], rows=rows, lists=["l1", "l2"], root="data", dl="default")
            if mr["outcome"] == "ok" and [[o[0], o[1]] for o in obs] != mr["binds"]:
                ctx.mismatch("bind elements (composed model)", case, obs, mr["binds"])
        else:
            ctx.fail(Failure("rejected-wellformed", r["msg"][:200], case))
    return (len(ctx.failures), len(ctx.mismatches)) == before[:2] and ctx.known_seen == before[2]


MATCHERS = {}


def main(argv):
    return vcore.run_check(PROP, explore, RULE, matchers=MATCHERS, replay=replay, argv=argv)
