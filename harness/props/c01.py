"""
C01 — every successful conversion returns a well-formed, namespace-valid XForm with the ODK skeleton.

Theorems: Pyxv/Proofs/C01.lean — for every value of the parts produced by the rest of the compiler,
the document assembled by the Lean model of Survey.xml()/get_nsmap/xml_model/xml_instance, written
by the Lean model of the writer in either pretty mode, is read back by the XML reader, has the ODK
skeleton with the form id on the primary instance root and has every prefix bound (under the
guards NamesOK / CharsOK, whose complements are the known findings F1-F4).

Check:
* oracle (`Pyxv.Asm.holds`, op `xml.c01`): Lean `parseDoc` succeeds ∧ `prefixesBound` ∧ `Skeleton`
  with the expected form id, on the implementation's text, both pretty_print modes; the verdicts are
  cross-checked against expat (well-formedness, tree, namespace-aware parse) and an independent
  ElementTree implementation of the skeleton — a disagreement is an infrastructure error;
* correspondence: the frame of the implementation's document (html attributes = nsmap, head/title,
  model attributes, submission/itext/instance order, primary-instance root tag and attributes, body
  attributes and controls) must equal the frame of `parseDoc (renderDoc pretty (assemble fields parts))`
  computed by the Lean model from the Survey fields (the JSON intermediate form) and the opaque parts;
* an oracle failure is attributed to a known finding only if the input has that shape, the failure
  disappears when the shapes are removed and reappears with that shape alone.
"""

from __future__ import annotations

import os
import re
import shutil
import tempfile
import xml.etree.ElementTree as ET
from pathlib import Path

import c01_gen
import impl
import vcore
import xmlutil
from vcore import Failure

PROP = "C01"
RULE = (
    "general stream: generated forms (1-9 rows quick / 1-20 thorough, groups/repeats, selects, 0-2 languages, "
    "adversarial XML-metacharacter text in every text cell, bind::/instance::/body::/control:: custom columns with "
    "valid (possibly prefixed) names, settings namespaces/attribute::/style/version/instance_xmlns/prefix/delimiter/"
    "submission/public_key/auto_*/name/title/form_id, choices extra columns, element names with a declared prefix, "
    "entities sheet) x both pretty modes (x md, xlsx containers at thorough tier); directed stream: one known shape "
    "F1-F4 injected into a general form. distinct = canonical hash of (form, container); non-trivial = accepted by "
    "the converter"
)
SCRATCH = Path(os.environ.get("C01_SCRATCH", tempfile.gettempdir())) / "pyxv_c01_scratch"

XHTML = "{http://www.w3.org/1999/xhtml}"
XFORMS = "{http://www.w3.org/2002/xforms}"
ORACLE_OF = {"F5": {"not-wellformed"}}


# ------------------------------------------------------------------ independent skeleton (ElementTree)


def et_skeleton(text: str, fid: str):
    try:
        root = ET.fromstring(text.encode("utf-8"))
    except Exception:  # noqa: BLE001
        return None
    if root.tag != XHTML + "html" or [c.tag for c in root] != [XHTML + "head", XHTML + "body"]:
        return False
    head = root[0]
    if [c.tag for c in head] != [XHTML + "title", XFORMS + "model"]:
        return False
    insts = [c for c in head[1] if c.tag.rsplit("}", 1)[-1] == "instance"]
    if not insts or insts[0].tag != XFORMS + "instance" or len(list(insts[0])) != 1:
        return False
    return insts[0][0].get("id") == fid


def expat_ns_ok(text: str) -> bool:
    """namespace-aware expat parse.  The separator is U+0001, which cannot occur in a well-formed
    document (expat refuses a namespace URI that contains the separator character)."""
    import xml.parsers.expat as expat

    p = expat.ParserCreate(namespace_separator="\x01")
    try:
        p.Parse(text.encode("utf-8", "surrogatepass"), True)
        return True
    except (expat.ExpatError, UnicodeEncodeError):
        return False


def non_ascii_names(tree) -> bool:
    if "x" in tree:
        return False
    if not tree["t"].isascii() or any(not a[0].isascii() for a in tree["a"]):
        return True
    return any(non_ascii_names(k) for k in tree["k"])


# ------------------------------------------------------------------ oracle on one text


def oracle_text(ctx, text: str, fid: str, what: str):
    """-> (verdict dict from the Lean oracle, failure kind | None).  Cross-checks the readers."""
    v = ctx.driver.call("xml.c01", text=text, fid=fid, tree=True)
    et, err = xmlutil.expat_tree(text)
    if v["ok"] and et is None and non_ascii_names(v["tree"]):
        # expat implements the name classes of XML 1.0 *4th* edition; the Lean reader (and pyxform's own
        # NCName regex) those of the 5th edition, which admit many more non-ASCII name characters.
        # Such a document is well-formed per the current specification; expat cannot be the referee.
        ctx.count("expat-4th-edition-name-rules:cross-check-skipped")
        if not v["declsOk"]:
            return v, "bad-namespace-declaration"
        if not v["bound"]:
            return v, "unbound-prefix"
        if not v["skeleton"]:
            return v, ("form-id" if v.get("rootId") is not None and v["rootId"] != fid else "skeleton")
        return v, None
    if v["ok"] != (et is not None) or (v["ok"] and not xmlutil.tree_eq(v["tree"], et)):
        raise vcore.Infra(f"Lean XML reader and expat disagree on {what}: lean={'ok' if v['ok'] else 'reject'} "
                          f"expat={err or 'ok'} text={text[:400]!r}")
    if not v["ok"]:
        return v, "not-wellformed"
    ns_ok = expat_ns_ok(text)
    if ns_ok != (v["bound"] and v["declsOk"]):
        raise vcore.Infra(f"prefixesBound={v['bound']} declsOk={v['declsOk']} but namespace-aware expat says {ns_ok} on {what}: {text[:400]!r}")
    if not v["declsOk"]:
        return v, "bad-namespace-declaration"
    if not v["bound"]:
        return v, "unbound-prefix"
    sk = et_skeleton(text, fid)
    if sk is None:
        ctx.count("elementtree-cannot-read")  # e.g. `}` inside a namespace URI: a limitation of ElementTree's {uri}local names
    elif sk != v["skeleton"]:
        raise vcore.Infra(f"Lean Skeleton={v['skeleton']} but ElementTree skeleton={sk} on {what}: {text[:400]!r}")
    if not v["skeleton"]:
        return v, ("form-id" if v.get("rootId") is not None and v["rootId"] != fid else "skeleton")
    assert v["holds"]
    return v, None


def convert_both(form, via, fallback):
    out = {}
    for pretty in (False, True):
        out[pretty] = run_via(form, pretty, via, fallback, want_survey=not pretty)
    return out


def run_via(form, pretty, via, fallback, want_survey=False):
    if via in ("dict", "md"):
        return impl.run(form, pretty=pretty, via=via, want_survey=want_survey)
    return run_xlsx(form, pretty, fallback, want_survey)


def run_xlsx(form, pretty, stem, want_survey):
    """the form written as a real .xlsx workbook (openpyxl) and converted from its path"""
    import openpyxl
    from pyxform.errors import PyXFormError
    from pyxform.xls2xform import convert

    d = Path(tempfile.mkdtemp(prefix="xlsx", dir=str(SCRATCH)))
    try:
        wb = openpyxl.Workbook()
        wb.remove(wb.active)
        for s in impl.SHEETS:
            if form.get(s) is not None:
                ws = wb.create_sheet(s)
                cols = impl.headers_of(form[s], form.get(s + "_cols"))
                ws.append(cols)
                for i, r in enumerate(form[s]):
                    for j, c in enumerate(cols):
                        v = r.get(c)
                        if v in (None, ""):
                            continue
                        cell = ws.cell(row=i + 2, column=j + 1)
                        cell.value = v
                        if isinstance(v, str) and v.startswith("="):
                            cell.data_type = "s"  # text that starts with "=" is text, not a formula
        p = d / f"{stem}.xlsx"
        try:
            wb.save(p)
        except Exception as e:  # noqa: BLE001  (openpyxl refuses control characters)
            return {"class": "container-refused", "ok": False, "msg": str(e)}
        try:
            res = convert(xlsform=str(p), pretty_print=pretty)
        except PyXFormError as e:
            return {"class": "pyxform", "ok": False, "msg": str(e)}
        except Exception as e:  # noqa: BLE001
            return {"class": "internal", "ok": False, "msg": f"{type(e).__name__}: {e}"}
        out = {"class": "ok", "ok": True, "xform": res.xform}
        if want_survey:
            out["_pyxform"] = res._pyxform
        return out
    finally:
        shutil.rmtree(d, ignore_errors=True)


def evaluate(ctx, form, via="dict", fallback="data"):
    """-> None (conversion not successful) | {"kind": failure kind | None, per-mode verdicts, results}"""
    fid = c01_gen.expected_form_id(form, fallback)
    res = convert_both(form, via, fallback)
    if res[False]["class"] != res[True]["class"]:
        return {"kind": "outcome-differs", "res": res, "fid": fid, "verdict": {}}
    ctx._last_res = res[False]
    if not res[False]["ok"]:
        return None
    kind, verdict = None, {}
    for pretty in (False, True):
        v, k = oracle_text(ctx, res[pretty]["xform"], fid, f"XForm (pretty={pretty}, via={via})")
        verdict[pretty] = v
        if k and not kind:
            kind = k
    return {"kind": kind, "res": res, "fid": fid, "verdict": verdict}


# ------------------------------------------------------------------ correspondence with the assembly model

FIELD_KEYS = ["name", "title", "id_string", "namespaces", "style", "instance_xmlns", "version", "prefix", "delimiter",
              "submission_url", "public_key", "auto_send", "auto_delete"]


def fields_of(pyx: dict):
    """Survey fields of the JSON intermediate form, or None when outside the modelled fragment"""
    f = {}
    for k in FIELD_KEYS:
        v = pyx.get(k)
        if v is None:
            continue
        if not isinstance(v, str):
            return None
        f[k] = v
    att = pyx.get("attribute")
    if att is not None:
        if not isinstance(att, dict) or not all(isinstance(v, str) for v in att.values()):
            return None
        f["attribute"] = [[str(k), v] for k, v in att.items()]
    inst = pyx.get("instance")
    if inst:
        # settings-level instance:: columns: attributes of the primary instance root (values pass insert_xpaths)
        if not isinstance(inst, dict) or not all(isinstance(v, str) and "${" not in v for v in inst.values()):
            return None
        f["instance"] = [[str(k), v] for k, v in inst.items()]
    f["entity_features"] = bool(pyx.get("entity_features"))
    return f


def parts_of(frame):
    """opaque parts, read off the implementation's frame"""
    try:
        head, body = frame["k"]
        _title, model = head["k"]
        mk = model["k"]
        i = next(j for j, k in enumerate(mk) if k.get("t") == "instance")
    except (ValueError, KeyError, StopIteration):
        return None
    before = mk[:i]
    itext = None
    if before and before[-1].get("t") == "itext":
        itext = []
    return {"itext": itext, "rootKids": [], "rest": mk[i + 1:], "body": body["k"]}


def observation(frame):
    """what C01 observes of a document frame (compared between implementation and model): the names
    of the skeleton elements, the namespace context they establish, the primary instance root and its
    id.  Attribute order, other attributes and the order of the other model children are not observed
    (a change there must not disturb this check; frame equality is only counted in the evidence)."""
    def nsdecls(el):
        return sorted([k, v] for k, v in el["a"] if k == "xmlns" or k.startswith("xmlns:"))
    try:
        head, body = frame["k"]
        title, model = head["k"]
        inst = next(k for k in model["k"] if k.get("t", "").split(":")[-1] == "instance")
        (root,) = inst["k"]
        return {
            "html": frame["t"], "ns": nsdecls(frame), "head": [head["t"], nsdecls(head)], "body": [body["t"], nsdecls(body)],
            "title": [title["t"], nsdecls(title)], "model": [model["t"], nsdecls(model)],
            "instance": [inst["t"], nsdecls(inst)], "root": [root["t"], nsdecls(root)],
            "id": dict(map(tuple, root["a"])).get("id"),
        }
    except (ValueError, KeyError, StopIteration):
        return None


VALIDATION_MSG = re.compile(
    r"is not a valid XML name|The namespace prefix '.*' of the .* name '.*' is not declared|Invalid namespace declaration|which is not allowed in XML",
    re.S,
)


def deep_parts(tree):
    """the opaque parts with all their content, read off a parsed document"""
    try:
        head, body = [k for k in tree["k"] if "t" in k]
        _title, model = [k for k in head["k"] if "t" in k]
        mk = [k for k in model["k"] if "t" in k]
        i = next(j for j, k in enumerate(mk) if k.get("t") == "instance")
        (root,) = [k for k in mk[i]["k"] if "t" in k]
    except (ValueError, KeyError, StopIteration):
        return None
    itext = None
    if i > 0 and mk[i - 1].get("t") == "itext":
        itext = mk[i - 1]["k"]
    return {"itext": itext, "rootKids": root["k"], "rest": mk[i + 1:], "body": body["k"]}


def dom_to_tree(el):
    """a minidom tree in the driver's encoding"""
    from xml.dom import Node as N

    from pyxform.utils import PatchedText

    kids = []
    for c in el.childNodes:
        if c.nodeType == N.ELEMENT_NODE:
            kids.append(dom_to_tree(c))
        elif c.nodeType in (N.TEXT_NODE, N.CDATA_SECTION_NODE):
            kids.append({"x": c.data, "stock": not isinstance(c, PatchedText)})
    return {"t": el.tagName, "a": [[k, v] for k, v in el.attributes.items()], "k": kids}


def model_accepts(ctx, fields, tree):
    parts = deep_parts(tree)
    if parts is None:
        return None
    return ctx.driver.call("asm.valid", fields=fields, **parts)["valid"]


def rejection_case(ctx, form, msg):
    """The implementation rejected the form in validate_xml_document.  Does the model (get_nsmap, assembly,
    validDoc) reject the same document?  The document is obtained by converting once more with the
    validation pass switched off; the model assembles its own frame around the parts of that document."""
    import pyxform.survey as S

    if not hasattr(S, "validate_xml_document"):
        return
    orig = S.validate_xml_document
    seen = {}
    S.validate_xml_document = lambda el, *a, **k: seen.setdefault("dom", el)
    try:
        r = impl.run(form, pretty=False, want_survey=True)
    finally:
        S.validate_xml_document = orig
    if not r["ok"] or "dom" not in seen:
        ctx.count("rejected:no-document-without-validation")
        return
    fields = fields_of(r["_pyxform"])
    if fields is None:
        ctx.count("model:unsupported")
        return
    v = {"tree": dom_to_tree(seen["dom"])}   # the DOM itself, not a re-parse: names may contain markup characters
    acc = model_accepts(ctx, fields, v["tree"])
    if acc is None:
        ctx.count("rejected:frame-not-destructurable")
    elif acc:
        ctx.mismatch("implementation rejects (validate_xml_document), model accepts", form, msg[:300], "validDoc (assemble …) = true")
    else:
        ctx.count("rejected:model-rejects-too")


def correspondence(ctx, form, ev):
    pyx = ev["res"][False].get("_pyxform")
    fields = fields_of(pyx) if pyx is not None else None
    if fields is None:
        ctx.count("model:unsupported")
        return
    t = ev["verdict"][False].get("tree")
    if t:
        acc = model_accepts(ctx, fields, t)
        if acc is False:
            ctx.mismatch("implementation accepts, model (validDoc) rejects", form, "accepted", "validDoc (assemble …) = false")
    for pretty in (False, True):
        v = ev["verdict"][pretty]
        if not v.get("ok"):
            ctx.count("model:impl-not-wellformed")
            return
        parts = parts_of(v["frame"])
        if parts is None:
            ctx.count("model:frame-not-destructurable")
            return
        m = ctx.driver.call("asm.doc", fields=fields, pretty=pretty, fid=ev["fid"], **parts)
        if not m["ok"]:
            ctx.mismatch(f"assembly model output not well-formed (pretty={pretty})", form, "ok", "not ok")
        elif observation(m["frame"]) != observation(v["frame"]):
            ctx.mismatch(f"skeleton observation (pretty={pretty})", form, observation(v["frame"]), observation(m["frame"]))
        elif m["rootId"] != v["rootId"] or (m["skeleton"] != v["skeleton"]):
            ctx.mismatch(f"skeleton verdict / root id (pretty={pretty})", form, [v["skeleton"], v["rootId"]], [m["skeleton"], m["rootId"]])
        else:
            ctx.count("frame_equal" if xmlutil.tree_eq(m["frame"], v["frame"]) else "frame_differs")
    ctx.count("model:answered")


# ------------------------------------------------------------------ element names of the primary instance (C01Tree)

_TAG_CACHE: dict = {}


def model_is_xml_tag(ctx, s: str) -> bool:
    if s not in _TAG_CACHE:
        _TAG_CACHE[s] = bool(ctx.driver.call("form.is_xml_tag", s=s))
    return _TAG_CACHE[s]


def has_loop(form) -> bool:
    return any("loop" in str(r.get("type", "")).lower() for r in form.get("survey", []) if isinstance(r, dict))


def tree_names(ctx, form, ev):
    """The conclusions of `tree_names_valid` / `noBr_of_isXmlTag` (Pyxv.Proofs.C01Tree) evaluated on the implementation's
    own output: every element name below the primary instance root is accepted by the model's `isXmlTag`, and one
    that contains `]` contains the typo literal.  (`loop` sections generate element names from choice names: outside
    the row pipeline the theorem is about.)"""
    t = ev["verdict"][False].get("tree") if ev.get("verdict") else None
    dp = deep_parts(t) if t else None
    if dp is None or has_loop(form):
        ctx.count("tree-names:skipped")
        return
    names = set()

    def walk(ks):
        for k in ks:
            if "t" in k:
                names.add(k["t"])
                walk(k.get("k", []))

    walk(dp["rootKids"])
    for n in sorted(names):
        if not model_is_xml_tag(ctx, n):
            ctx.mismatch("element name of the primary instance is not an is_xml_tag name (tree_names_valid)", form, n, "isXmlTag = false")
        elif "]" in n and c01_gen.TYPO_LIT not in n:
            ctx.mismatch("element name with `]` outside the typo literal (noBr_of_isXmlTag)", form, n, "no `]`")
    ctx.count("tree-names:checked")
    ctx.dist["tree-names:names"] = ctx.dist.get("tree-names:names", 0) + len(names)


# ------------------------------------------------------------------ attribute names of <bind> / <setvalue> (C01Binds, C01BindsCells)


def bind_attrs(ctx, form, ev):
    """The conclusion of `bind_nodes_noBr_of_cells` (Pyxv.Proofs.C01BindsCells) evaluated on the implementation's own
    output: the attribute names of the model's `<bind>` / `<setvalue>` children are `nodeset`, type-table keys, literals
    of the generated helpers and the `bind::X` header tokens — so one that contains `]` needs a survey header cell that
    contains `]` (and then only inside the typo literal, the validation pass having accepted it)."""
    t = ev["verdict"][False].get("tree") if ev.get("verdict") else None
    dp = deep_parts(t) if t else None
    if dp is None:
        ctx.count("bind-attrs:skipped")
        return
    headers = set()
    for r in form.get("survey", []):
        if isinstance(r, dict):
            headers.update(str(k) for k in r)
    hdr_br = any("]" in h for h in headers)
    n = 0
    for k in dp["rest"]:
        if k.get("t") not in ("bind", "setvalue"):
            continue
        for a, _v in k.get("a", []):
            n += 1
            if "]" in a:
                ctx.count("bind-attrs:name-with-bracket")
                if not hdr_br:
                    ctx.mismatch("<bind> attribute name with `]` although no survey header contains `]` (bind_nodes_noBr_of_cells)",
                                 form, a, "no `]`")
                elif c01_gen.TYPO_LIT not in a:
                    ctx.mismatch("<bind> attribute name with `]` outside the typo literal (noBr_of_isXmlTag)", form, a, "no `]`")
    ctx.count("bind-attrs:checked")
    ctx.dist["bind-attrs:names"] = ctx.dist.get("bind-attrs:names", 0) + n


# ------------------------------------------------------------------ one case


def attribute(ctx, form, ev, via, fallback):
    """Attribute an oracle failure to known input shapes, or report it."""
    case = {"form": form, "via": via, "fallback": fallback}
    present = c01_gen.shapes(form)
    kind = ev["kind"]
    extra = {"oracle": kind, "compact": ev["res"][False].get("xform"), "shapes": present}
    if not present or kind not in ("not-wellformed", "unbound-prefix", "bad-namespace-declaration"):
        ctx.fail(Failure(kind, f"{kind} on a form without any known defect shape", case, extra=extra))
        return
    clean = c01_gen.sanitise(form, set(present))
    evc = evaluate(ctx, clean, via, fallback)
    if evc is None or evc["kind"]:
        k2 = evc["kind"] if evc else "rejected-after-sanitising"
        ctx.fail(Failure(kind, f"{kind}; with the known shapes {sorted(present)} removed: {k2}",
                         {"form": clean, "via": via, "fallback": fallback}, extra=extra))
        return
    hit = False
    for cls in sorted(present):
        only = c01_gen.sanitise(form, set(present) - {cls})
        evo = evaluate(ctx, only, via, fallback)
        if evo is None or not evo["kind"]:
            continue
        hit = True
        witness = present[cls][0]
        ctx.fail(Failure("known-shape", f"{cls}: {evo['kind']} with {witness!r}", {"form": only, "via": via, "fallback": fallback},
                         extra={"class": cls, "oracle": evo["kind"], "witness": witness,
                                "compact": evo["res"][False].get("xform")}))
    if not hit:
        ctx.fail(Failure(kind, f"{kind}: fails only with the shapes {sorted(present)} combined", case, extra=extra))


def form_case(ctx, form, via="dict", fallback="data", stream="general"):
    ev = evaluate(ctx, form, via, fallback)
    case = {"form": form, "via": via}
    if ev is None:
        ctx.count(f"{stream}/{via}:not-converted")
        last = getattr(ctx, "_last_res", None)
        if via == "dict" and last and last.get("class") == "pyxform" and VALIDATION_MSG.search(last.get("msg", "")):
            rejection_case(ctx, form, last["msg"])
        ctx.record(case, False)
        return
    ctx.count(f"{stream}/{via}:converted")
    if ev["kind"]:
        ctx.count(f"{stream}/{via}:oracle-fails:{ev['kind']}")
        attribute(ctx, form, ev, via, fallback)
    if ev["verdict"]:
        correspondence(ctx, form, ev)
        tree_names(ctx, form, ev)
        bind_attrs(ctx, form, ev)
    ctx.record(case, True)


def md_form(form):
    """the form as it can be written in a markdown table: md trims cells, so trim them here"""
    import copy

    f = copy.deepcopy(form)
    for s in impl.SHEETS:
        for r in f.get(s) or []:
            for k, v in list(r.items()):
                if isinstance(v, str):
                    if "\n" in v or "\r" in v:
                        return None
                    r[k] = v.strip() or "t"
    return f


def reserved_uri(tree) -> bool:
    if "x" in tree:
        return False
    return any(a[0].startswith("xmlns") and a[1] in c01_gen.RESERVED_NS_URIS for a in tree["a"]) or any(reserved_uri(k) for k in tree["k"])


def dom_cases(ctx, n):
    """validate_xml_document (the last step of Survey.xml()) against its Lean model `validDoc` on random
    DOM trees; and its purpose — whatever it accepts is written as a well-formed, namespace-valid
    document — decided by the Lean reader on the implementation writer's output."""
    try:
        from pyxform.utils import validate_xml_document
    except ImportError:
        ctx.count("dom:no-validate_xml_document-in-this-tree")
        return
    from pyxform.errors import PyXFormError

    rng = ctx.rng
    for _ in range(n):
        tree = c01_gen.random_named_tree(rng)
        if not tree["t"]:
            tree["t"] = "a"  # minidom cannot hold an element without a tag name
        try:
            dom = xmlutil.build_dom(tree)
        except Exception:  # noqa: BLE001
            ctx.count("dom:not-buildable")
            continue
        try:
            validate_xml_document(dom)
            accepted = True
        except PyXFormError:
            accepted = False
        m = ctx.driver.call("xml.validdoc", tree=tree)
        ctx.count(f"dom:impl-{'accepts' if accepted else 'rejects'}")
        if m["valid"] != accepted:
            ctx.mismatch("validate_xml_document vs validDoc", {"dom": tree}, accepted, m["valid"])
        if accepted:
            for pretty in (False, True):
                text = xmlutil.impl_render(tree, pretty)
                v = ctx.driver.call("xml.c01", text=text, fid="", tree=False)
                ok = v["ok"] and v["bound"] and v["declsOk"]
                if not non_ascii_names(tree) and ok != expat_ns_ok(text):
                    raise vcore.Infra(f"Lean reader says {ok}, namespace-aware expat the opposite, on a validated DOM: {text[:400]!r}")
                if not ok:
                    typo = [x for x in c01_gen.tree_names(tree) if c01_gen.TYPO_LIT in x]
                    xel = [x for x in c01_gen.tree_tags(tree) if x.startswith("xmlns:")]
                    if typo and not v["ok"]:
                        ctx.fail(Failure("known-shape", f"F5: accepted DOM with name {typo[0]!r} is not well-formed", {"dom": tree},
                                         extra={"class": "F5", "oracle": "not-wellformed", "witness": typo[0], "compact": text}))
                    else:
                        ctx.fail(Failure("validated-dom-not-wellformed", "validate_xml_document accepts a DOM whose serialisation is not "
                                         "well-formed / namespace-valid", {"dom": tree}, extra={"text": text, "pretty": pretty}))
                    break
        ctx.record({"dom": tree}, accepted)


def explore(ctx, factor, bs):
    """factor > 1 is the failing-input search (a proof or the correspondence broke): same streams,
    more cases, but bounded in time (quick: ~60 s)."""
    import time

    rng = ctx.rng
    big = not ctx.quick()
    if factor > 1 and ctx.mismatches and all(m["what"].startswith("e2e:") for m in ctx.mismatches):
        # only the end-to-end text comparison differs (every C01 observation agreed, the oracle held on every form of
        # the first pass): the mismatches carry the workbooks and the first differing characters
        ctx.notes["search_skipped"] = "only byte-level differences of the end-to-end composition; the mismatches carry the workbooks"
        return
    if factor > 1 and ctx.mismatches and all(m["what"].startswith("implementation rejects") for m in ctx.mismatches):
        # the model accepts documents the implementation rejects: a rejected conversion has no output the
        # oracle could fail on, so a search for an oracle failure is pointless; the mismatches carry the forms
        ctx.notes["search_skipped"] = "only accept/reject divergences: valid forms are rejected, nothing for the oracle to see"
        return
    deadline = None if factor == 1 else time.time() + ctx.pick(45, 300)

    def more():
        if len(ctx.failures) >= 10:
            return False  # enough concrete failing inputs; every further one costs the attribution re-runs
        return deadline is None or (time.time() < deadline and not ctx.failures)

    # the open finding, deterministically (independent of the seed)
    form_case(ctx, {"survey": [{"type": "text", "name": c01_gen.TYPO_LIT, "label": "L"}]}, stream="directed-F5")
    # name probes first: small forms, the cheapest way to a concrete input when a name check changed
    for _ in range(ctx.pick(260, 3000) * factor):
        if not more():
            break
        form_case(ctx, c01_gen.name_probe_form(rng), stream="names")
    for _ in range(ctx.pick(520, 6000) * factor):
        if not more():
            break
        form_case(ctx, c01_gen.general_form(rng, big=big))
    # shapes that used to be findings F1-F4/F2b (now rejected by validate_xml_document) and the open F5
    for cls in ("F1", "F2", "F2b", "F3", "F4", "F5", "F3x"):
        for _ in range(ctx.pick(5, 40) * factor):
            if not more():
                break
            form_case(ctx, c01_gen.directed(rng, cls), stream="directed-" + cls)
    if big and more():
        SCRATCH.mkdir(parents=True, exist_ok=True)
        for _ in range(600 * factor):
            if not more():
                break
            form = md_form(c01_gen.general_form(rng, big=True))
            if form is not None:
                form_case(ctx, form, via="md", stream="general")
        for i in range(250 * factor):
            if not more():
                break
            form = c01_gen.general_form(rng, big=True)
            form_case(ctx, form, via="xlsx", fallback=rng.choice(["book", "My-Form_1"]), stream="general")
    dom_cases(ctx, ctx.pick(300, 4000) * (1 if factor == 1 else 2))
    # end-to-end composition (`Pyxv.Convert.convert`, harness/props/e2e.py): the XForm text of the model must equal the
    # implementation's byte for byte in both modes on every generated fragment form; a difference is a correspondence
    # mismatch of C01 (reported with the form)
    from props import e2e

    if os.environ.get("C01_SKIP_E2E"):   # diagnosis only: isolate the C01 streams from the shared end-to-end stream
        ctx.count("e2e:skipped-by-C01_SKIP_E2E")
    else:
        e2e.e2e_corr(ctx, ctx.pick(300, 3000) * (1 if factor == 1 else 2), big=big)
    tot = ctx.dist.get("model:answered", 0) + ctx.dist.get("model:unsupported", 0)
    ctx.notes["fragment_share"] = {"answered": ctx.dist.get("model:answered", 0), "unsupported": ctx.dist.get("model:unsupported", 0),
                                   "share": round(ctx.dist.get("model:answered", 0) / tot, 4) if tot else None}


def replay(ctx, payload, bs):
    case = payload["case"]
    before = len(ctx.failures), len(ctx.mismatches)
    if "dom" in case:
        return _replay_dom(ctx, case["dom"], before)
    form_case(ctx, case["form"], via=case.get("via", "dict"), fallback=case.get("fallback", "data"), stream="replay")
    return (len(ctx.failures), len(ctx.mismatches)) == before


def _replay_dom(ctx, tree, before):
    import random

    class One(random.Random):
        pass
    orig = c01_gen.random_named_tree
    c01_gen.random_named_tree = lambda rng: tree
    try:
        dom_cases(ctx, 1)
    finally:
        c01_gen.random_named_tree = orig
    return (len(ctx.failures), len(ctx.mismatches)) == before


def _m(cls):
    def match(f: Failure) -> bool:
        x = f.extra
        return (f.kind == "known-shape" and x.get("class") == cls and x.get("oracle") in ORACLE_OF[cls])
    return match


MATCHERS = {
    "F5-ncname-typo-literal": _m("F5"),
}


def main(argv):
    return vcore.run_check(PROP, explore, RULE, matchers=MATCHERS, replay=replay, argv=argv)
