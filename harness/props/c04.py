"""
C04 — survey rows map one-to-one, in order and nesting, onto instance and body.

Theorems: Pyxv/Proofs/C04.lean (`stack_refines_nest`: the begin/end stack machine equals the grammar
reading, errors included; `instance_shape`; `body_controls_cover_paths`; helper placement) and
Pyxv/Proofs/C04Controls.lean (`body_attrs_of_row`: the attributes of every body control as the code builds them
= the table-driven spec, as finite maps; `appearance_independent_of_parameters` / `parameters_independent_of_appearance`;
`control_iff_visible`; `body_order_is_row_order`; facts about the regenerated type table).
Tie/oracle: for every generated sheet the implementation's primary instance (names, order, nesting, template
marks), body control list (element names and refs, document order) and the attribute map of every body control
(everything but ref/nodeset) must equal what the Lean pipeline computes from the rows alone (`controls.model`):
`ctl` / `ctlAttrs` are the model of the code, `specAttrs` is `Spec.rowSpecs` (the property's statement); the
documented element / media type per type comes from the harness's own table.
"""

from __future__ import annotations

import controls_gen
import formobs
import impl
import vcore
from props import formcommon
from vcore import Failure

PROP = "C04"
RULE = (
    "two streams, distinct by canonical hash: (1) structure — sheets of question/group/repeat rows of every simple type of the "
    "regenerated type table, selects (+or_other spellings), count helpers, externals inside repeats, blank rows, depth to 5 (quick) / "
    "8 (thorough); (2) attributes — every parameterised type x appearance x body::x/rows/autoplay columns x valid and (15% of sheets) "
    "invalid parameter cells x label/hint/neither/media x calculation x trigger, groups/repeats with appearance/intent/body::x and "
    "count cells of all shapes (constant, expression, bare reference, reference-prefixed expression, function call), table-list "
    "groups, unlabelled sections of invisible rows, empty sections; on 25-35% of the sheets rows marked disabled of every kind "
    "(questions, selects, audit, begin/end, rows that would be rejected) and falsy marks on active rows; on 20-30% every combination "
    "of the meta-shaping settings (omit_instanceID x instance_name x instance_id x public_key, entities); 12% of all cases re-delivered "
    "as xlsx with spacer / trailing columns; non-trivial = accepted and "
    "containing a group/repeat or a control with attributes"
)


def model_call(ctx, form, root="data"):
    """The structural pipeline plus the control attributes (`controls.model`; entity forms are composed with
    `entities.model` inside the op)."""
    return formcommon.model_call(ctx, form, root=root, op="controls.model")


def meta_settings(rng, form):
    """Every combination of the settings that shape the generated meta block: omit_instanceID (truthy / falsy /
    absent) x instance_name x instance_id x public_key (with omit: rejected) — audit rows and the entities sheet
    come from the other streams."""
    import copy

    form = copy.deepcopy(form)
    st = dict(form["settings"][0]) if form.get("settings") else {}
    o = rng.choice(["absent", "absent", "truthy", "truthy", "falsy"])
    if o != "absent":
        st["omit_instanceID"] = rng.choice(controls_gen.TRUTHY if o == "truthy" else controls_gen.FALSY)
    if rng.random() < 0.5:
        st["instance_name"] = rng.choice(["'fixed name'", "concat('a', 'b')", "uuid()"])
    if rng.random() < 0.3:
        st["instance_id"] = rng.choice(["uid", "concat('x', uuid())"])
    if rng.random() < 0.15:
        st["public_key"] = "MIIBIjANBgkqhkiG9w0BAQEFAAOCAQ8A"
        if rng.random() < 0.7:
            st["submission_url"] = "https://example.org/submission"
    if rng.random() < 0.3:
        st["form_id"] = "f_meta"
    if rng.random() < 0.12 and not form.get("entities") and not any(r.get("save_to") for r in form["survey"]):
        form["entities"] = [{"dataset": rng.choice(["people", "trees"]), "label": "concat('e', 'x')"}]
    if st:
        form["settings"] = [st]
    return form


def xlsx_bytes(rng, form):
    """The workbook as in-memory xlsx with content-neutral layout noise: unnamed spacer columns between named
    headers (sometimes with stray text below them), trailing empty columns, blank rows where the form has them.  None when a cell cannot
    be written to xlsx."""
    import containers as C

    grids = []
    for sheet in impl.SHEETS:
        rows = form.get(sheet)
        if rows is None:
            continue
        cols = impl.headers_of(rows, form.get(sheet + "_cols"))
        layout = []
        for c in cols:
            while rng.random() < 0.25:
                layout.append(None)
            layout.append(c)
        layout += [None] * rng.choice([0, 0, 1, 3])
        grid = [[("s", c) for c in layout]]
        for r in rows:      # a blank row of the form ({}) becomes a blank sheet row: row numbers are part of generated names
            line = []
            for c in layout:
                if c is None:
                    line.append(("s", "stray" if rng.random() < 0.2 else None))
                else:
                    v = r.get(c)
                    v = None if v in (None, "") else str(v)
                    if v is not None and (not C.xlsx_text_ok(v) or v != v.strip() or "  " in v or "\n" in v):
                        return None
                    line.append(("s", v))
            grid.append(line)
        grids.append({"name": sheet, "grid": grid})
    return C.to_xlsx(grids)


def container_case(ctx, form, r):
    """The same workbook through the xlsx container with layout noise must give the same outcome, instance tree,
    control list and control attributes as the dict input."""
    import io

    data = xlsx_bytes(ctx.rng, form)
    if data is None:
        return
    ctx.count("xlsx container")
    x = impl.run_raw(io.BytesIO(data), file_type=".xlsx")
    if x["class"] != r["class"]:
        ctx.fail(Failure("container-outcome", f"dict input: {r['class']} {r.get('msg', '')[:120]!r}; the same sheet as xlsx with spacer "
                         f"columns: {x['class']} {x.get('msg', '')[:120]!r}", {"form": form}))
        return
    if r["ok"]:
        a, b = formobs.observe(r["xform"]), formobs.observe(x["xform"])
        ca, cb = formobs.observe_controls(r["xform"]), formobs.observe_controls(x["xform"])
        if not formobs.nt_eq(a["instance"], b["instance"]) or sorted(a["binds"]) != sorted(b["binds"]) or ca != cb:
            diff = next((f"{p} vs {q}" for p, q in zip(ca, cb) if p != q), "instance / binds / number of controls")
            ctx.fail(Failure("container-shift", "the sheet read from xlsx (unnamed spacer columns, trailing columns, blank rows) gives "
                             f"other nodes / controls than the same cells as dict: {diff}", {"form": form}))


# the harness's own copy of the documented control element / media type per question type (XLSForm
# reference table; independent of /repo on purpose, like formobs.CANON)
DOCUMENTED = {
    "text": ("input", None), "string": ("input", None), "integer": ("input", None), "int": ("input", None),
    "decimal": ("input", None), "date": ("input", None), "time": ("input", None), "dateTime": ("input", None),
    "note": ("input", None), "geopoint": ("input", None), "geotrace": ("input", None), "geoshape": ("input", None),
    "barcode": ("input", None), "range": ("range", None), "acknowledge": ("trigger", None), "trigger": ("trigger", None),
    "image": ("upload", "image/*"), "photo": ("upload", "image/*"), "audio": ("upload", "audio/*"),
    "video": ("upload", "video/*"), "file": ("upload", "application/*"),
    "select_one": ("select1", None), "select_multiple": ("select", None), "rank": ("odk:rank", None),
}


def documented_check(ctx, form, octl):
    """Element name and media type of every observed control of a documented type, by the row's (unique) name."""
    names = [r.get("name") for r in form["survey"] if r.get("name")]
    by_name = {o[1].rsplit("/", 1)[-1]: o for o in octl if o[0] not in ("group", "repeat")}
    for r in form["survey"]:
        nm = r.get("name")
        base = str(r.get("type", "")).split(" ")[0]
        if nm in by_name and names.count(nm) == 1 and base in DOCUMENTED and not str(r.get("type", "")).startswith(("begin", "end")):
            tag, _, a = by_name[nm]
            dtag, dmt = DOCUMENTED[base]
            mt = a.get("mediatype") if "body::mediatype" not in r else dmt
            if tag != dtag or mt != dmt:
                ctx.fail(Failure("documented-control", f"a {base!r} row renders as <{tag} mediatype={a.get('mediatype')!r}>, documented: "
                                 f"<{dtag} mediatype={dmt!r}>", {"form": form}))


def attr_str(a):
    return "{" + ", ".join(f"{k}={v!r}" for k, v in sorted(a.items())) + "}"


def form_case(ctx, form, family="structure"):
    r = impl.run(form)
    m = model_call(ctx, form)
    ctx.count(f"{family}: impl:{r['class']}/model:{m['outcome']}")
    if m["outcome"] == "unsupported":
        ctx.count("unsupported: " + m.get("why", "?"))
    nontrivial = False
    if r["ok"] and m["outcome"] == "ok":
        obs = formobs.observe(r["xform"])
        nontrivial = any(x.get("type", "").startswith("begin") for x in form["survey"])
        # the spec shape comes from the rows alone; a difference on the implementation side is the
        # property failing (the model has been validated on the unchanged tree)
        if not formobs.nt_eq(obs["instance"], m["instance"]):
            ctx.fail(Failure("instance-shape", "primary instance differs from the row structure: impl "
                             + formobs.nt_str(obs["instance"]) + " spec " + formobs.nt_str(m["instance"]), {"form": form}))
            ctx.mismatch("instance tree", form, formobs.nt_str(obs["instance"]), formobs.nt_str(m["instance"]))
        if sorted(obs["binds"]) != sorted(m["binds"]):
            only_i = sorted(set(obs["binds"]) - set(m["binds"]))[:4]
            only_m = sorted(set(m["binds"]) - set(obs["binds"]))[:4]
            ctx.fail(Failure("bind-nodes", f"bind nodesets differ from the row structure / meta block: only implementation {only_i}, "
                             f"only model {only_m}", {"form": form}))
            ctx.mismatch("bind nodesets", form, only_i, only_m)
        if [list(x) for x in obs["ctl"]] != [list(x) for x in m["ctl"]]:
            ctx.fail(Failure("body-shape", f"body controls differ: impl {obs['ctl']} spec {m['ctl']}", {"form": form}))
            ctx.mismatch("body controls", form, obs["ctl"], m["ctl"])
        else:
            # second half: the attributes of every body control (finite maps; `ref` / `nodeset` are the refs above)
            octl = formobs.observe_controls(r["xform"])
            documented_check(ctx, form, octl)
            mattrs = [[t, dict(a)] for t, a in m["ctlAttrs"]]
            sattrs = [dict(a) for a in m["specAttrs"]]
            if not (len(octl) == len(mattrs) == len(sattrs)) or any(o[0] != x[0] for o, x in zip(octl, mattrs)):
                ctx.mismatch("control list of the attribute model is not aligned with the body model", form,
                             [o[:2] for o in octl], [x[0] for x in mattrs])
            else:
                for (tag, ref, a), (_, ma), sa in zip(octl, mattrs, sattrs):
                    if a:
                        nontrivial = True
                        ctx.count("controls with attributes")
                        for k in a:
                            ctx.count("attr " + tag + "/" + k)
                    if a != sa:
                        ctx.fail(Failure("body-attrs", f"attributes of <{tag} ref={ref}> are {attr_str(a)}, the row dictates "
                                         f"{attr_str(sa)}", {"form": form}, extra={"tag": tag, "ref": ref, "impl": a, "spec": sa}))
                    if a != ma:
                        ctx.mismatch(f"attributes of <{tag} ref={ref}>", form, attr_str(a), attr_str(ma))
                    if ma != sa:
                        ctx.mismatch(f"model vs spec attributes of <{tag} ref={ref}> (body_attrs_of_row)", form, attr_str(sa), attr_str(ma))
    elif r["ok"] and m["outcome"] == "error":
        ctx.mismatch("model rejects, implementation accepts", form, "ok", m["err"])
        ctx.fail(Failure("accepted-malformed", f"sheet the grammar rejects was accepted: {m['err']}", {"form": form}))
    elif r["class"] == "pyxform" and m["outcome"] == "ok":
        ctx.mismatch("implementation rejects, model accepts", form, r["msg"][:300], "ok")
        ctx.fail(Failure("rejected-wellformed", "well-formed sheet rejected: " + r["msg"][:200], {"form": form}))
    elif r["class"] == "internal" and m["outcome"] in ("ok", "error"):
        ctx.mismatch("implementation crashes", form, r["msg"][:300], m["outcome"])
        ctx.fail(Failure("crash", "internal exception " + r["msg"][:200] + " at " + r.get("site", ""), {"form": form}))
    if ctx.rng.random() < 0.12 and r["class"] in ("ok", "pyxform"):
        container_case(ctx, form, r)
    ctx.record({"form": form}, nontrivial)


ALL_SIMPLE = None


def explore(ctx, factor, bs):
    rng = ctx.rng
    n = ctx.pick(1000, 20000) * factor
    import controls_gen
    for i in range(n):
        form = formcommon.structure_form(rng, tier_big=not ctx.quick(), external_in_repeat=True)
        # layout noise that must vanish: blank rows, rows marked disabled (of every kind)
        if rng.random() < 0.35:
            rows = []
            for row in form["survey"]:
                if rng.random() < 0.15:
                    rows.append({})
                rows.append(row)
            form["survey"] = rows
            form = controls_gen.disabled_noise(rng, form)
            ctx.count("disabled noise")
        if rng.random() < 0.3:
            form = meta_settings(rng, form)
            ctx.count("meta settings")
        form_case(ctx, form)
    for i in range(ctx.pick(1500, 20000) * factor):
        form = controls_gen.attr_form(rng, big=not ctx.quick())
        if rng.random() < 0.25:
            form = controls_gen.disabled_noise(rng, form)
            ctx.count("disabled noise")
        if rng.random() < 0.2:
            form = meta_settings(rng, form)
            ctx.count("meta settings")
        form_case(ctx, form, family="attributes")


def replay(ctx, payload, bs):
    before = len(ctx.failures), len(ctx.mismatches)
    form_case(ctx, payload["case"]["form"])
    return (len(ctx.failures), len(ctx.mismatches)) == before


def main(argv):
    return vcore.run_check(PROP, explore, RULE, matchers={}, replay=replay, argv=argv)
