"""
C04 — survey rows map one-to-one, in order and nesting, onto instance and body.

Theorems: Pyxv/Proofs/C04.lean (`stack_refines_nest`: the begin/end stack machine equals the
grammar reading, errors included; `instance_shape`; `body_controls_cover_paths`; helper placement).
Tie/oracle: for every generated sheet the implementation's primary instance (names, order,
nesting, template marks) and body (control element names and refs, in document order) must equal
what the Lean pipeline computes from the rows alone — the Lean pipeline *is* the spec shape here
(`nest` + `plain` + the type table regenerated from /repo).
"""

from __future__ import annotations

import formobs
import impl
import vcore
from props import formcommon
from vcore import Failure

PROP = "C04"
RULE = (
    "generated sheets of question/group/repeat rows of every simple type of the regenerated type table, "
    "selects (+or_other spellings), count helpers, disabled/blank rows, depth to 5 (quick) / 8 (thorough); "
    "distinct by canonical hash; non-trivial = accepted and containing a group or repeat"
)


def form_case(ctx, form):
    r = impl.run(form)
    m = formcommon.model_call(ctx, form)
    ctx.count(f"impl:{r['class']}/model:{m['outcome']}")
    nontrivial = False
    if r["ok"] and m["outcome"] == "ok":
        obs = formobs.observe(r["xform"])
        nontrivial = any(x.get("type", "").startswith("begin") for x in form["survey"])
        # the spec shape comes from the rows alone; a difference on the implementation side is the
        # property failing (the model has been validated on the unchanged tree)
        if not formobs.nt_eq(obs["instance"], m["instance"]):
            ctx.fail(Failure("instance-shape", "primary instance differs from the row structure: impl "
                             + formobs.nt_str(obs["instance"]) + " spec " + formobs.nt_str(m["instance"]), {"form": form}))
            ctx.mismatch("instance tree", form, formobs.nt_str(obs["instance"]), formobs.nt_str(m["instance"]))
        if [list(x) for x in obs["ctl"]] != [list(x) for x in m["ctl"]]:
            ctx.fail(Failure("body-shape", f"body controls differ: impl {obs['ctl']} spec {m['ctl']}", {"form": form}))
            ctx.mismatch("body controls", form, obs["ctl"], m["ctl"])
    elif r["ok"] and m["outcome"] == "error":
        ctx.mismatch("model rejects, implementation accepts", form, "ok", m["err"])
        ctx.fail(Failure("accepted-malformed", f"sheet the grammar rejects was accepted: {m['err']}", {"form": form}))
    elif r["class"] == "pyxform" and m["outcome"] == "ok":
        ctx.mismatch("implementation rejects, model accepts", form, r["msg"][:300], "ok")
        ctx.fail(Failure("rejected-wellformed", "well-formed sheet rejected: " + r["msg"][:200], {"form": form}))
    ctx.record({"form": form}, nontrivial)


ALL_SIMPLE = None


def explore(ctx, factor, bs):
    rng = ctx.rng
    n = ctx.pick(1200, 30000) * factor
    import gen
    for i in range(n):
        form = formcommon.structure_form(rng, tier_big=not ctx.quick())
        # layout noise that must vanish: blank rows, disabled rows
        if rng.random() < 0.3:
            rows = []
            for row in form["survey"]:
                if rng.random() < 0.15:
                    rows.append({})
                if rng.random() < 0.1 and not row.get("type", "").startswith(("begin", "end")):
                    rows.append({"type": "text", "name": "dis" + str(len(rows)), "label": "x", "disabled": rng.choice(["yes", "true", "TRUE"])})
                rows.append(row)
            form["survey"] = rows
        form_case(ctx, form)


def replay(ctx, payload, bs):
    before = len(ctx.failures), len(ctx.mismatches)
    form_case(ctx, payload["case"]["form"])
    return (len(ctx.failures), len(ctx.mismatches)) == before


def main(argv):
    return vcore.run_check(PROP, explore, RULE, matchers={}, replay=replay, argv=argv)
