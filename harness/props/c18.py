"""
C18 — validator verdicts are honoured and failures leave no residue.

Theorem side: lean/Pyxv/Proofs/C18.lean (state machine over (file system, validator outcome, flags) and the
error cleaner; model in lean/Pyxv/Model/Validator.lean).

Check side (this file), everything on /repo's working tree (PYXFORM_REPO), in-process:

* a scripted stand-in `java` on a private PATH (harness/c18_env.py) plays every validator outcome
  {exit 0 silent, exit 0 + stderr, exit >0 + generated stderr, killed by a signal, watchdog timeout, java absent,
  unreadable jar, corrupt jar} against {convert(validate=True/False), CLI x {--json} x {--skip_validate} x
  {--odk_validate}} x {valid forms (plain / with warnings / with external choices), early and late conversion
  errors, unencodable text} x {output file pre-existing or not}: an exhaustive matrix; stderr texts generated;
* per run the observation is: exception class + message / returned ConvertResult, CLI JSON, log records,
  files left in the private TMPDIR, files in the input and output directories, what the validator was shown;
* correspondence: the Lean machine (`c18.run`) stepped with the same (form outcome, PopenResult, mode, flags,
  pre-existing files) must predict exactly that observation; `ErrorCleaner.odk_validate` vs `c18.clean` on
  thousands of generated diagnostics; `_validator_args_logic` vs `c18.args` on all 8 rows;
* oracle: the property's statement evaluated on the implementation's observation (never on the model).
"""

from __future__ import annotations

import argparse
import re

import c18_env
import vcore
from vcore import Failure

PROP = "C18"
RULE = (
    "exhaustive matrix validator outcome x mode/flags x form kind x pre-existing output through the real "
    "convert()/main_cli() with a scripted java stand-in on a private PATH/TMPDIR, each run compared with the Lean "
    "state machine and judged by the property oracle; generated validator diagnostics (instance paths, kept "
    "families, stack frames, exception prefixes, duplicates, all Python line boundaries, Unicode case-folding "
    "characters) through ErrorCleaner.odk_validate vs the Lean cleaner; all 8 rows of _validator_args_logic. "
    "distinct = canonical hash of the case; non-trivial = the validator was actually invoked, or the diagnostic "
    "text contains a path / stack frame / duplicate, or an args row"
)

# ----------------------------------------------------------------------------- forms

MD_PLAIN = """| survey |
| | type | name | label |
| | text | q1 | Q1 |
| | integer | q2 | Q2 ${q1} |
"""
MD_WARN = """| survey |
| | type | name | label |
| | begin group | g |  |
| | text | q1 | Q1 |
| | end group | |  |
"""
MD_LANG = """| survey |
| | type | name | label::French | hint::French |
| | begin group | g |  | |
| | text | q1 | Q1 | h |
| | end group | |  | |
"""
MD_ITEMSETS = """| survey |
| | type | name | label | choice_filter |
| | text | q1 | Q1 | |
| | select_one_external c | q2 | Q2 | a=${q1} |
| choices |
| | list_name | name | label |
| | c | a | A |
| external_choices |
| | list_name | name | a |
| | c | x | 1 |
| | c | y | 2 |
"""
MD_EARLY = """| survey |
| | type | name | label |
| | text | q1 | Q1 |
| | frobnicate | q2 | Q2 |
"""
MD_LATE = """| survey |
| | type | name | label |
| | text | q1 | Q ${nope} |
"""
DICT_SURROGATE = {
    "survey": [{"type": "text", "name": "q", "label": "a\ud800b"}],
    "survey_header": [{"type": None, "name": None, "label": None}],
    "sheet_names": ["survey"],
}

FORMS = {
    "plain": {"md": MD_PLAIN, "expect": "ok"},
    "warn": {"md": MD_WARN, "expect": "ok"},
    "lang": {"md": MD_LANG, "expect": "ok"},
    "itemsets": {"md": MD_ITEMSETS, "expect": "ok"},
    "early": {"md": MD_EARLY, "expect": "early"},
    "late": {"md": MD_LATE, "expect": "late"},
    # crash points inside print_xform_to_file's write of the temp file (fault injected at the call of `open`)
    "disk-open": {"md": MD_PLAIN, "fault": "open", "expect": "diskfault"},
    "disk-write": {"md": MD_ITEMSETS, "fault": "write", "expect": "diskfault"},
    "disk-vanish": {"md": MD_WARN, "fault": "vanish", "expect": "diskfault"},
    # a lone surrogate in a label: UnicodeEncodeError while writing the temp file (print_xform_to_file's except
    # branch) on trees that let it through, a PyXFormError once characters are validated
    "surrogate": {"dict": DICT_SURROGATE, "expect": ("unencodable", "early", "late"), "lib_only": True},
}
EXT_NAMES = ["dallas", "tulsa", "austin"]


def container_kinds():
    """the container kinds a survey row can open, from the code's own table (aliases.control: group / repeat / loop)"""
    from pyxform import aliases

    return list(dict.fromkeys(aliases.control.values()))


def ext_form_md(chain):
    """A form whose only select_one_external sits inside the given chain of containers (outermost first)."""
    rows = ["| | select_one states | state | State | |"]
    for i, kind in enumerate(chain):
        begin = f"begin {kind}" + (" over states" if kind == "loop" else "")
        rows.append(f"| | {begin} | sec{i} | Section {i} | |")
    rows.append("| | select_one_external cities | city | City | state=${state} |")
    for i, kind in reversed(list(enumerate(chain))):
        rows.append(f"| | end {kind} | sec{i} | | |")
    return ("| survey |\n| | type | name | label | choice_filter |\n" + "\n".join(rows) + "\n"
            "| choices |\n| | list_name | name | label |\n| | states | tx | Texas |\n| | states | ok | Oklahoma |\n"
            "| external_choices |\n| | list_name | name | label | state |\n"
            + "".join(f"| | cities | {n} | {n.title()} | tx |\n" for n in EXT_NAMES))


def add_ext_forms(rng):
    """external select at top level, in every container kind, and in nested mixes of them"""
    kinds = container_kinds()
    chains = [[]] + [[k] for k in kinds]
    for _ in range(3):
        chains.append([rng.choice(kinds) for _ in range(rng.randint(2, 3))])
    for k in kinds:  # each kind also as the innermost container of a nesting
        chains.append([rng.choice(kinds), k])
    from pyxform import constants

    for ch in chains:
        if constants.LOOP in ch:
            # sections below a loop are replicated per choice and rejected as duplicates: a loop can only be innermost
            ch = [k for k in ch if k != constants.LOOP] + [constants.LOOP]
        fid = "ext:" + ("/".join(ch) or "top")
        FORMS[fid] = {"md": ext_form_md(ch), "expect": ("ok", "early", "late"), "ext": True, "few_outcomes": True}


LANG_WARNING_PREFIX = "The following language declarations do not contain valid machine-readable codes"


def abstract_form(sb, fid):
    """The conversion outcome of a form as the model's `Form`: from two baseline runs without validation."""
    f = FORMS[fid]
    silent = {"kind": "exit", "code": 0, "stderr": ""}
    a = sb.run(f, silent, {"kind": "lib", "validate": False, "pretty": False}, False)
    b = sb.run(f, silent, {"kind": "lib", "validate": False, "pretty": True}, False)
    if a["raised"]:
        if a["raised"] == "PyXFormError":
            k = "late" if a["to_xml_calls"] else "early"
        elif a["raised"] == "UnicodeEncodeError":
            k = "unencodable"
        elif a["raised"] in ("OSError", "FileNotFoundError") and f.get("fault"):
            k = "diskfault"
        else:
            raise vcore.Infra(f"baseline conversion of form {fid} raised {a['raised']}: {a['msg']}")
        if k != f["expect"] and k not in f["expect"]:
            raise vcore.Infra(f"form {fid}: expected kind {f['expect']}, the code now gives {k} ({a['msg'][:100]})")
        return {"k": k, "msg": a["msg"]}
    if (f["expect"] != "ok" and "ok" not in f["expect"]) or b["raised"]:
        raise vcore.Infra(f"form {fid}: expected {f['expect']}, baseline conversion succeeded")
    w = a["ret"]["warnings"]
    post = [x for x in w if x.startswith(LANG_WARNING_PREFIX)]
    pre = [x for x in w if not x.startswith(LANG_WARNING_PREFIX)]
    if pre + post != w:
        raise vcore.Infra("baseline warnings are not (conversion warnings, then language warning)")
    return {"k": "ok", "ugly": a["ret"]["xform"], "pretty": b["ret"]["xform"], "itemsets": a["ret"]["itemsets"],
            "preW": pre, "postW": post}


# ----------------------------------------------------------------------------- diagnostics generator

NAMES = ["data", "g", "q1", "grp_a", "Q-2", "my_group", "item", "value", "html", "body", "root", "a", "b1", "X_y-z", "age", "N9"]
ODD_NAMES = ["my.q", "café", "q.1", "über", "nı", "ſx", "K1", "İd"]
KEPT = ["/html/body/select1", "/root/item/name", "/html/head/model/bind", "/html/body/group/input", "/data/g/item/value",
        "/root/itemx/y", "/html/bodyguard/x"]
WORDS = ["Error", "evaluating", "field", "XPath", "dependency", "cycle", "for", "in", "condition", ":", "=", "null", "warn"]
FRAMES = ["\tat org.javarosa.xform.parse.XFormParser.parse(XFormParser.java:123)",
          "\tat org.opendatakit.validate.FormValidator.validate(FormValidator.java:321)",
          "    at org.javarosa.core.model.FormDef.initialize(FormDef.java:1234)",
          "Caused by: x (Foo.java:12)", "\tat sun.reflect.NativeMethodAccessorImpl.invoke0(Native Method)"]
EXC = ["java.lang.RuntimeException: ", "org.javarosa.xpath.XPathUnhandledException: ", "java.lang.NullPointerException",
       "org.javarosa.xform.parse.XFormParseException"]
BREAKS = ["\n", "\n", "\n", "\r\n", "\r", "\x0b", "\x0c", "\x1c", "\x1d", "\x1e", "\x85", " ", " "]
JARFILE = "Error: Unable to access jarfile"
# the full set of `str.splitlines()` boundaries (pinned against the interpreter by the table c18LineBreaks)
LINE_BOUNDARIES = ["\n", "\r", "\x0b", "\x0c", "\x1c", "\x1d", "\x1e", "\x85", "\u2028", "\u2029"]
SEPARATORS = LINE_BOUNDARIES + ["\r\n", "\n\r", "\r\r\n", "\r\n\n"]
# what `str.strip()` removes (table c18StripBlanks) and a few look-alikes it does not remove
STRIP_BLANKS = [chr(n) for n in (9, 10, 11, 12, 13, 28, 29, 30, 31, 32, 0x85, 0xA0, 0x1680, 0x2000, 0x2001, 0x2002, 0x2003, 0x2004,
                                 0x2005, 0x2006, 0x2007, 0x2008, 0x2009, 0x200A, 0x2028, 0x2029, 0x202F, 0x205F, 0x3000)]
NOT_BLANKS = ["\u200b", "\ufeff", "\x00", "\x1b", "\u180e", "\u2060"]


NAME_PIECES = ["first", "name", "hh", "member", "count", "age", "q", "grp", "Village", "id", "x"]


def gen_name(rng):
    """an XLSForm-legal ASCII element name: letters, digits, `-` and `_` (never starting with a digit or hyphen)"""
    n = rng.choice(NAME_PIECES)
    for _ in range(rng.randint(0, 3)):
        n += rng.choice(["-", "-", "_", "", "-_", "--"]) + rng.choice(NAME_PIECES + ["1", "27", "0x"])
    return n


def gen_path(rng, odd=False):
    n = rng.randint(2, 4)
    segs = [gen_name(rng) if rng.random() < 0.4 else rng.choice(NAMES) for _ in range(n)]
    if odd:
        segs[rng.randrange(n)] = rng.choice(ODD_NAMES)
    return "/" + "/".join(segs)


ERROR_LINES = ["org.javarosa.xform.parse.XFormParseException: XForm Parse Error: {p} is not a valid node",
               ">> XForm Parse Error: problem with the bind for {p}", "Error: Problem found at nodeset: {p}",
               "XPath evaluation: Error: type mismatch in {p} and {q}", "Validation Error: Error: cyclic reference {p} -> {q} -> {p}"]


def gen_line(rng, p_odd=0.0):
    r = rng.random()
    if r < 0.18:
        return rng.choice(FRAMES)
    if r < 0.26:
        # JavaRosa's own "... Error: ..." lines, citing instance paths
        return rng.choice(ERROR_LINES).format(p=gen_path(rng, odd=rng.random() < p_odd), q=gen_path(rng))
    parts = []
    if r < 0.45:
        parts.append(rng.choice(EXC) + rng.choice(["", "", ": "]))
    for _ in range(rng.randint(0, 5)):
        x = rng.random()
        if x < 0.35:
            parts.append(gen_path(rng, odd=rng.random() < p_odd))
        elif x < 0.45:
            parts.append(rng.choice(KEPT))
        elif x < 0.55:
            # glued contexts: brackets, trailing slash, double slash, single segment, adjacent paths
            p = gen_path(rng)
            parts.append(rng.choice(["[" + p + "]", p + "/", "/" + p, "/" + rng.choice(NAMES), p + p, "x" + p, p + ",", "${" + rng.choice(NAMES) + "}",
                                     "instance('c')/root/item[name=" + p + "]/label"]))
        else:
            parts.append(rng.choice(WORDS))
    sep = rng.choice([" ", " ", " ", "  ", "\t"])
    return sep.join(parts)


def gen_stderr(rng, p_odd=0.0, directed=True):
    if directed and rng.random() < 0.04:
        return rng.choice([
            "", "\n", " \n ", "x", "/", "//", "/a", "/a/", "/a/b", "a/b/c", "/a//b/c", "/a/b\n/a/b", "\tat\n\tat", "x\n\nx\n\n",
            "/data/q1K/x", "/ſ/İ", "/A/B/C", "/a/b/item/value", "/html/body", "/html/body/x",
            JARFILE + " /x/y/ODK_Validate.jar\n", "Error: Invalid or corrupt jarfile /x/y/ODK_Validate.jar\n",
        ])
    lines = []
    for _ in range(rng.randint(1, 7)):
        ln = gen_line(rng, p_odd)
        lines.append(ln)
        if rng.random() < 0.25:
            lines.append(ln)  # adjacent duplicate
        if rng.random() < 0.1 and len(lines) > 2:
            lines.append(lines[0])  # non-adjacent duplicate
    out = rng.choice(["", "", " ", "\n", "\t"])
    for ln in lines:
        out += ln + rng.choice(BREAKS)
    if rng.random() < 0.3:
        out = out.rstrip("\n")
    return out


def separator_cases(ctx, rng, factor=1):
    """Phase 8 stream: the cleaner over the FULL set of Python line boundaries (theorems splitlines_subPaths,
    strip_subPaths, cleaner_end_to_end_all).  (1) bounded-exhaustive: every ordered pair of separators (10 boundary
    characters, `\\r\\n`, `\\n\\r`, `\\r\\r\\n`, `\\r\\n\\n`) between three lines, for templates with paths glued directly to the
    separators, duplicates across different separators, a stack frame between odd separators; (2) every strip blank and
    some non-blank look-alikes as padding; (3) generated diagnostics whose lines are joined by random separators."""
    templates = [
        ("/data/g/q1", "/data/g/q1", "x /data/q2"),          # paths glued to the separators, duplicate lines
        ("Error in /data/g/q1", "\tat org.Foo.bar(Foo.java:3)", "Error in /data/g/q1"),  # duplicates only after a frame is gone
        ("a/data/g", "", "/html/body/x /root/q/item/value"),   # empty middle line (lost between \\r and \\n), kept families
        ("java.lang.RuntimeException: /a/b", "java.lang.NullPointerException", "${b}"),
    ]
    n = 0
    for s1 in SEPARATORS:
        for s2 in SEPARATORS:
            for a, b, c in templates:
                cleaner_case(ctx, a + s1 + b + s2 + c)
                n += 1
    for sep in SEPARATORS:
        cleaner_case(ctx, sep + "/a/b" + sep + sep + "/a/b" + sep)
        cleaner_case(ctx, "/a/b" + sep + "/c")       # a match must not cross the separator …
        cleaner_case(ctx, "/a" + sep + "b/c/d")      # … nor be assembled across it
        n += 3
    for pad in STRIP_BLANKS + NOT_BLANKS:
        cleaner_case(ctx, pad + "/data/g/q1" + pad)
        cleaner_case(ctx, pad + pad + "x /data/g/q1" + pad + "y" + pad + "\n" + pad)
        n += 2
    for _ in range(ctx.pick(1000, 40000) * min(factor, 3)):
        lines = []
        for _ in range(rng.randint(1, 6)):
            ln = gen_line(rng, 0.1)
            r = rng.random()
            if r < 0.25:
                ln = ln + rng.choice(["", " "]) + gen_path(rng)   # a path right before the separator
            elif r < 0.4:
                ln = gen_path(rng) + ln
            lines.append(ln)
            if rng.random() < 0.3:
                lines.append(ln)
        text = rng.choice(["", "", rng.choice(STRIP_BLANKS), rng.choice(SEPARATORS)])
        for ln in lines:
            text += ln + rng.choice(SEPARATORS)
        if rng.random() < 0.4:
            text = text.rstrip() if rng.random() < 0.5 else text + rng.choice(STRIP_BLANKS + NOT_BLANKS)
        cleaner_case(ctx, text)
        n += 1
    ctx.count("clean-separator-stream", n)


# ----------------------------------------------------------------------------- cleaner oracle

TOKEN_PATH = re.compile(r"^/[\w.\-]+(?:/[\w.\-]+)+$")
ASCII_SEG = re.compile(r"^[A-Za-z0-9_\-]+$")
KEEP_PREFIXES = ("/html/body", "/root/item", "/html/head/model/bind")
MARKERS = (".java:", "\tat")
FILE_EXTENSIONS = (".jar", ".xml", ".java", ".class")


def cleaner_oracle(text: str, out: str):
    """Property text: 'instance paths shown as ${name}, Java stack noise removed'.  Judged on the implementation's
    output `out` for validator stderr `text`.  Returns [(kind, detail, extra)]."""
    fails = []
    if JARFILE in text:
        # java could not open the jar: the message is the java launcher's, returned verbatim by design
        if out != text:
            fails.append(("cleaner-jarfile-message-altered", "launcher message not passed through", {}))
        return fails
    out_lines = out.split("\n")
    for ol in out_lines:
        if any(m in ol for m in MARKERS):
            fails.append(("cleaner-noise-survives", f"output line still carries java stack noise: {ol!r}", {"line": ol}))
            break
    out_tokens = set()
    for ol in out_lines:
        out_tokens.update(ol.split())
    for ln in text.splitlines():
        if any(m in ln for m in MARKERS):
            continue
        for tok in ln.split():
            if tok.endswith(FILE_EXTENSIONS):
                continue  # a file-system path of the java launcher / a stack frame, not an instance path
            if TOKEN_PATH.match(tok) and not tok.startswith(KEEP_PREFIXES) and not tok.endswith("/item/value"):
                last = tok.rsplit("/", 1)[1]
                if tok in out_tokens or ("${" + last + "}") not in out:
                    fails.append(("cleaner-path-not-replaced", f"instance path {tok!r} is not shown as ${{{last}}}", {"path": tok}))
                    return fails
    return fails


def odd_segment(path: str) -> bool:
    return any(not ASCII_SEG.match(seg) for seg in path.split("/")[1:])


def cleaner_case(ctx, text, where="fn", odk=None):
    """ErrorCleaner.odk_validate on one diagnostic text: model vs implementation, and the oracle."""
    from pyxform.validators.error_cleaner import ErrorCleaner

    case = {"kind": "clean", "text": text}
    out = ErrorCleaner.odk_validate(text)
    m = ctx.driver.call("c18.clean", msg=text)
    if m["out"] != out:
        ctx.mismatch("ErrorCleaner.odk_validate vs Validator.odkValidate", case, out, m["out"])
    # tighter tie (phase 8): the intermediate results the theorems `splitlines_subPaths` / `strip_subPaths` /
    # `cleaner_lines_all` speak about — the substituted text and the de-duplicated line list — are compared too
    from pyxform.validators.error_cleaner import ERROR_MESSAGE_REGEX

    sub = ERROR_MESSAGE_REGEX.sub(ErrorCleaner._replace_xpath_with_tokens, text)
    if m.get("sub") != sub:
        ctx.mismatch("ERROR_MESSAGE_REGEX.sub vs Validator.subPaths", case, sub, m.get("sub"))
    lines = list(ErrorCleaner._cleanup_errors(text))
    if m.get("lines") != lines:
        ctx.mismatch("ErrorCleaner._cleanup_errors vs Validator.cleanupErrors", case, lines, m.get("lines"))
    # the closed form proved for the model for EVERY text (`cleaner_end_to_end_all`), evaluated with the
    # implementation's own pieces: strip, splitlines, per-line substitution, dedup, stack-line removal, "\n"-join
    if JARFILE not in text:
        per_line = [ERROR_MESSAGE_REGEX.sub(ErrorCleaner._replace_xpath_with_tokens, ln) for ln in text.strip().splitlines()]
        nodup = [ln for i, ln in enumerate(per_line) if i == 0 or ln != per_line[i - 1]]
        closed = "\n".join(x for x in (ErrorCleaner._remove_java_content(ln) for ln in nodup) if x is not None)
        if closed != out:
            ctx.mismatch("ErrorCleaner.odk_validate vs the line-by-line closed form (theorem cleaner_end_to_end_all)", case, out, closed)
        if any(ch in out for ch in LINE_BOUNDARIES if ch != "\n"):
            ctx.mismatch("a line boundary other than \\n survives in the message (theorem cleaner_lines_noBreak)", case, out, closed)
    for kind, detail, extra in cleaner_oracle(text, out):
        ctx.fail(Failure(kind, detail, case, extra=dict(extra, text=text, out=out)))
    nontrivial = "/" in text or "\tat" in text or ".java:" in text
    ctx.count("clean:" + ("jarfile" if JARFILE in text else "noisy" if any(k in text for k in MARKERS) else "plain"))
    ctx.record(case, nontrivial)


# ----------------------------------------------------------------------------- args logic

def documented_args(skip_given, odk, enketo):
    """The docstring table of _validator_args_logic / the --help texts: --skip_validate switches every external
    validator off; no validator flag means ODK Validate (backwards compatible); otherwise exactly the named ones."""
    if skip_given:
        return False, False
    if not odk and not enketo:
        return True, False
    return odk, enketo


def args_case(ctx, skip_given, odk, enketo):
    from pyxform.xls2xform import _validator_args_logic

    case = {"kind": "args", "skip": skip_given, "odk": odk, "enketo": enketo}
    ns = argparse.Namespace(skip_validate=not skip_given, odk_validate=odk, enketo_validate=enketo)
    r = _validator_args_logic(args=ns)
    got = (bool(r.odk_validate), bool(r.enketo_validate))
    m = ctx.driver.call("c18.args", skip=skip_given, odk=odk, enketo=enketo)
    if (m["odk"], m["enketo"]) != got:
        ctx.mismatch("_validator_args_logic vs Validator.validatorArgsLogic", case, got, m)
    want = documented_args(skip_given, odk, enketo)
    if got != want:
        ctx.fail(Failure("args-logic", f"flags {case} -> (odk, enketo) = {got}, documented {want}", case))
    ctx.count("args-row")
    ctx.record(case, True)


# ----------------------------------------------------------------------------- has_external_choices

def to_wire(v):
    """order-preserving tagged form of harness/…/OpsJVal.ofWire"""
    if v is None or isinstance(v, (bool, str)):
        return v
    if isinstance(v, int):
        return {"i": str(v)}
    if isinstance(v, (list, tuple)):
        return {"a": [to_wire(x) for x in v]}
    if isinstance(v, dict):
        return {"o": [[str(k), to_wire(x)] for k, x in v.items()]}
    return str(v)


def gen_json(rng, depth=0):
    r = rng.random()
    if depth > 3 or r < 0.25:
        return rng.choice([None, True, 3, "text", "select one", "select one external", "select one external cities", "group", ""])
    if r < 0.5:
        return [gen_json(rng, depth + 1) for _ in range(rng.randint(0, 3))]
    d = {}
    for _ in range(rng.randint(0, 4)):
        k = rng.choice(["type", "name", "children", "choices", "bind", "itemset", "label", "Type", "type "])
        d[k] = gen_json(rng, depth + 1)
    if rng.random() < 0.5:
        d["type"] = rng.choice(["group", "repeat", "loop", "survey", "text", "select one external", "select one external c", "select one"])
    return d


def hasext_case(ctx, v, label):
    from pyxform.utils import has_external_choices

    got = bool(has_external_choices(v))
    m = ctx.driver.call("c18.hasext", v=to_wire(v))
    if m != got:
        ctx.mismatch("utils.has_external_choices vs Validator.hasExt", {"kind": "hasext", "label": label}, got, m)
    ctx.count("hasext:" + str(got))
    return got


def hasext_cases(ctx, sb, rng):
    """utils.has_external_choices vs the Lean tree walk: on the JSON intermediate form of every form of the matrix,
    and on generated JSON values with `type` keys at every depth"""
    from pyxform.xls2xform import convert

    for fid, f in FORMS.items():
        if "md" not in f or f.get("fault"):
            continue
        try:
            r = convert(xlsform=f["md"], file_type=".md")
        except Exception:  # noqa: BLE001  (conversion errors are another case's business)
            continue
        got = hasext_case(ctx, r._pyxform, fid)
        ctx.record({"kind": "hasext", "form": fid}, True)
        if f.get("ext") and not got:
            ctx.fail(Failure("has-external-choices-misses", "a select_one_external below " + fid + " is not found in the JSON form",
                             {"kind": "hasext", "form": fid}))
    for _ in range(ctx.pick(300, 3000)):
        v = gen_json(rng)
        hasext_case(ctx, v, "generated")
        ctx.record({"kind": "hasext", "v": v}, True)


# ----------------------------------------------------------------------------- one run of the matrix

def decode_like_util(raw: bytes) -> str:
    try:
        return raw.decode("utf-8")
    except UnicodeDecodeError:
        return raw.decode("latin-1")


def expected_popen(outcome):
    raw = bytes.fromhex(outcome["stderr_hex"]) if "stderr_hex" in outcome else outcome.get("stderr", "").encode("utf-8")
    k = outcome["kind"]
    if k == "exit":
        return {"rc": outcome["code"], "timeout": False, "stderr": decode_like_util(raw)}
    if k == "kill":
        return {"rc": -outcome["code"], "timeout": False, "stderr": decode_like_util(raw)}
    if k == "sleep":
        return {"rc": -15, "timeout": True, "stderr": ""}
    return None


def validation_requested(mode) -> bool:
    if mode["kind"] == "lib":
        return bool(mode["validate"])
    return not mode.get("skip")


def canon_impl(obs):
    base_in = obs["out_dir_abs"].rsplit("/", 1)[0]
    files = {f"{base_in}/{k}": v for k, v in obs["files"].items()}
    return {"raised": obs["raised"], "msg": obs["msg"], "ret": obs["ret"], "json": obs["json"], "logs": obs["logs"],
            "tmp": obs["tmp"], "files": files, "seen": [] if obs["seen"] is None else [obs["seen"]]}


def canon_model(m):
    return {k: m[k] for k in ("raised", "msg", "ret", "json", "logs", "tmp", "files", "seen")}


def run_case(ctx, sb, forms, fid, outcome, mode, pre):
    case = {"kind": "run", "form": fid, "outcome": outcome, "mode": mode, "pre": pre}
    af = forms[fid]
    obs = sb.run(FORMS[fid], outcome, mode, pre)
    want_popen = expected_popen(outcome)
    invoked = bool(obs["popen"])
    ctx.count(f"outcome:{outcome['tag']}")
    ctx.count(f"mode:{mode_tag(mode)}")
    ctx.count(f"form:{fid}")
    ctx.count("validator-invoked" if invoked else "validator-not-invoked")
    # --- run_popen_with_timeout outcome mapping (util.py:38-84)
    env = {"absent": True} if outcome["kind"] == "absent" else dict(want_popen)
    if invoked:
        got = {k: obs["popen"][0][k] for k in ("rc", "timeout", "stderr")}
        if outcome["kind"] == "sleep" and got == {"rc": -15, "timeout": False, "stderr": ""}:
            ctx.count("watchdog-race:kill-flag-read-before-set")  # benign race of util.py: both are 'accept with a warning'
        elif got != want_popen:
            ctx.fail(Failure("popen-mapping", f"run_popen_with_timeout returned {got}, the process did {want_popen}", case))
        p0 = obs["popen"][0]
        if outcome["kind"] in ("exit", "kill") and (p0["wall_s"] > c18_env.RUN_BOUND or p0["hard_killed"]):
            ctx.count("validator-run-blocked")
            ctx.fail(Failure("validator-run-blocked", f"the stand-in validator returns at once, yet the validator run took {p0['wall_s']} s"
                             f"{' and had to be killed by the harness' if p0['hard_killed'] else ''} "
                             f"(stderr {len(want_popen['stderr'])} chars, stdout {outcome.get('stdout_bytes', 0)} bytes)", case))
        if len(obs["popen"]) != 1 or obs["popen"][0]["asked_timeout"] <= 0:
            ctx.fail(Failure("popen-mapping", "validator invoked more than once or without a watchdog", case))
        env = got
    # --- correspondence
    req = {"kind": mode["kind"], "form": af, "env": env, "t": 7, "fs": []}
    base = obs["out_dir_abs"].rsplit("/", 1)[0]
    if mode["kind"] == "lib":
        req.update(validate=bool(mode["validate"]), pretty=bool(mode.get("pretty")))
    else:
        o = mode.get("out", "given")
        out_dir, out_name = obs["out_rel"].split("/", 1)
        req.update(args={"json": bool(mode.get("json")), "skip": bool(mode.get("skip")), "odk": bool(mode.get("odk")),
                         "enketo": False, "pretty": bool(mode.get("pretty"))},
                   inDir=f"{base}/in", inName="form.md", out=None if o == "omitted" else [f"{base}/{out_dir}", out_name])
        if pre:
            req["fs"] = [[f"{base}/{out_dir}", out_name, "STALE"]]
    m = ctx.driver.call("c18.run", **req)
    ci = canon_impl(obs)
    if not m.get("supported"):
        ctx.count("unsupported")
    else:
        ctx.count("model-answered")
        cm = canon_model(m)
        if outcome["kind"] == "sleep":
            # the stand-in may be killed by the shortened watchdog before it copied the file it was shown
            ci["seen"] = cm["seen"] = "not compared"
        if cm != ci:
            diff = [k for k in ci if ci[k] != cm[k]]
            ctx.mismatch("main_cli/convert run vs Validator machine: " + ",".join(diff), case,
                         {k: ci[k] for k in diff}, {k: cm[k] for k in diff})
    # --- oracle (property text), on the implementation's observation only
    for kind, detail, extra in run_oracle(case, obs, af):
        ctx.fail(Failure(kind, detail, case, extra=extra))
    ctx.record(case, invoked)
    return obs


def mode_tag(mode):
    if mode["kind"] == "lib":
        return f"lib-validate={mode['validate']}"
    return "cli" + ("-json" if mode.get("json") else "") + ("-skip" if mode.get("skip") else "") + ("-odk" if mode.get("odk") else "")


def run_oracle(case, obs, af):
    fails = []
    outcome, mode, pre = case["outcome"], case["mode"], case["pre"]
    cli = mode["kind"] == "cli"
    out_key = obs["out_rel"]
    out_now = obs["files"].get(out_key)
    # (1) under every outcome no temporary file survives
    if obs["tmp"]:
        fails.append(("temp-survives", f"files left in the private TMPDIR: {obs['tmp']}", {"tmp": obs["tmp"]}))
    if af["k"] != "ok":
        return fails
    requested = validation_requested(mode)
    k = outcome["kind"]
    accept = (not requested) or (k == "exit" and outcome["code"] == 0)
    reject = requested and k == "exit" and outcome["code"] > 0
    want_xform = af["pretty"] if mode.get("pretty") else af["ugly"]
    if reject:
        # (2) conversion fails with a validation error carrying the cleaned diagnostic lines
        msg = None
        if not cli:
            if obs["raised"] != "ODKValidateError":
                fails.append(("reject-not-raised", f"validator rejected, convert() gave {obs['raised'] or 'a result'}", {}))
            else:
                msg = obs["msg"]
        elif mode.get("json"):
            j = obs["json"] or {}
            if j.get("code") != 999:
                fails.append(("reject-json-not-999", f"validator rejected, JSON code {j.get('code')}", {}))
            else:
                msg = j.get("message")
            if out_now != ("STALE" if pre else None):
                fails.append(("reject-output-written", "validator rejected, yet the output path was written", {"content": out_now}))
        else:
            errs = [lg for lg in obs["logs"] if lg[0] == "ERROR"]
            if not errs or obs["raised"]:
                fails.append(("reject-plain-no-error-log", f"validator rejected: logs {obs['logs']}, raised {obs['raised']}", {}))
            if out_now is not None:
                fails.append(("reject-plain-output-remains", "validator rejected, the output file is still there", {"content": out_now}))
        if msg is not None:
            text = expected_popen(outcome)["stderr"]
            head = "ODK Validate Errors:\n"
            body = msg[len(head):] if msg.startswith(head) else msg
            for kind, detail, extra in cleaner_oracle(text, body):
                fails.append((kind, detail, dict(extra, text=text, out=body)))
    elif accept:
        # (3) stderr surfaced as warnings (101, else 100); file written equals the library result; itemsets beside it
        stderr = expected_popen(outcome)["stderr"] if requested else ""
        if not cli:
            if obs["raised"]:
                fails.append(("accept-raised", f"validator accepted, convert() raised {obs['raised']}", {}))
            else:
                ws = obs["ret"]["warnings"]
                if stderr and not any(stderr in w for w in ws):
                    fails.append(("accept-stderr-not-surfaced", "validator stderr missing from warnings", {"warnings": ws}))
                if obs["ret"]["xform"] != want_xform:
                    fails.append(("file-differs-from-library", "validate=True changed the XForm text", {}))
                it = obs["ret"]["itemsets"]
                if FORMS[case["form"]].get("ext") and (it is None or not all(n in it for n in EXT_NAMES)):
                    fails.append(("itemsets-missing-external-choices", "the form has a select_one_external and an external_choices sheet, "
                                  "yet convert().itemsets does not carry its rows", {"got": it}))
        else:
            if mode.get("json"):
                j = obs["json"] or {}
                ws = j.get("warnings")
                if ws is None or j.get("code") != (101 if ws else 100):
                    fails.append(("accept-code", f"code {j.get('code')} with warnings {ws}", {}))
                elif stderr and not any(stderr in w for w in ws):
                    fails.append(("accept-stderr-not-surfaced", "validator stderr missing from warnings", {"warnings": ws}))
            else:
                texts = [lg[1] for lg in obs["logs"] if lg[0] == "WARNING"]
                if obs["raised"] or any(lg[0] == "ERROR" for lg in obs["logs"]):
                    fails.append(("accept-raised", f"validator accepted, CLI reported {obs['raised']} / {obs['logs']}", {}))
                elif stderr and not any(stderr in w for w in texts):
                    fails.append(("accept-stderr-not-surfaced", "validator stderr missing from logged warnings", {"logs": obs["logs"]}))
            if out_now != want_xform:
                fails.append(("file-differs-from-library", "file at the output path differs from convert().xform",
                              {"got": None if out_now is None else out_now[:200]}))
            items_key = out_key.rsplit("/", 1)[0] + "/itemsets.csv"
            items_now = obs["files"].get(items_key)
            if FORMS[case["form"]].get("ext") and (items_now is None or not all(n in items_now for n in EXT_NAMES)):
                fails.append(("itemsets-missing-external-choices", "the form has a select_one_external and an external_choices sheet, "
                              "yet no itemsets.csv with its rows lies beside the XForm", {"got": items_now}))
            if af["itemsets"] is not None and items_now != af["itemsets"]:
                fails.append(("itemsets-not-beside", "itemsets.csv missing or different from convert().itemsets", {"got": items_now}))
            if af["itemsets"] is None and items_now is not None and items_key != out_key:
                fails.append(("itemsets-spurious", "itemsets.csv written without external choices", {}))
    return fails


# ----------------------------------------------------------------------------- enumeration

JVM_NOTICES = ["Picked up JAVA_TOOL_OPTIONS: -Xmx512m -Dfile.encoding=UTF-8", "Picked up _JAVA_OPTIONS: -Djava.io.tmpdir=/tmp",
               "NOTE: Picked up JDK_JAVA_OPTIONS: --add-opens=java.base/java.lang=ALL-UNNAMED",
               "OpenJDK 64-Bit Server VM warning: Options -Xverify:none and -noverify were deprecated in JDK 13",
               "WARNING: An illegal reflective access operation has occurred", "SLF4J: Failed to load class \"org.slf4j.impl.StaticLoggerBinder\".",
               "Java HotSpot(TM) 64-Bit Server VM warning: ignoring option MaxPermSize=256m; support was removed in 8.0"]


def gen_accept_stderr(rng, first=None):
    """stderr of an accepting validator as a JVM really produces it: zero or more start-up notices of the JVM /
    logging framework first, then the validator's own warnings"""
    lines = [first or rng.choice(JVM_NOTICES)] + [rng.choice(JVM_NOTICES) for _ in range(rng.randint(0, 1))]
    for _ in range(rng.randint(1, 3)):
        lines.append(rng.choice(["Warning: ", "WARNING: ", ""]) + rng.choice(
            ["XForm is valid but the title is missing for " + gen_path(rng), "Function 'pulldata' is not supported by every client: " + gen_path(rng),
             "The field " + gen_path(rng) + " has no label", "1 warning(s) in " + gen_path(rng)]))
    return "\n".join(lines) + "\n"


def outcomes(ctx, rng, factor):
    n_rej = ctx.pick(3, 40) * min(factor, 2)
    n_warn = ctx.pick(1, 8)
    n_notice = ctx.pick(0, 8)
    outs = [{"tag": "exit0-silent", "kind": "exit", "code": 0, "stderr": ""}]
    for i in range(n_warn):
        outs.append({"tag": "exit0-stderr", "kind": "exit", "code": 0, "stderr": gen_stderr(rng, directed=False) if i else "Warning: /data/g/q1 is odd\n"})
    # every kind of start-up notice appears once as the first line of an accepted run's stderr (a filter keyed on the
    # first line of stderr must not swallow the warnings behind it); further random combinations in the thorough tier
    for i in range(len(JVM_NOTICES) + n_notice):
        first = JVM_NOTICES[i] if i < len(JVM_NOTICES) else None
        outs.append({"tag": "exit0-jvm-notice+stderr", "kind": "exit", "code": 0, "stderr": gen_accept_stderr(rng, first),
                     "few_forms": i >= 1})
    # a rejection citing nodes whose names use every legal ASCII name character
    outs.append({"tag": "exit>0-named-paths", "kind": "exit", "code": 1,
                 "stderr": "Error evaluating field '" + gen_name(rng) + "': " + "/data/" + gen_name(rng) + "/" + gen_name(rng) + "-" + gen_name(rng)
                           + " depends on /data/" + gen_name(rng) + "_" + gen_name(rng) + "\nResult: Invalid\n"})
    for i in range(n_rej):
        outs.append({"tag": "exit>0", "kind": "exit", "code": rng.choice([1, 1, 2, 3, 70, 137, 255]), "stderr": gen_stderr(rng)})
    outs.append({"tag": "exit>0", "kind": "exit", "code": 1,
                 "stderr": ">> Something broke the parser. See above for a hint.\norg.javarosa.xform.parse.XFormParseException: Cycle detected in form's relevant and calculation logic!\n"
                           "The following nodesets depend on one another in a cycle: /data/g/q1, /data/q2\n\tat org.javarosa.xform.parse.XFormParser.parse(XFormParser.java:491)\n"
                           "Result: Invalid\n"})
    # the validator rejects without a word on stderr (diagnostics on stdout only, a wrapper or JVM dying silently)
    silent_codes = [1, 2, 3, 137] if not ctx.quick() else [1, rng.choice([2, 3]), 137]
    for code in silent_codes:
        outs.append({"tag": "exit>0-silent", "kind": "exit", "code": code, "stderr": "", "few_forms": ctx.quick() and code != silent_codes[0]})
    outs.append({"tag": "exit>0-blank-stderr", "kind": "exit", "code": rng.choice([1, 2, 3, 137]), "stderr": rng.choice(["\n", " ", "\r\n\t"])})
    outs.append({"tag": "exit>0-latin1", "kind": "exit", "code": 1, "stderr_hex": "café /data/g/q1\n".encode("latin-1").hex()})
    outs.append({"tag": "jar-unreadable", "kind": "exit", "code": 1, "stderr": JARFILE + " /opt/x/pyxform/validators/odk_validate/bin/ODK_Validate.jar\n"})
    outs.append({"tag": "jar-corrupt", "kind": "exit", "code": 1, "stderr": "Error: Invalid or corrupt jarfile /opt/x/pyxform/validators/odk_validate/bin/ODK_Validate.jar\n"})
    # validator output SIZE as an input dimension: around the pipe capacity and well beyond, on stderr and on stdout
    sizes = ctx.pick([65537, 1 << 20], [4096, 65535, 65536, 65537, 200000, 1 << 20])
    for n in sizes:
        line = "Error: problem at " + "/data/g/q1 \n"
        big = (line * (n // len(line) + 1))[:n]
        for code in (0, 1):
            outs.append({"tag": "big-stderr", "kind": "exit", "code": code, "stderr": big, "big": True, "few_forms": True})
            outs.append({"tag": "big-stdout", "kind": "exit", "code": code, "stderr": "note /data/g/q1\n", "stdout_bytes": n, "big": True,
                         "few_forms": True})
    for sig in ctx.pick([9, 15], [9, 15, 6, 11]):
        outs.append({"tag": "killed", "kind": "kill", "code": sig, "stderr": rng.choice(["", "partial /data/g/q1"]), "few_forms": ctx.quick() and sig != 9})
    outs.append({"tag": "timeout", "kind": "sleep"})
    outs.append({"tag": "java-absent", "kind": "absent"})
    return outs


def modes(rng):
    ms = [{"kind": "lib", "validate": True, "pretty": rng.random() < 0.3}, {"kind": "lib", "validate": False, "pretty": rng.random() < 0.3}]
    for js in (False, True):
        for skip in (False, True):
            for odk in (False, True):
                ms.append({"kind": "cli", "json": js, "skip": skip, "odk": odk, "pretty": rng.random() < 0.3,
                           "out": "omitted" if rng.random() < 0.25 else "given"})
    return ms


def explore(ctx, factor, bs):
    import time

    rng = ctx.rng
    t0 = time.time()
    phases = ctx.notes.setdefault("phase_wall_s", {})
    # (a) args logic: all 8 rows
    for skip in (False, True):
        for odk in (False, True):
            for enk in (False, True):
                args_case(ctx, skip, odk, enk)
    # (b) cleaner, function level
    n_clean = ctx.pick(1500, 120000) * min(factor, 3)
    for i in range(n_clean):
        cleaner_case(ctx, gen_stderr(rng, p_odd=0.0))
    # directed shapes: marker assembled by deleting exception names (C18-F1, repaired); guard of cleaner_paths_to_refs (C18-F2)
    for text in ("Error in /data/g/my.q\n", "Error in /data/café/q1 and /data/g/q1\n"):
        cleaner_case(ctx, text)
    # family: a stack marker split around a second occurrence of the exception name the line starts with
    for _ in range(ctx.pick(12, 120)):
        pre = rng.choice(EXC)
        mk = rng.choice(MARKERS)
        i = rng.randint(1, len(mk) - 1)
        cleaner_case(ctx, pre + rng.choice(["", "Foo", "x y"]) + mk[:i] + pre + mk[i:] + rng.choice(["", "12 broke", " org.X.y(Z)"]) + "\n" + rng.choice(["", "kept /data/g/q1\n"]))
    for i in range(ctx.pick(60, 600)):
        cleaner_case(ctx, gen_stderr(rng, p_odd=0.5, directed=False))
    separator_cases(ctx, rng, factor)
    phases["args+cleaner"] = round(time.time() - t0, 1)
    # (c) the matrix
    with c18_env.Sandbox() as sb:
        add_ext_forms(rng)
        forms = {fid: abstract_form(sb, fid) for fid in FORMS}
        t1 = time.time()
        hasext_cases(ctx, sb, rng)
        phases["baselines+hasext"] = round(time.time() - t1, 1)
        t2 = time.time()
        ctx.notes["form_kinds"] = {fid: forms[fid]["k"] for fid in forms}
        ctx.notes["timeouts"] = (f"the watchdog path is exercised with {c18_env.SHORT_TIMEOUT}s instead of the literal "
                                 f"100 s (wrapper around the call in check_xform, 'sleep' outcome only); the literal is tied by the table c18ValidatorTimeout")
        outs = outcomes(ctx, rng, factor)
        for outcome in outs:
            for fid, f in FORMS.items():
                if outcome["kind"] == "sleep" and fid not in ("plain", "itemsets", "late"):
                    continue  # each validating run costs SHORT_TIMEOUT
                if outcome.get("few_forms") and fid not in ("plain", "warn"):
                    continue
                if f.get("few_outcomes") and outcome is not outs[0] and outcome is not outs[1]:
                    continue
                limited = f.get("fault") or fid in ("early", "late", "lang")
                if f.get("fault") and ctx.quick() and outcome["tag"] not in ("exit0-silent", "java-absent"):
                    continue
                if limited and outcome["tag"] not in ("exit0-silent", "exit0-stderr", "exit>0-named-paths", "java-absent", "killed"):
                    continue  # validator never reached (failed write, conversion error) / same path as `warn`: a few environments suffice
                if outcome.get("big") and ctx.quick() and fid != "plain":
                    continue
                if outcome.get("big") and ctx.dist.get("validator-run-blocked", 0) >= 3:
                    continue  # each blocked run costs seconds: three concrete inputs are enough
                for mode in modes(rng):
                    if outcome.get("big") and not (mode["kind"] == "lib" and mode["validate"] or
                                                   (mode["kind"] == "cli" and not mode.get("skip") and not mode.get("odk"))):
                        continue
                    if outcome.get("big") and ctx.quick() and mode["kind"] == "cli" and not mode.get("json"):
                        continue
                    if f.get("lib_only"):
                        if mode["kind"] != "lib":
                            continue
                        mode = dict(mode, pretty=False)  # the position in the codec's message depends on the layout
                    for pre in ((False, True) if mode["kind"] == "cli" else (False,)):
                        run_case(ctx, sb, forms, fid, outcome, mode, pre)
        phases["matrix"] = round(time.time() - t2, 1)
        # directed: output path named like the itemsets file (known finding C18-F3)
        silent = outs[0]
        run_case(ctx, sb, forms, "itemsets", silent, {"kind": "cli", "json": True, "skip": True, "odk": False, "out": "itemsets.csv"}, False)
        run_case(ctx, sb, forms, "plain", silent, {"kind": "cli", "json": True, "skip": False, "odk": False, "out": "itemsets.csv"}, True)


def replay(ctx, payload, bs):
    case = payload["case"]
    before = len(ctx.failures)
    if case["kind"] == "clean":
        cleaner_case(ctx, case["text"])
    elif case["kind"] == "hasext":
        if "form" in case:
            from pyxform.xls2xform import convert

            ch = [] if case["form"] == "ext:top" else case["form"][4:].split("/")
            md = ext_form_md(ch) if case["form"].startswith("ext:") else FORMS[case["form"]]["md"]
            if not hasext_case(ctx, convert(xlsform=md, file_type=".md")._pyxform, case["form"]) and case["form"].startswith("ext:"):
                ctx.fail(Failure("has-external-choices-misses", case["form"], case))
        else:
            hasext_case(ctx, case["v"], "replay")
    elif case["kind"] == "args":
        args_case(ctx, case["skip"], case["odk"], case["enketo"])
    else:
        with c18_env.Sandbox() as sb:
            if case["form"] not in FORMS and case["form"].startswith("ext:"):
                ch = [] if case["form"] == "ext:top" else case["form"][4:].split("/")
                FORMS[case["form"]] = {"md": ext_form_md(ch), "expect": ("ok", "early", "late"), "ext": True, "few_outcomes": True}
            forms = {case["form"]: abstract_form(sb, case["form"])}
            run_case(ctx, sb, forms, case["form"], case["outcome"], case["mode"], case["pre"])
    return len(ctx.failures) == before and not ctx.mismatches


MATCHERS = {
    "C18-F2-cleaner-name-charset": lambda f: f.kind == "cleaner-path-not-replaced" and odd_segment(f.extra.get("path", "")),
    "C18-F3-output-named-itemsets": lambda f: f.kind == "file-differs-from-library"
    and f.case.get("mode", {}).get("out") == "itemsets.csv" and f.case.get("form") == "itemsets",
}


def main(argv):
    return vcore.run_check(PROP, explore, RULE, matchers=MATCHERS, replay=replay, argv=argv)
