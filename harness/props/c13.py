"""
C13 — documented spellings and layout noise are interchangeable.

Metamorphic check: for a generated form f, a delivery channel (dict / markdown / xlsx) and a random
composition τ of catalogued rewritings (harness/spell_tx.py; the equivalence classes are pinned in
harness/spell.py, independent of /repo), the canonical results of convert(f) and convert(τ f) must be
equal: XForm parsed (attributes as sets; after a column permutation also itext/translation/value and
secondary-instance item child order), warnings as a multiset of messages, rows quoted in messages and
embedded in `generated_note_name_N` mapped back through the exact row shift of the inserted blank rows.
Plus: every pinned alias pair exhaustively on small fixed forms, and the correspondence of the Lean
model (`Pyxv.Spell`: toSnake, processHeader, cleanText, dealiasType, processRow, selectSheets,
numbering) with the Python functions called directly.

Theorems: lean/Pyxv/Proofs/C13.lean.
"""

from __future__ import annotations

import copy

import gen
import spell
import spell_corr
import spell_tx
import vcore
from vcore import Failure

PROP = "C13"
RULE = (
    "generated forms (groups/repeats, selects, 0-2 languages incl. mixed unsuffixed+suffixed columns, media, "
    "bind columns, disabled/comment rows, settings flags) x channel (dict/md/xlsx) x random composition of 1-4 "
    "catalogued rewritings at random sites; exhaustive pinned alias pairs (headers per sheet, select/control/type "
    "spellings, truth values per column); model-vs-code calls on generated headers/cells. distinct = canonical "
    "hash of (form, channel, rewritings); non-trivial = original accepted and at least one rewriting applied"
)


# --------------------------------------------------------------------------- generator

def gen_wb(rng, big=False):
    langs = rng.choice([[], [], ["en"], ["en", "fr"], ["English (en)", "French (fr)"]])
    form = gen.gen_form(
        rng,
        langs=langs,
        plain_text=rng.random() < 0.6,
        n=(1, 25 if big else 9),
        p_hint=0.4,
        p_logic=0.4,
        p_settings=0.5,
        p_select=0.25,
        p_ref_in_label=0.15,
        types=gen.SIMPLE_TYPES + ["location", "photo", "datetime", "deviceid", "imei", "gps"],
    )
    rows = form["survey"]
    # or_other only without translations (F31 class / or_other warning are C17/C20 business)
    for row in rows:
        t = row.get("type", "")
        if t.startswith(("select_one ", "select_multiple ")) and not langs and rng.random() < 0.2:
            row["type"] = t + " or_other"
    qrows = [r for r in rows if r.get("type") and not r["type"].startswith(("begin", "end")) and ("label" in r or any(k.startswith("label::") for k in r))]
    # mixed unsuffixed + suffixed translations; in a third of these the settings name one of the suffix
    # languages as default_language, so that the unsuffixed column and the column suffixed with the
    # default language meet in one row ("the suffixed one wins", whatever the column order)
    if not langs and qrows and rng.random() < 0.4:
        lg = rng.choice(["fr", "French (fr)", "English"])
        lg2 = rng.choice([None, None, "de", "Deutsch (de)"])
        if rng.random() < 0.4:
            st = form.setdefault("settings", [{}])
            if not st:
                st.append({})
            st[0]["default_language"] = rng.choice([lg, lg, lg2 or lg])
        for r in [x for x in rows if x.get("type", "").startswith("begin") and "label" in x]:
            if rng.random() < 0.5:
                r[f"label::{lg}"] = "G " + gen.adv_text(rng, 2, plain=True)
        if lg2:
            for r in qrows:
                if rng.random() < 0.6:
                    r[f"label::{lg2}"] = "D " + gen.adv_text(rng, 3, plain=True)
                if "hint" in r and rng.random() < 0.5:
                    r[f"hint::{lg2}"] = "DH " + gen.adv_text(rng, 2, plain=True)
            for c in form.get("choices", []):
                if rng.random() < 0.6:
                    c[f"label::{lg2}"] = "DC " + gen.adv_text(rng, 2, plain=True)
        if rng.random() < 0.3:
            for r in qrows:
                if rng.random() < 0.5:
                    r["guidance_hint"] = "gh " + gen.adv_text(rng, 2, plain=True)
                    r[f"guidance_hint::{lg}"] = "GH " + gen.adv_text(rng, 2, plain=True)
        for r in qrows:
            if rng.random() < 0.7:
                r[f"label::{lg}"] = "T " + gen.adv_text(rng, 3, plain=True)
            if "hint" in r and rng.random() < 0.5:
                r[f"hint::{lg}"] = "H " + gen.adv_text(rng, 3, plain=True)
        for c in form.get("choices", []):
            if rng.random() < 0.7:
                c[f"label::{lg}"] = "C " + gen.adv_text(rng, 2, plain=True)
    # choices that trigger row-numbered messages of the choices validator: unlabeled choices (warning),
    # duplicate names (error unless allow_choice_duplicates)
    if form.get("choices") and rng.random() < 0.3:
        for c in form["choices"]:
            if rng.random() < 0.3:
                for k in [k for k in c if k.startswith("label")]:
                    del c[k]
        if rng.random() < 0.3 and len(form["choices"]) > 1:
            c = dict(rng.choice(form["choices"]))
            form["choices"].insert(rng.randint(0, len(form["choices"])), c)
            if rng.random() < 0.6:
                st = form.setdefault("settings", [{}])
                if not st:
                    st.append({})
                st[0]["allow_choice_duplicates"] = "yes"
    # media
    if qrows and rng.random() < 0.3:
        col = rng.choice(["image", "media::image", "audio", "media::video", "big-image"])
        if langs and rng.random() < 0.5:
            col = col + "::" + langs[0]
        for r in qrows:
            if rng.random() < 0.5:
                r[col] = rng.choice(["a.png", "b.jpg", "c.mp3"])
    # bind-ish extras
    if qrows and rng.random() < 0.3:
        for r in qrows:
            if rng.random() < 0.3:
                r["required_message"] = gen.adv_text(rng, 3, plain=True)
            if rng.random() < 0.2:
                r["appearance"] = rng.choice(["minimal", "multiline", "w1"])
            if rng.random() < 0.1:
                r["guidance_hint"] = gen.adv_text(rng, 3, plain=True)
    # truth-value spellings in every convertible bind column, on questions, groups and repeats
    if rng.random() < 0.3:
        for r in rows:
            t = r.get("type", "")
            if t.startswith("end") or not t or rng.random() > 0.35:
                continue
            col = rng.choice(["relevant", "read_only", "required", "constraint", "calculation"])
            if col == "calculation" and t.startswith("begin"):
                col = "relevant"
            r[col] = rng.choice(spell.TRUE_SPELLINGS + spell.FALSE_SPELLINGS)
    # quotes in labels / expressions so that smart-quote rewriting has sites
    if qrows and rng.random() < 0.4:
        r = rng.choice(qrows)
        k = next(k for k in r if k.startswith("label"))
        r[k] = r[k] + rng.choice([" 'quoted'", ' "dq"', " it's"])
    # disabled rows, comment rows (warnings that quote row numbers)
    if rng.random() < 0.3:
        out = []
        for row in rows:
            if rng.random() < 0.12 and not row.get("type", "").startswith(("begin", "end")):
                out.append({"type": "text", "name": "dis%d" % len(out), "label": "x", "disabled": rng.choice(spell.TRUE_SPELLINGS[:6] + ["no"])})
            if rng.random() < 0.08:
                out.append({"hint": "just a comment row"})
            out.append(row)
        form["survey"] = rows = out
    # notes without a name: generated_note_name_<row>
    if rng.random() < 0.3:
        k = rng.randint(0, len(rows))
        depth_ok = True
        rows.insert(k, {"type": "note", "label": "unnamed note"})
    # settings flags
    if "settings" in form and rng.random() < 0.5:
        st = form["settings"][0]
        if rng.random() < 0.5:
            st["omit_instanceID"] = rng.choice(["yes", "no", "true", "FALSE"])
        if rng.random() < 0.3:
            st["allow_choice_duplicates"] = rng.choice(["yes", "no", "Yes"])
        if rng.random() < 0.3:
            st["instance_name"] = "concat('a', 'b')"
    elif "settings" not in form and rng.random() < 0.1:
        form["settings"] = []
        form["settings_cols"] = ["form_title", "form_id"]  # header-only sheet (F28 shape)
    # external choices (itemsets.csv is part of the result): a select_one_external with its sheet
    if rng.random() < 0.15:
        rows.append({"type": "text", "name": "ec_state", "label": "State"})
        rows.append({"type": "select_one_external ecl", "name": "ec_q", "label": "City",
                     "choice_filter": "state=${ec_state}"})
        form["external_choices"] = [
            {"list_name": "ecl", "name": f"c{i}", "label": rng.choice(["City 'A'", 'the "B"', "it's C", "D d", "E"]),
             "state": rng.choice(["s1", "s2"])}
            for i in range(rng.randint(1, 4))
        ]
    return spell_tx.init_orig(spell.wb_from_form(form))


ALL_TX = [t for t in spell_tx.TX if t != "blank_run"]


def pick_tx(rng, channel):
    k = rng.choice([1, 1, 2, 2, 3, 4])
    pool = [t for t in ALL_TX if channel != "dict" or t not in spell_tx.NEEDS_FILE or t == "extra_sheet"]
    weights = [1.0 for t in pool]
    return rng.choices(pool, weights=weights, k=k)


# --------------------------------------------------------------------------- one metamorphic case

def channel_ok(wb, channel):
    return channel == "dict" or (channel == "md" and spell.md_ok(wb)) or (channel == "xlsx" and spell.xlsx_ok(wb))


def compare(ctx, wb, wb2, labels, channel, tag="meta"):
    """Run both workbooks; oracle = equality of canonical results with exact row shift."""
    a = spell.run(wb, channel)
    b = spell.run(wb2, channel)
    lax = any(l.split(":")[0] in spell_tx.LAX for l in labels)
    smap, cmap = spell_tx.row_map(wb2, "survey"), spell_tx.row_map(wb2, "choices")
    ca = spell.canon_result(a, lax)
    cb = spell.canon_result(b, lax, smap, cmap)
    ctx.count(f"outcome:{a['class']}")
    for l in labels:
        ctx.count("tx:" + l.split(":")[0])
    ctx.count("channel:" + channel)
    case = {"kind": tag, "channel": channel, "wb": strip(wb), "wb2": strip(wb2, keep_orig=True), "labels": labels}
    if ca != cb:
        detail = spell.first_diff(ca, cb)
        ctx.fail(Failure(
            "not-equivalent",
            f"[{channel}] {' + '.join(labels)}: {detail}",
            case,
            extra={"orig_class": a["class"], "new_class": b["class"], "orig_msg": a.get("msg", ""), "new_msg": b.get("msg", ""),
                   "site": b.get("site", "") or a.get("site", ""), "labels": labels, "channel": channel, "diff": detail},
        ))
    if channel == "dict" and b["ok"] and tag == "meta":
        stage_corr(ctx, wb2, b, case)
    ctx.record({"wb": case["wb"], "labels": labels, "channel": channel}, a["ok"] and bool(labels))
    return ca == cb


def stage_corr(ctx, wb, r, case):
    """Tie of the Lean header stage + structural pipeline (`Spell.headerStage` ∘ `Rows.formOut`) to the code: the
    (noisy) raw survey sheet goes through cleanText / headerStage / dealiasType / formOut in the driver and the primary
    instance it predicts must be the one in the implementation's XForm."""
    import formobs

    sv = spell.sheet(wb, "survey")
    if sv is None:
        return
    st = spell.sheet(wb, "settings")
    if st is not None and (len(st["rows"]) != 1 or any(c.strip().lower().replace(" ", "_") == "clean_text_values" for c in st["cols"])):
        return
    if spell.sheet(wb, "entities") is not None:
        return
    lists = []
    ch = spell.sheet(wb, "choices")
    if ch is not None:
        idx = [i for i, h in enumerate(ch["cols"])
               if (m := ctx.driver.call("spell.header", h=h, sheet="choices", double=any("::" in c for c in ch["cols"]))).get("tokens") == ["list name"]]
        if len(idx) != 1:
            return
        lists = sorted({" ".join((r[idx[0]] or "").split()) if False else (r[idx[0]] or "").strip() for r in ch["rows"]} - {""})
    m = ctx.driver.call(
        "spell.form_raw", headers=sv["cols"], rows=[[v or "" for v in r] for r in sv["rows"]], lists=lists,
        settings_headers=st["cols"] if st else [], settings_values=[v or "" for v in st["rows"][0]] if st else [])
    ctx.count("stage:" + m["outcome"])
    if m["outcome"] == "ok":
        obs = formobs.observe(r["xform"])
        if not formobs.nt_eq(obs["instance"], m["instance"]):
            ctx.mismatch("Spell.headerStage + Rows.formOut vs implementation (primary instance)", case,
                         formobs.nt_str(obs["instance"]), formobs.nt_str(m["instance"]))
    elif m["outcome"] == "error":
        ctx.mismatch("Spell.headerStage + Rows.formOut rejects a sheet the implementation accepts", case, "ok", m["err"])


def strip(wb, keep_orig=False):
    out = {"sheets": []}
    for s in wb["sheets"]:
        d = {"name": s["name"], "cols": list(s["cols"]), "rows": [list(r) for r in s["rows"]]}
        if "raw" in s:
            d["raw"] = copy.deepcopy(s["raw"])
        if keep_orig:
            d["orig"] = list(s.get("orig", []))
        out["sheets"].append(d)
    return out


def meta_case(ctx, rng, big=False):
    wb = gen_wb(rng, big)
    channel = rng.choices(["dict", "md", "xlsx"], weights=[0.55, 0.3, 0.15])[0]
    if not channel_ok(wb, channel):
        channel = "dict"
    names = pick_tx(rng, channel)
    if rng.random() < 0.06 and channel_ok(wb, "xlsx"):
        # long blank runs around the readers' end-of-data limit, through the channels that keep blank rows
        channel = rng.choice(["xlsx", "xlsx", "dict"])
        names = ["blank_run"] + [t for t in names if t in ("hdr_case", "hdr_space", "hdr_alias", "type_alias", "cell_space")][:1]
    wb2, labels = spell_tx.apply(rng, wb, names)
    if not labels:
        ctx.count("no-site")
        return
    if not channel_ok(wb2, channel):
        ctx.count("channel-cannot-carry")
        return
    compare(ctx, wb, wb2, labels, channel)


# --------------------------------------------------------------------------- exhaustive alias pairs

def impl_headers(rows):
    import impl

    return impl.headers_of(rows)


def base_form():
    return {
        "survey": [
            {"type": "begin group", "name": "g", "label": "G"},
            {"type": "text", "name": "t", "label": "T", "hint": "h"},
            {"type": "select_one l", "name": "s", "label": "S"},
            {"type": "end group"},
            {"type": "begin repeat", "name": "r", "label": "R"},
            {"type": "integer", "name": "i", "label": "I"},
            {"type": "end repeat"},
        ],
        "choices": [{"list_name": "l", "name": "a", "label": "A"}, {"list_name": "l", "name": "b", "label": "B"}],
        "settings": [{"form_title": "Title", "form_id": "fid", "version": "1"}],
    }


HEADER_VALUES = {
    "relevant": "${t} = 'x'", "required": "yes", "constraint": ". != 'q'", "constraint_message": "cm",
    "required_message": "rm", "calculation": "1 + 1", "read_only": "yes", "image": "a.png", "big-image": "a.png",
    "audio": "a.mp3", "video": "a.mp4", "appearance": "minimal", "repeat_count": "3", "no_app_error_string": "nae",
    "save_to": None, "autoplay": "audio", "rows": "3", "label": "T", "name": None, "type": None,
}


def exhaustive(ctx):
    """Every pinned alias pair, every truth-value spelling, every type spelling."""
    n = 0
    # headers, per sheet
    for sname, classes in spell.HEADER_CLASSES.items():
        if sname in ("entities", "external_choices"):
            continue
        for cls in classes:
            canon = cls[0]
            for alias in cls[1:]:
                for lang in (None, "fr"):
                    form = base_form()
                    rows = form[sname]
                    val = HEADER_VALUES.get(canon, "v")
                    if sname == "survey" and canon not in ("label", "name", "type"):
                        if val is None:
                            continue
                        target = rows[4] if canon == "repeat_count" else rows[1]
                        target[canon] = val
                    if sname == "choices" and canon not in rows[0]:
                        rows[0][canon] = val
                    translatable = canon in ("label", "image", "big-image", "audio", "video", "constraint_message", "required_message")
                    if lang and not translatable:
                        continue
                    wb = spell_tx.init_orig(spell.wb_from_form(form))
                    s = spell.sheet(wb, sname)
                    if canon not in s["cols"]:
                        continue
                    i = s["cols"].index(canon)
                    wb2 = copy.deepcopy(wb)
                    s2 = spell.sheet(wb2, sname)
                    if lang:
                        s["cols"][i] = f"{canon}::{lang}"
                        s2["cols"][i] = f"{alias}::{lang}"
                    else:
                        s2["cols"][i] = alias
                    compare(ctx, wb, wb2, [f"hdr_alias:{sname}:{canon}->{alias}"], "dict", tag="alias")
                    n += 1
    # select / control / type spellings
    def with_type(idx, t):
        f = base_form()
        f["survey"][idx]["type"] = t
        return spell_tx.init_orig(spell.wb_from_form(f))

    for cls in spell.SELECT_CLASSES:
        for m in cls[1:]:
            for oo in [""] + [" " + o for o in spell.OR_OTHER]:
                compare(ctx, with_type(2, f"{cls[0]} l{oo}"), with_type(2, f"{m} l{oo}"), [f"type_alias:{cls[0]}->{m}{oo}"], "dict", tag="alias")
                n += 1
    for o in spell.OR_OTHER[1:]:
        compare(ctx, with_type(2, "select_one l or_other"), with_type(2, f"select_one l {o}"), [f"type_alias:or_other->{o}"], "dict", tag="alias")
        n += 1
    for sep in (" ", "_"):
        for kw, idx in (("group", 0), ("repeat", 4)):
            for m in next(c for c in spell.CONTROL_CLASSES if kw in c):
                f = base_form()
                f["survey"][idx]["type"] = f"begin{sep}{m}"
                f["survey"][idx + 3 - (1 if kw == "repeat" else 0)]["type"] = f"end{sep}{m}"
                compare(ctx, spell_tx.init_orig(spell.wb_from_form(base_form())), spell_tx.init_orig(spell.wb_from_form(f)),
                        [f"type_alias:begin {kw}->begin{sep}{m}"], "dict", tag="alias")
                n += 1
    for cls in spell.TYPE_CLASSES:
        for m in cls[1:]:
            compare(ctx, with_type(1, cls[0]), with_type(1, m), [f"type_alias:{cls[0]}->{m}"], "dict", tag="alias")
            n += 1
    # truth values
    for pool in (spell.TRUE_SPELLINGS, spell.FALSE_SPELLINGS):
        for col in ("required", "read_only", "bind::required", "readonly"):
            for v in pool[1:]:
                f1, f2 = base_form(), base_form()
                f1["survey"][1][col] = pool[0]
                f2["survey"][1][col] = v
                compare(ctx, spell_tx.init_orig(spell.wb_from_form(f1)), spell_tx.init_orig(spell.wb_from_form(f2)),
                        [f"truth:survey:{col}:{pool[0]}->{v}"], "dict", tag="alias")
                n += 1
        plain = [p for p in pool if "(" not in p]
        for v in plain[1:]:
            f1, f2 = base_form(), base_form()
            f1["survey"][1]["disabled"] = plain[0]
            f2["survey"][1]["disabled"] = v
            compare(ctx, spell_tx.init_orig(spell.wb_from_form(f1)), spell_tx.init_orig(spell.wb_from_form(f2)),
                    [f"truth:survey:disabled:{plain[0]}->{v}"], "dict", tag="alias")
            n += 1
            for col in sorted(spell.TRUTH_SETTINGS):
                f1, f2 = base_form(), base_form()
                f1["settings"][0][col] = plain[0]
                f2["settings"][0][col] = v
                f1["survey"][1]["label"] = f2["survey"][1]["label"] = "a  b ‘q’"
                compare(ctx, spell_tx.init_orig(spell.wb_from_form(f1)), spell_tx.init_orig(spell.wb_from_form(f2)),
                        [f"truth:settings:{col}:{plain[0]}->{v}"], "dict", tag="alias")
                n += 1
    # truth values, every pinned spelling incl. `true()` / `false()`, in the cells read through aliases.yes_no only
    # (settings flags, legacy `disabled` column), on forms where the flag is observable: duplicate choice names
    # (allow_choice_duplicates), double spaces + smart quotes (clean_text_values), the instanceID (omit_instanceID),
    # a row that disappears (disabled).  Seed-independent; a dropped yes_no key gives a concrete workbook pair.
    for pool in (spell.TRUE_SPELLINGS, spell.FALSE_SPELLINGS):
        for v in pool[1:]:
            for col in ("omit_instanceID", "allow_choice_duplicates", "clean_text_values", "add_none_option", "disabled"):
                f1, f2 = base_form(), base_form()
                for f, val in ((f1, pool[0]), (f2, v)):
                    if col == "disabled":
                        f["survey"][1][col] = val
                    else:
                        f["settings"][0][col] = val
                    if col == "allow_choice_duplicates":
                        f["choices"].append({"list_name": "l", "name": "a", "label": "A again"})
                    if col == "clean_text_values":
                        f["survey"][1]["label"] = "a  b ‘q’"
                compare(ctx, spell_tx.init_orig(spell.wb_from_form(f1)), spell_tx.init_orig(spell.wb_from_form(f2)),
                        [f"truth-yes_no:{col}:{pool[0]}->{v}"], "dict", tag="alias")
                n += 1
    # sheet-name case x presence state of each optional sheet (with rows / header only) x file channel
    for sname, cols, row in (("settings", ["form_title", "form_id"], ["T", "fid"]), ("choices", ["list_name", "name", "label"], None),
                             ("entities", ["dataset", "label"], ["people", "concat(${t}, 'x')"]),
                             ("external_choices", ["list_name", "name"], ["ec", "a"])):
        for with_rows in (True, False):
            if row is None and not with_rows:
                continue  # the base form's select needs its choices
            for variant in (sname.capitalize(), sname.upper(), sname.title().replace("_", "_")):
                for channel in ("md", "xlsx"):
                    wb = spell_tx.init_orig(spell.wb_from_form(base_form()))
                    if row is not None:
                        wb["sheets"] = [x for x in wb["sheets"] if x["name"] != sname]
                        wb["sheets"].append({"name": sname, "cols": list(cols), "rows": [list(row)] if with_rows else [], "orig": [2] if with_rows else []})
                    wb2 = copy.deepcopy(wb)
                    spell.sheet(wb2, sname)["name"] = variant
                    if channel_ok(wb, channel) and channel_ok(wb2, channel):
                        compare(ctx, wb, wb2, [f"sheet_case:{sname}->{variant}"], channel, tag="alias")
                        n += 1
    # translated columns: the unsuffixed column, the column suffixed with the default language and another
    # language's column, in every order (survey label/hint/guidance_hint, choices label), with and without
    # default_language naming the suffix
    import itertools

    for sname, col, ridx in (("survey", "label", 1), ("survey", "hint", 1), ("survey", "guidance_hint", 1), ("survey", "label", 0), ("choices", "label", 0)):
        for dlang in ("English", None):
            def build(order):
                f = base_form()
                if dlang:
                    f["settings"][0]["default_language"] = dlang
                for r_i, r in enumerate(f[sname]):
                    r.pop(col, None)
                vals = {col: "Plain", f"{col}::English": "Eng", f"{col}::French": "Fra"}
                for h in order:
                    f[sname][ridx][h] = vals[h]
                    if sname == "choices":
                        f[sname][1][h] = vals[h] + "2"
                if col != "label" and sname == "survey":
                    pass
                f[sname + "_cols"] = [c for c in impl_headers(f[sname]) if c not in vals] + list(order)
                return spell_tx.init_orig(spell.wb_from_form(f))

            orders = list(itertools.permutations([col, f"{col}::English", f"{col}::French"]))
            for o in orders[1:]:
                compare(ctx, build(orders[0]), build(o), [f"col_perm:{sname}:{'|'.join(o)}"], "dict", tag="alias")
                n += 1
    # blank runs of 59 / 60 rows (the Excel readers' limit: 61 ends the data) inside survey and choices, xlsx and dict
    for sname in ("survey", "choices"):
        for k in (spell_tx.BLANK_RUN_LIMIT - 1, spell_tx.BLANK_RUN_LIMIT):
            for pos in (1, 2):
                for channel in ("xlsx", "dict"):
                    f = base_form()
                    f["survey"].insert(1, {"type": "note", "label": "unnamed"})
                    f["choices"].append({"list_name": "l", "name": "c"})
                    wb = spell_tx.init_orig(spell.wb_from_form(f))
                    wb2 = copy.deepcopy(wb)
                    s2 = spell.sheet(wb2, sname)
                    for _ in range(k):
                        s2["rows"].insert(pos, [None] * len(s2["cols"]))
                        s2["orig"].insert(pos, None)
                    compare(ctx, wb, wb2, [f"blank_run:{sname}:{pos}x{k}"], channel, tag="alias")
                    n += 1
    # blank rows in the choices sheet above choices that draw a row-numbered message (unlabeled choice)
    for k in range(0, 4):
        for cnt in (1, 2):
            for channel in ("dict", "xlsx"):
                f = base_form()
                f["choices"] += [{"list_name": "l", "name": "c"}, {"list_name": "l", "name": "d", "label": "D"}, {"list_name": "l", "name": "e"}]
                wb = spell_tx.init_orig(spell.wb_from_form(f))
                wb2 = copy.deepcopy(wb)
                s2 = spell.sheet(wb2, "choices")
                for _ in range(cnt):
                    s2["rows"].insert(k, [None] * len(s2["cols"]))
                    s2["orig"].insert(k, None)
                compare(ctx, wb, wb2, [f"blank_row:choices:{k}x{cnt}"], channel, tag="alias")
                n += 1
    n += directed(ctx)
    ctx.notes["exhaustive_alias_cases"] = n
    ctx.notes["exhaustive_substream"] = "a bounded sub-stream of this run is enumerated completely; the run as a whole samples an unbounded space"


def ext_form():
    f = base_form()
    f["survey"] += [{"type": "select_one_external ecl", "name": "city", "label": "City", "choice_filter": "state=${t}"}]
    f["external_choices"] = [{"list_name": "ecl", "name": "a", "label": "it's \"A\"", "state": "x"},
                             {"list_name": "ecl", "name": "b", "label": "B", "state": "y"}]
    return f


def directed(ctx):
    """Directed families: external choices (itemsets.csv), irrelevant workbook content, and one case per open finding."""
    n = 0
    mk = lambda f: spell_tx.init_orig(spell.wb_from_form(f))  # noqa: E731

    def cmp(f1, f2, labels, channel="dict", w2=None):
        nonlocal n
        compare(ctx, mk(f1), w2 if w2 is not None else mk(f2), labels, channel, tag="alias")
        n += 1

    # --- external choices: smart quotes / column order / header spellings must not reach itemsets.csv
    for channel in ("dict", "xlsx", "md"):
        f2 = ext_form()
        for r in f2["external_choices"]:
            r["label"] = r["label"].replace("'", "’").replace('"', "”")
        cmp(ext_form(), f2, ["smart_quotes:external_choices:label"], channel)
        f2 = ext_form()
        f2["external_choices"] = [dict(reversed(list(r.items()))) for r in f2["external_choices"]]
        cmp(ext_form(), f2, ["col_perm:external_choices"], channel)
    for alias in ("list name", "List_Name", " LIST_NAME "):
        f2 = ext_form()
        f2["external_choices"] = [{(alias if k == "list_name" else k): v for k, v in r.items()} for r in f2["external_choices"]]
        cmp(ext_form(), f2, [f"hdr_alias:external_choices:list_name->{alias}"])          # F54
    # --- irrelevant workbook content: every raw extra sheet, unrelated and underscore-prefixed, through xlsx
    for k, raw in enumerate(spell_tx.RAW_SHEETS):
        for name in ("notes", "_scratch"):
            w2 = mk(base_form())
            extra = {"name": name, "cols": ["a", "b"], "rows": [["1", "x"]], "orig": [2]}
            if raw is not None:
                extra["raw"] = copy.deepcopy(raw)
            w2["sheets"].insert(k % 3, extra)
            cmp(base_form(), None, [f"extra_sheet:{name}:raw{k}"], "xlsx", w2=w2)
    # --- regression (F16, fixed 26e02dc): markdown keeps an interior blank row
    f2 = base_form()
    f1 = base_form()
    f1["survey"].insert(1, {"type": "note", "label": "unnamed"})
    w2 = mk(f1)
    s2 = spell.sheet(w2, "survey")
    s2["rows"].insert(1, [None] * len(s2["cols"]))
    s2["orig"].insert(1, None)
    cmp(f1, None, ["blank_row:survey:1x1"], "md", w2=w2)
    # --- F51: type-table aliases are not canonicalised before the type-keyed branches (parameters); the hyphen rule
    #     of default_is_dynamic (dateTime/datetime, fixed 5a69025) stays as a regression case
    for a, b, col, val in (("geopoint", "gps", "parameters", "capture-accuracy=10"), ("geopoint", "location", "parameters", "capture-accuracy=10"),
                           ("text", "string", "parameters", "rows=5"), ("dateTime", "datetime", "default", "1 - 2")):
        f1, f2 = base_form(), base_form()
        for f, t in ((f1, a), (f2, b)):
            f["survey"][1]["type"] = t
            f["survey"][1][col] = val
        cmp(f1, f2, [f"type_alias:{a}->{b}"])
    # --- truth values: every convertible bind column (all spellings of the column) x every row kind x spellings,
    #     against the XPath literal itself
    kinds = {"question": 1, "group": 0, "repeat": 4}
    for attr, cols in spell.CONVERTIBLE_COLUMNS.items():
        for ci, col in enumerate(cols):
            for kind, idx in kinds.items():
                if attr == "calculate" and kind != "question":
                    continue
                pools = ((spell.TRUE_SPELLINGS, "true()"), (spell.FALSE_SPELLINGS, "false()"))
                for pool, lit in pools:
                    for v in ([x for x in pool if "(" not in x] if ci == 0 else [pool[0], pool[5]]):
                        f1, f2 = base_form(), base_form()
                        f1["survey"][idx][col] = lit
                        f2["survey"][idx][col] = v
                        cmp(f1, f2, [f"truth:survey:{col}:{lit}->{v}@{kind}"])
    # --- F52: the `disabled` column is recognised in lower case only
    f1, f2 = base_form(), base_form()
    f1["survey"][1]["disabled"] = "yes"
    f2["survey"][1]["Disabled"] = "yes"
    cmp(f1, f2, ["hdr_case:survey:disabled"])
    # --- F53: two spellings of one column: accepted or rejected depending on their order
    f1, f2 = base_form(), base_form()
    for f, order in ((f1, ("caption", "label")), (f2, ("label", "caption"))):
        lab = f["survey"][1].pop("label")
        for h in order:
            f["survey"][1][h] = lab
        f["survey_cols"] = ["type", "name", *order, "hint"]
    cmp(f1, f2, ["col_perm:survey:caption|label"])
    return n


# --------------------------------------------------------------------------- explore / replay

# pinned: the spellings `dealias_types` maps to one type (aliases._type_alias_map and its targets)
DEALIAS_CLASSES = [
    ["photo", "image", "add image prompt", "add photo prompt"],
    ["deviceid", "imei"],
    ["audio", "add audio prompt"],
    ["video", "add video prompt"],
    ["file", "add file prompt"],
]


def binds_retype(ctx):
    """`formBinds_retype` on the code: for every pinned dealias class x small sheet shape, the bind model
    (`Binds.formBinds`, driver op `binds.model`, the model tied by C05) answers alike for every spelling of the
    type cell, and — where it answers `ok` — exactly the implementation's <bind> elements (paths, attributes,
    values, in order) for every spelling."""
    import impl
    from pyxform import aliases

    from props.c05 import NotWellFormed, observe_binds

    shapes = [
        ({}, ["type", "name", "label"]),
        ({"bind::relevant": "1 = 1", "required": "yes"}, ["type", "name", "label", "bind::relevant", "required"]),
        ({"Constraint": ". != ''", "bind::jr:constraintMsg": "bad", "read_only": "no"},
         ["Type", "name", "label", "Constraint", "bind::jr:constraintMsg", "read_only"]),
    ]
    for cls in DEALIAS_CLASSES:
        canon = {aliases._type_alias_map.get(t, t) for t in cls}
        if len(canon) != 1:
            # the table changed: the hypothesis of the theorem no longer holds for this class; the
            # metamorphic / exhaustive streams (pinned TYPE_CLASSES) judge the implementation
            ctx.count("binds-retype:class-not-dealiased-alike")
            continue
        for extra, cols in shapes:
            tcol = cols[0]
            outs = []
            for t in cls:
                for typed in (t, "  " + t.replace(" ", "  ") + " "):
                    rows = [{tcol: "text", "name": "q0", "label": "Q0"}, {tcol: typed, "name": "q1", "label": "Q1", **extra},
                            {tcol: "begin group", "name": "g", "label": "G"}, {tcol: typed, "name": "q2", "label": "Q2"},
                            {tcol: "end group"}]
                    form = {"survey": rows, "survey_cols": cols}
                    m = ctx.driver.call("binds.model", headers=cols, rows=[[[k, v] for k, v in r.items()] for r in rows],
                                        lists=[], root="data", dl="default")
                    ctx.count("binds-retype:model:" + m["outcome"])
                    outs.append(m)
                    r = impl.run(form)
                    if m["outcome"] == "ok":
                        if not r["ok"]:
                            ctx.mismatch("binds (retype): model ok, implementation rejects", {"form": form}, r.get("error"), m)
                            continue
                        try:
                            obs = [[o[0], o[1]] for o in observe_binds(r["xform"])]
                        except NotWellFormed:
                            obs = None
                        if obs != m["binds"]:
                            ctx.mismatch("binds (retype): bind elements", {"form": form}, obs, m["binds"])
            if any(o != outs[0] for o in outs):
                ctx.mismatch("formBinds_retype instance: the bind model answers differently for two spellings of one type",
                             {"class": cls, "cols": cols}, None, outs[:2])


def explore(ctx, factor, bs):
    rng = ctx.rng
    spell_corr.run(ctx, ctx.pick(2500, 40000) * factor)
    binds_retype(ctx)
    exhaustive(ctx)
    n = ctx.pick(700, 20000) * factor
    for i in range(n):
        meta_case(ctx, rng, big=(not ctx.quick()) and i % 3 == 0)


def replay(ctx, payload, bs):
    case = payload["case"]
    before = len(ctx.failures), len(ctx.mismatches)
    wb, wb2 = case["wb"], case["wb2"]
    spell_tx.init_orig(wb)
    for s in wb2["sheets"]:
        s.setdefault("orig", [i + 2 for i in range(len(s["rows"]))])
    compare(ctx, wb, wb2, case["labels"], case["channel"], tag=case.get("kind", "meta"))
    return (len(ctx.failures), len(ctx.mismatches)) == before and not ctx.known_seen


TYPE_KEYED = {"geopoint", "gps", "location", "text", "string"}


def _survey_rows(f):
    for sh in f.case.get("wb", {}).get("sheets", []):
        if sh["name"].lower() == "survey":
            return [dict(zip(sh["cols"], r)) for r in sh["rows"]]
    return []


def m_f51(f):
    """type_alias between spellings of geopoint / text on a row that has parameters"""
    labs = [l for l in f.extra.get("labels", []) if l.startswith("type_alias:")]
    if f.kind != "not-equivalent" or not labs:
        return False
    ok = False
    for l in labs:
        a, _, b = l[len("type_alias:"):].partition("->")
        if a in TYPE_KEYED and b in TYPE_KEYED:
            ok = ok or any((r.get("type") or "").strip() == a and bool(r.get("parameters")) for r in _survey_rows(f))
    return ok and f.extra.get("orig_class") == f.extra.get("new_class") == "ok"


def m_f52(f):
    return f.kind == "not-equivalent" and any(l.split(":")[0] in ("hdr_case", "hdr_space") and l.endswith(":disabled") for l in f.extra.get("labels", []))


def m_f53(f):
    x = f.extra
    return (f.kind == "not-equivalent" and any(l.startswith("col_perm") for l in x.get("labels", []))
            and {x.get("orig_class"), x.get("new_class")} == {"ok", "pyxform"}
            and "Headers that are different names for the same column were found" in (x.get("orig_msg", "") + x.get("new_msg", "")))


def m_f54(f):
    x = f.extra
    return (f.kind == "not-equivalent" and x.get("diff", "").startswith("/itemsets")
            and any(l.split(":")[0] in ("hdr_alias", "hdr_case", "hdr_space") and l.split(":")[1].lower() == "external_choices" for l in x.get("labels", [])))


MATCHERS = {"F51-type-alias-not-canonicalised": m_f51, "F52-disabled-header-case": m_f52,
            "F53-duplicate-column-spellings-order": m_f53, "F54-itemsets-header-as-typed": m_f54}


def main(argv):
    return vcore.run_check(PROP, explore, RULE, matchers=MATCHERS, replay=replay, argv=argv)
