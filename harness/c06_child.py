"""C06 child process: convert the forms given on stdin (ASCII-only JSON list) with the implementation,
print the outcomes as ASCII-only JSON.  Run by props/c06.py under different locales / text encodings."""

import json
import locale
import sys

import impl


def main():
    forms = json.loads(sys.stdin.read())
    out = {"preferred_encoding": locale.getpreferredencoding(False), "utf8_mode": sys.flags.utf8_mode, "results": []}
    for form in forms:
        r = impl.run(form)
        out["results"].append({k: r.get(k) for k in ("class", "ok", "xform", "msg", "exc", "site")})
    sys.stdout.write(json.dumps(out))  # ensure_ascii: independent of the stdout encoding


if __name__ == "__main__":
    main()
