"""
Translator (logic, restricted Python) for C19: the entity decision functions of /repo's *current* working
tree are read from their AST and emitted as Lean data (a tiny IR: conditions `EB`, string templates `EP`,
statement lists `EStmt`, node-building calls `ECall`, node templates `ENodeT`) into
`Pyxv/Generated/Tables.lean`.  The hand-written interpreter in `Pyxv/Model/Entities.lean` gives the IR its
Python semantics; the theorems of `Pyxv/Proofs/C19.lean` are stated about that interpreter applied to the
regenerated IR, so the decision table is re-proved against what the code says now.

Translated: `entities_parsing.get_entity_declaration`, `get_validated_dataset_name`,
`validate_entity_saveto`; `EntityDeclaration.xml_instance`, `xml_bindings`, `_get_bind_node`,
`_get_id_bind_node`, `_get_id_setvalue_node`.

The accepted fragment is exactly the statement shapes these functions have today (straight-line `if … :
raise`, `.get` assignments, dict literals / item assignments, `list.append(self._get_…(…))`, f-strings).
Anything else raises `Untranslatable` → the check reports the table as no longer translating (never a silent
skip).  Variables are named by the dictionary key they are read from (`entity_row.get(EC.CREATE_IF)` ↦
`create_if`, `row.get(const.TYPE)` ↦ `type`, `….get("entities:saveto", "")` ↦ `entities:saveto`), function
parameters by their own name.
"""

from __future__ import annotations

import ast
import inspect
import textwrap


class Untranslatable(Exception):
    pass


# What the translator accepts (reported in the evidence of C19).  Anything else in one of the translated functions
# makes the run fall back to the pinned IR (`entityIrFresh = false`, reason in `entityIrFallbackReason`).
FRAGMENT = {
    "functions": [
        "entities_parsing.get_entity_declaration", "entities_parsing.get_validated_dataset_name",
        "entities_parsing.validate_entity_saveto", "EntityDeclaration.xml_instance", "EntityDeclaration.xml_bindings",
        "EntityDeclaration._get_bind_node", "EntityDeclaration._get_id_bind_node", "EntityDeclaration._get_id_setvalue_node",
    ],
    "statements": [
        "x = <expr>.get(K[, default]) / x = <expr>[K] with a constant key K (the latter keeps its KeyError)",
        "x = f'…' / x = survey.insert_xpaths(v, context=self) / x = self.parameters / x = seq[<int>]",
        "if <cond>: raise PyXFormError(<string>)   (an `if isinstance(x, bytes): …` inside the body is skipped)",
        "if <cond>: return",
        "f(...) / x = f(...) for a module-level function f (validation functions; interpreted by name)",
        "d = {K: <string>, …};  if <cond>: d[K] = <string> …   (attribute dicts)",
        "bind_nodes = [];  [if <cond>:] bind_nodes.append(self._get_…(survey[, <string>[, <const>]]));  return bind_nodes",
        "return node(TAG[, node(CHILD)][, attr=self.get_xpath() + <string>], **d);  if <cond>: return node(…) else: return node(…)",
        "return {…: const, 'parameters': {K: var, …}}",
    ],
    "conditions": [
        "name / <expr>.get(K) (truthiness)", "not c", "c and d", "c or d", "True / False",
        "len(x) > n, len(x) >= n", "'lit' in x, 'lit' not in x", "x == 'lit', 'lit' == x, x != 'lit'",
        "x.lower() == 'lit'", "x.startswith('lit')", "x.endswith('lit')", "is_xml_tag(x)",
    ],
    "strings": [
        "'lit', const.X, EC.X[.value]", "f'…{var}…{const}…'", "FMT % x with one %s", "a + b", "self.get_xpath()",
        "survey.insert_xpaths(var, context=self)",
    ],
    "not_accepted_examples": [
        "elif / else branches other than the final return pair of xml_instance", "loops, comprehensions, try/except",
        "str.format, str.join, slicing", "comparisons between two variables", "`is None` tests (differ from truthiness for '')",
        "helper calls with keyword arguments", "conditions on anything but the function's own variables",
    ],
}


def q(s: str) -> str:
    out = ['"']
    for ch in s:
        o = ord(ch)
        if ch == '"':
            out.append('\\"')
        elif ch == "\\":
            out.append("\\\\")
        elif ch == "\n":
            out.append("\\n")
        elif ch == "\t":
            out.append("\\t")
        elif o < 32 or o == 127:
            out.append("\\x%02x" % o)
        else:
            out.append(ch)
    out.append('"')
    return "".join(out)


PRELUDE = '''
/-- (C19 translator) Boolean conditions of the entity functions; variables are Python values tested for
    truthiness, named by the dictionary key / parameter they come from -/
inductive EB where
  | tt
  | v (name : String)
  | not (a : EB)
  | and (a b : EB)
  | or (a b : EB)
  | lenGt (name : String) (n : Nat)            -- `len(name) > n`
  | inStr (lit : String) (name : String)       -- `"lit" in name`
  | eqLower (name : String) (lit : String)     -- `name.lower() == "lit"`
  | startsWith (name : String) (lit : String)  -- `name.startswith("lit")`
  | isXmlTag (name : String)                   -- `is_xml_tag(name)`
  | eqLit (name : String) (lit : String)       -- `name == "lit"`
  | endsWith (name : String) (lit : String)    -- `name.endswith("lit")`
deriving Repr, DecidableEq

/-- (C19 translator) pieces of an f-string: literal text, a variable, or `survey.insert_xpaths(var, context=self)` -/
inductive EP where
  | lit (s : String)
  | var (name : String)
  | sub (name : String)
deriving Repr, DecidableEq

/-- (C19 translator) statements of a validation function -/
inductive EStmt where
  | check (c : EB) (msg : List EP)     -- `if c: raise PyXFormError(msg)`
  | retIf (c : EB)                     -- `if c: return`
  | call (fn : String)                 -- a call of another (separately modelled) function
deriving Repr, DecidableEq

/-- (C19 translator) `bind_nodes.append(self.<fn>(survey, <expr>, <dest>))` -/
structure ECall where
  fn : String
  expr : List EP
  dest : String
deriving Repr, DecidableEq

/-- (C19 translator) `node(tag, <refAttr>=self.get_xpath() + <refSuffix>, **attrs)`; in `attrs` the variable
    `expression` is the helper's expression parameter, `destination` its destination parameter -/
structure ENodeT where
  tag : String
  refAttr : String
  refSuffix : List EP
  attrs : List (EB × String × List EP)
deriving Repr, DecidableEq
'''


class Tr:
    """AST → IR for one function."""

    def __init__(self, fn, params_as=None):
        from pyxform import constants as const

        self.const = const
        self.EC = const.EntityColumns
        src = textwrap.dedent(inspect.getsource(fn))
        self.fdef = ast.parse(src).body[0]
        if not isinstance(self.fdef, ast.FunctionDef):
            raise Untranslatable(f"{fn}: not a function")
        self.name = self.fdef.name
        self.vars: dict[str, str] = {}  # local name -> IR variable name
        self.parts: dict[str, list] = {}  # local name -> f-string parts
        for a in self.fdef.args.args:
            self.vars[a.arg] = (params_as or {}).get(a.arg, a.arg)
        self.body = [
            s for s in self.fdef.body
            if not (isinstance(s, ast.Expr) and isinstance(s.value, ast.Constant) and isinstance(s.value.value, str))
        ]

    def bad(self, node, why=""):
        raise Untranslatable(f"{self.name}: line {getattr(node, 'lineno', '?')}: {why} {ast.unparse(node)[:120]}")

    # ---- constants
    def const_eval(self, n):
        """Value of a constant expression (`"x"`, `const.X`, `EC.X`, `EC.X.value`) or None."""
        if isinstance(n, ast.Constant) and isinstance(n.value, str):
            return n.value
        if isinstance(n, ast.Attribute):
            if n.attr == "value" and isinstance(n.value, ast.Attribute):
                return self.const_eval(n.value)
            if isinstance(n.value, ast.Name) and n.value.id in ("const", "constants"):
                v = getattr(self.const, n.attr, None)
                return str(v) if isinstance(v, str) else None
            if isinstance(n.value, ast.Name) and n.value.id == "EC":
                v = getattr(self.EC, n.attr, None)
                return str(v.value) if v is not None else None
        return None

    # ---- variables
    def get_key(self, n):
        """`<anything>.get(K[, default])` or `<anything>[K]` with constant K → K."""
        if isinstance(n, ast.Call) and isinstance(n.func, ast.Attribute) and n.func.attr == "get" and 1 <= len(n.args) <= 2:
            return self.const_eval(n.args[0])
        if isinstance(n, ast.Subscript):
            return self.const_eval(n.slice)
        return None

    def var_of(self, n):
        if isinstance(n, ast.Name):
            if n.id in self.vars:
                return self.vars[n.id]
            self.bad(n, "unknown variable")
        k = self.get_key(n)
        if k is not None:
            return k
        self.bad(n, "not a variable")

    # ---- conditions
    def cond(self, n) -> str:
        if isinstance(n, ast.BoolOp):
            op = ".and" if isinstance(n.op, ast.And) else ".or"
            parts = [self.cond(v) for v in n.values]
            out = parts[-1]
            for p in reversed(parts[:-1]):
                out = f"({op} {p} {out})"
            return out
        if isinstance(n, ast.UnaryOp) and isinstance(n.op, ast.Not):
            return f"(.not {self.cond(n.operand)})"
        if isinstance(n, ast.Constant) and isinstance(n.value, bool):
            return "EB.tt" if n.value else "(.not EB.tt)"
        if isinstance(n, ast.Compare) and len(n.ops) == 1 and isinstance(n.ops[0], (ast.NotEq, ast.NotIn)):
            pos = ast.Compare(left=n.left, ops=[ast.Eq() if isinstance(n.ops[0], ast.NotEq) else ast.In()],
                              comparators=n.comparators)
            return f"(.not {self.cond(ast.copy_location(pos, n))})"
        if isinstance(n, ast.Compare) and len(n.ops) == 1:
            op, l, r = n.ops[0], n.left, n.comparators[0]
            if (isinstance(op, ast.GtE) and isinstance(l, ast.Call) and isinstance(l.func, ast.Name) and l.func.id == "len"
                    and isinstance(r, ast.Constant) and isinstance(r.value, int) and r.value >= 1):
                return f"(.lenGt {q(self.var_of(l.args[0]))} {r.value - 1})"
            if isinstance(op, ast.Eq) and isinstance(l, (ast.Name, ast.Subscript)) and self.const_eval(r) is not None:
                return f"(.eqLit {q(self.var_of(l))} {q(self.const_eval(r))})"
            if isinstance(op, ast.Eq) and isinstance(r, (ast.Name, ast.Subscript)) and self.const_eval(l) is not None:
                return f"(.eqLit {q(self.var_of(r))} {q(self.const_eval(l))})"
            if (isinstance(op, ast.Gt) and isinstance(l, ast.Call) and isinstance(l.func, ast.Name) and l.func.id == "len"
                    and isinstance(r, ast.Constant) and isinstance(r.value, int)):
                return f"(.lenGt {q(self.var_of(l.args[0]))} {r.value})"
            if isinstance(op, ast.In) and self.const_eval(l) is not None:
                return f"(.inStr {q(self.const_eval(l))} {q(self.var_of(r))})"
            if (isinstance(op, ast.Eq) and isinstance(l, ast.Call) and isinstance(l.func, ast.Attribute)
                    and l.func.attr == "lower" and not l.args and self.const_eval(r) is not None):
                return f"(.eqLower {q(self.var_of(l.func.value))} {q(self.const_eval(r))})"
            self.bad(n, "comparison")
        if isinstance(n, ast.Call):
            if isinstance(n.func, ast.Attribute) and n.func.attr == "startswith" and len(n.args) == 1 and self.const_eval(n.args[0]) is not None:
                return f"(.startsWith {q(self.var_of(n.func.value))} {q(self.const_eval(n.args[0]))})"
            if isinstance(n.func, ast.Attribute) and n.func.attr == "endswith" and len(n.args) == 1 and self.const_eval(n.args[0]) is not None:
                return f"(.endsWith {q(self.var_of(n.func.value))} {q(self.const_eval(n.args[0]))})"
            if isinstance(n.func, ast.Name) and n.func.id == "is_xml_tag" and len(n.args) == 1:
                return f"(.isXmlTag {q(self.var_of(n.args[0]))})"
            if self.get_key(n) is not None:
                return f"(.v {q(self.get_key(n))})"
            self.bad(n, "call in condition")
        if isinstance(n, ast.Name):
            return f"(.v {q(self.var_of(n))})"
        self.bad(n, "condition")

    # ---- strings
    def str_parts(self, n) -> list:
        """list of ('lit', s) | ('var', name) | ('sub', name)"""
        c = self.const_eval(n)
        if c is not None:
            return [("lit", c)]
        if isinstance(n, ast.Name):
            if n.id in self.parts:
                return list(self.parts[n.id])
            return [("var", self.var_of(n))]
        if isinstance(n, ast.JoinedStr):
            out = []
            for v in n.values:
                if isinstance(v, ast.Constant):
                    out.append(("lit", v.value))
                elif isinstance(v, ast.FormattedValue) and v.conversion == -1 and v.format_spec is None:
                    out += self.str_parts(v.value)
                else:
                    self.bad(v, "f-string piece")
            return out
        if isinstance(n, ast.BinOp) and isinstance(n.op, ast.Mod):
            fmt = self.const_eval(n.left)
            if fmt is not None and fmt.count("%s") == 1 and fmt.count("%") == 1:
                a, b = fmt.split("%s")
                return [("lit", a)] + self.str_parts(n.right) + [("lit", b)]
            self.bad(n, "% format")
        if isinstance(n, ast.BinOp) and isinstance(n.op, ast.Add):
            return self.str_parts(n.left) + self.str_parts(n.right)
        if (isinstance(n, ast.Call) and isinstance(n.func, ast.Attribute) and n.func.attr == "insert_xpaths"
                and len(n.args) == 1 and [k.arg for k in n.keywords] == ["context"]):
            inner = self.str_parts(n.args[0])
            if len(inner) == 1 and inner[0][0] == "var":
                return [("sub", inner[0][1])]
            self.bad(n, "insert_xpaths of a non-variable")
        if (isinstance(n, ast.Call) and isinstance(n.func, ast.Attribute) and n.func.attr == "get_xpath"
                and isinstance(n.func.value, ast.Name) and n.func.value.id == "self" and not n.args):
            return [("var", "self.xpath")]
        k = self.get_key(n)
        if k is not None:
            return [("var", k)]
        self.bad(n, "string expression")

    @staticmethod
    def ep(parts) -> str:
        merged = []
        for k, s in parts:
            if k == "lit" and merged and merged[-1][0] == "lit":
                merged[-1] = ("lit", merged[-1][1] + s)
            else:
                merged.append((k, s))
        return "[" + ", ".join(f".{k} {q(s)}" for k, s in merged if not (k == "lit" and s == "")) + "]"

    # ---- statement helpers
    def try_bind(self, s) -> bool:
        """`x = <…>.get(K, d)` / `x = <…>[K]` / `x = f"…"` / `x = self.parameters`"""
        if not (isinstance(s, ast.Assign) and len(s.targets) == 1 and isinstance(s.targets[0], ast.Name)):
            return False
        t = s.targets[0].id
        k = self.get_key(s.value)
        if k is not None:
            self.vars[t] = k
            return True
        if isinstance(s.value, ast.JoinedStr):
            self.parts[t] = self.str_parts(s.value)
            return True
        if isinstance(s.value, ast.Attribute) and ast.unparse(s.value) == "self.parameters":
            return True
        if (isinstance(s.value, ast.Call) and isinstance(s.value.func, ast.Attribute) and s.value.func.attr == "insert_xpaths"):
            self.parts[t] = self.str_parts(s.value)
            return True
        return False

    def raise_msg(self, body):
        """body of an `if`: optional `if isinstance(x, bytes): x = x.decode(…)`, then `raise PyXFormError(msg)`"""
        stmts = [
            s for s in body
            if not (isinstance(s, ast.If) and isinstance(s.test, ast.Call) and isinstance(s.test.func, ast.Name)
                    and s.test.func.id == "isinstance" and ast.unparse(s.test.args[1]) == "bytes")
        ]
        if len(stmts) == 1 and isinstance(stmts[0], ast.Raise):
            e = stmts[0].exc
            if isinstance(e, ast.Call) and isinstance(e.func, ast.Name) and e.func.id == "PyXFormError" and len(e.args) == 1:
                return self.str_parts(e.args[0])
        return None

    # ---- function kinds
    def validation(self, ret_ok=("Return",)) -> list[str]:
        """straight-line validation function → [EStmt]"""
        out = []
        for s in self.body:
            if (isinstance(s, ast.Assign) and isinstance(s.value, ast.Subscript)
                    and self.const_eval(s.value.slice) is not None):
                # `x = d[K]` raises KeyError when K is absent (`d.get(K)` does not): keep the partiality
                out.append(f".call {q('getitem:' + self.const_eval(s.value.slice))}")
            if self.try_bind(s):
                continue
            if isinstance(s, ast.If) and not s.orelse:
                m = self.raise_msg(s.body)
                if m is not None:
                    out.append(f".check {self.cond(s.test)} {self.ep(m)}")
                    continue
                if len(s.body) == 1 and isinstance(s.body[0], ast.Return) and s.body[0].value is None:
                    out.append(f".retIf {self.cond(s.test)}")
                    continue
                self.bad(s, "if-statement")
            call = None
            if isinstance(s, ast.Expr) and isinstance(s.value, ast.Call):
                call = s.value
            elif isinstance(s, ast.Assign) and isinstance(s.value, ast.Call):
                call = s.value
            if call is not None and isinstance(call.func, ast.Name):
                out.append(f".call {q(call.func.id)}")
                continue
            if isinstance(s, ast.Assign) and isinstance(s.value, ast.Subscript) and isinstance(s.value.slice, ast.Constant):
                # entity_row = entities_sheet[0]
                continue
            if isinstance(s, ast.Return):
                self.ret = s.value
                continue
            self.bad(s, "statement")
        return out

    def dict_items(self, d: ast.Dict, guard="EB.tt") -> list[str]:
        out = []
        for k, v in zip(d.keys, d.values):
            kk = self.const_eval(k)
            if kk is None:
                self.bad(d, "dict key")
            out.append(f"({guard}, {q(kk)}, {self.ep(self.str_parts(v))})")
        return out

    def attr_steps(self, dict_name: str, stmts) -> tuple[list[str], list]:
        """`d = {…}`, `if c: d[k] = v …` → [(guard, key, value)] ; returns the unconsumed statements"""
        out, rest = [], []
        for s in stmts:
            if (isinstance(s, ast.Assign) and isinstance(s.targets[0], ast.Name) and s.targets[0].id == dict_name
                    and isinstance(s.value, ast.Dict)):
                out += self.dict_items(s.value)
            elif self.try_bind(s):
                continue
            elif isinstance(s, ast.If) and not s.orelse and all(
                isinstance(b, ast.Assign) and isinstance(b.targets[0], ast.Subscript)
                and isinstance(b.targets[0].value, ast.Name) and b.targets[0].value.id == dict_name for b in s.body
            ):
                g = self.cond(s.test)
                for b in s.body:
                    kk = self.const_eval(b.targets[0].slice)
                    if kk is None:
                        self.bad(b, "attribute key")
                    out.append(f"({g}, {q(kk)}, {self.ep(self.str_parts(b.value))})")
            else:
                rest.append(s)
        return out, rest

    def node_call(self, call: ast.Call, dict_name: str):
        """`node(TAG, [node(CHILD)], [refAttr=self.get_xpath() + X], **dict_name)`"""
        if not (isinstance(call, ast.Call) and isinstance(call.func, ast.Name) and call.func.id == "node"):
            self.bad(call, "node(...) expected")
        tag = self.const_eval(call.args[0])
        kids = []
        for a in call.args[1:]:
            if isinstance(a, ast.Call) and isinstance(a.func, ast.Name) and a.func.id == "node" and len(a.args) == 1 and not a.keywords:
                kids.append(self.const_eval(a.args[0]))
            else:
                self.bad(a, "child")
        ref = None
        star = False
        for k in call.keywords:
            if k.arg is None:
                if not (isinstance(k.value, ast.Name) and k.value.id == dict_name):
                    self.bad(call, "**kwargs")
                star = True
            elif ref is None and not star:
                parts = self.str_parts(k.value)
                if parts[:1] != [("var", "self.xpath")]:
                    self.bad(call, "ref attribute")
                ref = (k.arg, parts[1:])
            else:
                self.bad(call, "keyword")
        if tag is None or not star:
            self.bad(call, "node shape")
        return tag, kids, ref


def lean_list(items, indent="    ") -> str:
    items = list(items)
    if not items:
        return "[]"
    return "[\n" + indent + (",\n" + indent).join(items) + "]"


PINNED = __import__("pathlib").Path(__file__).with_name("entities_ir_pinned.lean.txt")


def parts() -> list[str]:
    """The IR of the current source; when the source has left the translatable fragment, the IR of the pinned
    source (committed next to this file) with `entityIrFresh := false`: the theorems then speak about the
    pinned logic only, and the tie to the current code is the correspondence run alone (reported in the
    evidence).  A refactoring that keeps the behaviour therefore raises no alarm; one that changes it is
    caught by correspondence / oracle."""
    try:
        out = fresh_parts()
        return out + ["/-- the IR above was translated from the current source -/\ndef entityIrFresh : Bool := true",
                      "def entityIrFallbackReason : String := \"\""]
    except Untranslatable as e:
        import sys

        print(f"translate_entities: {e}; falling back to the pinned IR", file=sys.stderr)
        why = str(e).replace("-/", "- /")
        return [PINNED.read_text().strip(),
                f"/-- the current source is outside the translator's fragment ({why}); the IR above is the pinned one -/\n"
                "def entityIrFresh : Bool := false",
                f"def entityIrFallbackReason : String := {q(str(e))}"]


def fresh_parts() -> list[str]:
    from pyxform.entities import entities_parsing as P
    from pyxform.entities.entity_declaration import EntityDeclaration as D

    out = [PRELUDE.strip()]

    # --- validation functions
    t = Tr(P.get_entity_declaration)
    t.ret = None
    body = t.validation()
    out.append("/-- entities_parsing.get_entity_declaration (statements in order) -/\n"
               "def entityDeclBody : List EStmt := " + lean_list(body))
    if not isinstance(t.ret, ast.Dict):
        raise Untranslatable("get_entity_declaration: return value is not a dict literal")
    params = None
    top = []
    for k, v in zip(t.ret.keys, t.ret.values):
        kk = t.const_eval(k)
        if isinstance(v, ast.Dict):
            if kk != "parameters":
                raise Untranslatable("get_entity_declaration: nested dict other than parameters")
            params = []
            for k2, v2 in zip(v.keys, v.values):
                if isinstance(v2, ast.Name) and v2.id == "dataset_name":
                    params.append(f"({q(t.const_eval(k2))}, {q('dataset')})")
                else:
                    params.append(f"({q(t.const_eval(k2))}, {q(t.var_of(v2))})")
        else:
            top.append(f"({q(kk)}, {q(t.const_eval(v))})")
    if params is None:
        raise Untranslatable("get_entity_declaration: no parameters dict")
    out.append("/-- get_entity_declaration: returned dict, string-valued keys -/\n"
               "def entityDeclTop : List (String × String) := " + lean_list(top))
    out.append("/-- get_entity_declaration: returned `parameters` (key ↦ entities column it carries) -/\n"
               "def entityDeclParams : List (String × String) := " + lean_list(params))

    t = Tr(P.get_validated_dataset_name)
    t.ret = None
    out.append("/-- entities_parsing.get_validated_dataset_name -/\n"
               "def datasetNameBody : List EStmt := " + lean_list(t.validation()))

    t = Tr(P.validate_entity_saveto)
    t.ret = None
    out.append("/-- entities_parsing.validate_entity_saveto -/\n"
               "def savetoBody : List EStmt := " + lean_list(t.validation()))

    # --- xml_instance
    t = Tr(D.xml_instance)
    attrs, rest = t.attr_steps("attributes", t.body)
    if not (len(rest) == 1 and isinstance(rest[0], ast.If) and len(rest[0].body) == 1 and len(rest[0].orelse) == 1
            and isinstance(rest[0].body[0], ast.Return) and isinstance(rest[0].orelse[0], ast.Return)):
        raise Untranslatable("xml_instance: tail is not `if c: return node(…) else: return node(…)`")
    g = t.cond(rest[0].test)
    tag1, kids1, ref1 = t.node_call(rest[0].body[0].value, "attributes")
    tag2, kids2, ref2 = t.node_call(rest[0].orelse[0].value, "attributes")
    if tag1 != tag2 or kids2 or ref1 or ref2:
        raise Untranslatable("xml_instance: the two returns differ in more than the children")
    out.append(f"/-- EntityDeclaration.xml_instance: element name -/\ndef entityInstanceTag : String := {q(tag1)}")
    out.append("/-- EntityDeclaration.xml_instance: attributes in insertion order (guard, name, value) -/\n"
               "def entityInstanceAttrs : List (EB × String × List EP) := " + lean_list(attrs))
    out.append("/-- EntityDeclaration.xml_instance: child elements (guard, name) -/\n"
               "def entityInstanceKids : List (EB × String) := " + lean_list(f"({g}, {q(k)})" for k in kids1))

    # --- xml_bindings
    t = Tr(D.xml_bindings)
    steps = []

    def append_call(s, guard):
        if not (isinstance(s, ast.Expr) and isinstance(s.value, ast.Call) and isinstance(s.value.func, ast.Attribute)
                and s.value.func.attr == "append" and ast.unparse(s.value.func.value) == "bind_nodes"
                and len(s.value.args) == 1):
            return False
        c = s.value.args[0]
        if not (isinstance(c, ast.Call) and isinstance(c.func, ast.Attribute) and ast.unparse(c.func.value) == "self"):
            t.bad(s, "append of something else than self._get_…()")
        args = [a for a in c.args if not (isinstance(a, ast.Name) and a.id == "survey")]
        if c.keywords or len(args) > 2:
            t.bad(s, "helper arguments")
        expr = t.ep(t.str_parts(args[0])) if len(args) >= 1 else "[]"
        dest = t.const_eval(args[1]) if len(args) == 2 else ""
        if dest is None:
            t.bad(s, "destination")
        steps.append(f"({guard}, {{ fn := {q(c.func.attr)}, expr := {expr}, dest := {q(dest)} }})")
        return True

    for s in t.body:
        if t.try_bind(s):
            continue
        if isinstance(s, ast.Assign) and ast.unparse(s) == "bind_nodes = []":
            continue
        if append_call(s, "EB.tt"):
            continue
        if isinstance(s, ast.If) and not s.orelse:
            g = t.cond(s.test)
            for b in s.body:
                if t.try_bind(b):
                    continue
                if not append_call(b, g):
                    t.bad(b, "statement in if")
            continue
        if isinstance(s, ast.Return) and ast.unparse(s.value) == "bind_nodes":
            continue
        t.bad(s, "statement")
    out.append("/-- EntityDeclaration.xml_bindings: appended nodes in order (guard, helper call) -/\n"
               "def entityBindSteps : List (EB × ECall) := " + lean_list(steps))

    # --- node helpers
    temps = []
    for fn in (D._get_bind_node, D._get_id_bind_node, D._get_id_setvalue_node):
        src_args = [a.arg for a in ast.parse(textwrap.dedent(inspect.getsource(fn))).body[0].args.args]
        rest_args = [a for a in src_args if a not in ("self", "survey")]
        ren = {}
        if len(rest_args) >= 1:
            ren[rest_args[0]] = "expression"
        if len(rest_args) >= 2:
            ren[rest_args[1]] = "destination"
        t = Tr(fn, params_as=ren)
        # the attribute dict is the one passed as ** to node()
        ret = [s for s in t.body if isinstance(s, ast.Return)]
        if len(ret) != 1 or t.body[-1] is not ret[0]:
            raise Untranslatable(f"{t.name}: single trailing return expected")
        stars = [k.value.id for k in ret[0].value.keywords if k.arg is None and isinstance(k.value, ast.Name)]
        if len(stars) != 1:
            raise Untranslatable(f"{t.name}: node(**dict) expected")
        attrs, rest = t.attr_steps(stars[0], t.body[:-1])
        if rest:
            t.bad(rest[0], "statement")
        tag, kids, ref = t.node_call(ret[0].value, stars[0])
        if kids or ref is None:
            raise Untranslatable(f"{t.name}: node shape")
        temps.append(
            f"({q(t.name)}, {{ tag := {q(tag)}, refAttr := {q(ref[0])}, refSuffix := {t.ep(ref[1])}, "
            f"attrs := [" + ", ".join(attrs) + "] })"
        )
    out.append("/-- EntityDeclaration._get_bind_node / _get_id_bind_node / _get_id_setvalue_node -/\n"
               "def entityNodeTemplates : List (String × ENodeT) := " + lean_list(temps))

    # --- constants used by the surrounding code (xls2json.py / survey.py)
    from pyxform import aliases, constants, survey as survey_mod, xls2json

    sv = aliases.survey_header.get(constants.ENTITIES_SAVETO)
    out.append("/-- aliases.survey_header[constants.ENTITIES_SAVETO] -/\n"
               f"def savetoHeader : String × List String := ({q(constants.ENTITIES_SAVETO)}, [" + ", ".join(q(x) for x in sv) + "])")
    # entities namespace declaration string in Survey.get_nsmap and the model attribute name in xml_model
    ns_lit, ver_attr = None, None
    for node in ast.walk(ast.parse(textwrap.dedent(inspect.getsource(survey_mod.Survey.get_nsmap)))):
        if isinstance(node, ast.Constant) and isinstance(node.value, str) and "entities=" in node.value:
            ns_lit = node.value
    for node in ast.walk(ast.parse(textwrap.dedent(inspect.getsource(survey_mod.Survey.xml_model)))):
        if isinstance(node, ast.Constant) and isinstance(node.value, str) and "entities-version" in node.value:
            ver_attr = node.value
    if ns_lit is None or ver_attr is None:
        raise Untranslatable("survey.py: entities namespace literal / entities-version attribute not found")
    out.append(f"/-- Survey.get_nsmap: the `prefix=uri` text appended to the namespaces when entity_features is set -/\n"
               f"def entitiesNsDecl : String := {q(ns_lit)}")
    out.append(f"/-- Survey.xml_model: model attribute carrying ENTITIES_OFFLINE_VERSION -/\n"
               f"def entitiesVersionAttr : String := {q(ver_attr)}")
    # entity_features literal list in workbook_to_json
    feats = None
    for node in ast.walk(ast.parse(inspect.getsource(xls2json.workbook_to_json))):
        if (isinstance(node, ast.Assign) and isinstance(node.targets[0], ast.Subscript)
                and "ENTITY_FEATURES" in ast.unparse(node.targets[0].slice) and isinstance(node.value, ast.List)):
            feats = [e.value for e in node.value.elts]
    if feats is None:
        raise Untranslatable("xls2json.py: json_dict[ENTITY_FEATURES] = [...] not found")
    out.append("/-- workbook_to_json: json_dict[ENTITY_FEATURES] -/\ndef entityFeatures : List String := ["
               + ", ".join(q(x) for x in feats) + "]")
    from pyxform.entities import entity_declaration as ed_mod

    out.append("/-- entity_declaration.ENTITY_FIELDS (= EntityDeclaration.get_slot_names()) -/\ndef entityFields : List String := ["
               + ", ".join(q(x) for x in ed_mod.ENTITY_FIELDS) + "]")
    out.append(f"/-- constants.ENTITIES_RESERVED_PREFIX -/\ndef entitiesReservedPrefix : String := {q(constants.ENTITIES_RESERVED_PREFIX)}")
    return out


if __name__ == "__main__":
    import os
    import sys
    from pathlib import Path

    sys.path.insert(0, str(Path(os.environ.get("PYXFORM_REPO", "/repo"))))
    if "--pin" in sys.argv:
        PINNED.write_text("\n\n".join(fresh_parts()) + "\n")
    else:
        print("\n\n".join(parts()))
