"""
C14: running the implementation.  Importable (in-process runs) and executable (fresh-process worker):

    PYTHONHASHSEED=<s> TMPDIR=<private> python c14_impl.py <job.json>      -> one JSON document on stdout

job = {"forms": [form, ...], "order": [indices in conversion order]}
reply = {"results": [obs per form index], "hashseed": ..., "tmp_left": [files left in TMPDIR]}
obs = what the property observes: ["ok", xform, warnings, itemsets] | ["pyxform", message] | ["internal", exc type, site]
"""

from __future__ import annotations

import copy
import json
import os
import sys
import tempfile


def to_dict(form: dict) -> dict:
    import impl

    d = impl.wb_dict(form)
    if form.get("_no_external_header"):
        d.pop("external_choices_header", None)
    return d


def convert_dict(d: dict):
    """Convert a workbook dict (used as is: the caller decides about copying)."""
    import impl  # noqa: F401  (puts the repo on sys.path)
    from pyxform.errors import PyXFormError
    from pyxform.xls2xform import convert

    try:
        res = convert(xlsform=d, pretty_print=False)
    except PyXFormError as e:
        return ["pyxform", str(e)], None
    except RecursionError:
        return ["internal", "RecursionError", ""], None
    except Exception as e:  # noqa: BLE001
        import traceback
        from pathlib import Path

        site = ""
        for fr in reversed(traceback.extract_tb(e.__traceback__)):
            if "/pyxform/" in fr.filename:
                site = f"{Path(fr.filename).name}:{fr.name}"
                break
        return ["internal", type(e).__name__, site], None
    return ["ok", res.xform, list(res.warnings), res.itemsets], res


def observe(form: dict):
    return convert_dict(copy.deepcopy(to_dict(form)))[0]


def main(path: str):
    job = json.loads(open(path, encoding="utf-8").read())
    forms = job["forms"]
    results = [None] * len(forms)
    for i in job["order"]:
        results[i] = observe(forms[i])
    tmp = tempfile.gettempdir()
    left = sorted(os.listdir(tmp)) if job.get("check_tmp") else []
    json.dump({"results": results, "hashseed": os.environ.get("PYTHONHASHSEED"), "tmp": tmp, "tmp_left": left}, sys.stdout)


if __name__ == "__main__":
    main(sys.argv[1])
