"""
C14: running the implementation.  Importable (in-process runs) and executable (fresh-process worker):

    PYTHONHASHSEED=<s> TMPDIR=<private> python c14_impl.py <job.json>      -> one JSON document on stdout

job = {"forms": [form, ...], "order": [indices in conversion order]}
reply = {"results": [obs per form index], "hashseed": ..., "tmp_left": [files left in TMPDIR]}
obs = what the property observes: ["ok", xform, warnings, itemsets] | ["pyxform", message] | ["internal", exc type, site]
"""

from __future__ import annotations

import copy
import json
import os
import sys
import tempfile


def to_dict(form: dict) -> dict:
    import impl

    d = impl.wb_dict(form)
    if form.get("_no_external_header"):
        d.pop("external_choices_header", None)
    return d


def convert_dict(d: dict):
    """Convert a workbook dict (used as is: the caller decides about copying)."""
    import impl  # noqa: F401  (puts the repo on sys.path)
    from pyxform.errors import PyXFormError
    from pyxform.xls2xform import convert

    try:
        res = convert(xlsform=d, pretty_print=False)
    except PyXFormError as e:
        return ["pyxform", str(e)], None
    except RecursionError:
        return ["internal", "RecursionError", ""], None
    except Exception as e:  # noqa: BLE001
        import traceback
        from pathlib import Path

        site = ""
        for fr in reversed(traceback.extract_tb(e.__traceback__)):
            if "/pyxform/" in fr.filename:
                site = f"{Path(fr.filename).name}:{fr.name}"
                break
        return ["internal", type(e).__name__, site], None
    return ["ok", res.xform, list(res.warnings), res.itemsets], res


def observe(form: dict):
    return convert_dict(copy.deepcopy(to_dict(form)))[0]


def main(path: str):
    job = json.loads(open(path, encoding="utf-8").read())
    forms = job["forms"]
    results = [None] * len(forms)
    if job.get("threads"):
        # first use of everything in this interpreter happens concurrently: T threads behind a barrier,
        # thread t converts the forms in the order rotated by t
        import threading

        t_n = job["threads"]
        sys.setswitchinterval(job.get("switch", 1e-6))
        import impl  # noqa: F401  (imports only; nothing is converted before the barrier)
        import pyxform.xls2xform  # noqa: F401

        results = [[None] * len(forms) for _ in range(t_n)]
        barrier = threading.Barrier(t_n)
        # First-call rendezvous: while the threads convert their common leading form, a thread entering a
        # pyxform function that no thread has entered before waits (<= 20 ms) until all threads have arrived
        # there, so that every lazily initialised piece of module state is first used by all threads at once.
        state = {"lead_done": job.get("lead") is None or not job.get("rendezvous", True)}
        seen = {}
        mon = sys.monitoring
        tool = mon.PROFILER_ID

        def on_start(code, offset):
            if state["lead_done"] or "/pyxform/" not in code.co_filename:
                return mon.DISABLE
            st = seen.get(code)
            if st is None:
                st = seen.setdefault(code, [0, threading.Event()])
            st[0] += 1
            if st[0] >= t_n:
                st[1].set()
                return mon.DISABLE
            st[1].wait(timeout=0.02)
            return None

        if not state["lead_done"]:
            mon.use_tool_id(tool, "pyxv-c14-first-use")
            mon.register_callback(tool, mon.events.PY_START, on_start)
            mon.set_events(tool, mon.events.PY_START)

        def work(t):
            order = job["order"][t % len(job["order"]):] + job["order"][: t % len(job["order"])]
            if job.get("lead") is not None:
                # every thread starts with the same form: whatever it initialises lazily is first used by all at once
                order = [job["lead"]] + [i for i in order if i != job["lead"]][: job.get("tail", 3)]
            barrier.wait()
            for n, i in enumerate(order):
                results[t][i] = observe(forms[i])
                if n == 0:
                    state["lead_done"] = True

        ths = [threading.Thread(target=work, args=(t,)) for t in range(t_n)]
        for th in ths:
            th.start()
        for th in ths:
            th.join()
        if job.get("lead") is not None and job.get("rendezvous", True):
            mon.set_events(tool, 0)
            mon.register_callback(tool, mon.events.PY_START, None)
            mon.free_tool_id(tool)
    else:
        for i in job["order"]:
            results[i] = observe(forms[i])
    tmp = tempfile.gettempdir()
    left = sorted(os.listdir(tmp)) if job.get("check_tmp") else []
    json.dump({"results": results, "hashseed": os.environ.get("PYTHONHASHSEED"), "tmp": tmp, "tmp_left": left}, sys.stdout)


if __name__ == "__main__":
    main(sys.argv[1])
