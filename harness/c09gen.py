"""
Generator for C09: choice lists (sizes 1-8, interleaved rows, shared / unused lists, sparse extra
columns, duplicates with the setting, translated / media / dynamic labels), every select variant
(select_one / select_multiple / rank, from file csv|xml|geojson, select_one_external + external_choices,
select from a repeat `${q}`, or_other spellings, randomize / seed, value / label parameters, search()
appearance, choice_filter) from any nesting of groups and repeats, xml-/csv-external rows, pulldata()
calls in every logic cell, `${last-saved#x}`.

Every random choice derives from the `random.Random` passed in.  Survey cells are generated so that
`clean_text_values(strip_whitespace=True)` is the identity on them (whitespace normalisation of the survey
sheet belongs to C13).  Cells of the choices and external_choices sheets are data: a stream of them carries
runs of spaces, tabs, newlines, leading / trailing blanks (all of which must arrive unchanged in the
instances and in itemsets.csv) and, rarely, smart quotes (replaced by the converter: finding F41).

Avoided on purpose (crash classes owned by C17 / findings owned by other properties): unfiltered
`select_one_external`, `select_multiple ${q}`, xml-external inside a repeat, select-from-repeat with
search(), or_other on a translated list with an unlabeled choice, unlabeled choice in a translated
list (F6, C07), search() on a select without `choices` (randomize without filter), invalid XML names
for extra columns (F1, C01), `${ref}` to a target that shares a repeat with the referrer (C03).
"""

from __future__ import annotations

import random

LIST_NAMES = ["colors", "sizes", "yn", "l1", "l_2", "Yn", "my.list", "list-3", "opts", "cities", "f", "pd"]
CHOICE_NAMES = ["a", "b", "c", "red", "blue", "x1", "n-1", "opt.2", "A", "yes", "no", "1", "2", "other_", "other"]
EXTRA_COLS = ["extra", "x", "geometry", "a", "my_col", "Code2", "zz", "b-c", "my col"]
Q_NAMES = ["q", "age", "c", "s", "sel", "pick", "w", "v", "t", "u", "k", "m", "n", "z", "y", "color", "town"]
G_NAMES = ["g", "grp", "h", "sec"]
R_NAMES = ["r", "rep", "kids", "r2"]
FILES = ["f.csv", "data.xml", "g.geojson", "cities.csv", "pd.csv", "xe.xml", "a.b.csv", "F.CSV"]
TEXT_ATOMS = ["a", "b", "Z", "é", "中", "<", ">", "&", '"', "'", ",", ";", "x y", "1", "{", "}", "=", "-", "_", "Label", "]]>"]
CSV_ATOMS = TEXT_ATOMS + ["\n", '""', ",,", "\r", "\r\n", " ", "\t", "#"]
WS_ATOMS = ["  ", "   ", "\t", "\n", " ", "a", "b", "x y", "1", "Z", "é", ",", "\t\t", " \n "]
SMART = ["“", "”", "‘", "’"]
OR_OTHER = [" or_other", " or other", " or specify other"]
LOGIC_COLS = ["calculation", "constraint", "relevant", "required", "read_only"]


def clean_ok(s: str) -> bool:
    return s == s.strip() and "  " not in s and s != ""


def text(rng, atoms=TEXT_ATOMS, lo=1, hi=4) -> str:
    for _ in range(20):
        s = "".join(rng.choice(atoms) for _ in range(rng.randint(lo, hi)))
        if clean_ok(s) and "${" not in s:
            return s
    return "t"


def data_text(rng, atoms=TEXT_ATOMS, p_ws=0.0, p_smart=0.0) -> str:
    """A data cell (choices / external_choices): optionally with whitespace kept as typed or a smart quote."""
    r = rng.random()
    if r < p_ws:
        for _ in range(20):
            s = "".join(rng.choice(WS_ATOMS) for _ in range(rng.randint(2, 5)))
            if s.strip() and "${" not in s:
                return s
        return "a  b"
    if r < p_ws + p_smart:
        return rng.choice(SMART) + text(rng, ["a", "b", "x y", "1"]) + rng.choice(SMART + [""])
    return text(rng, atoms)


class Gen:
    def __init__(self, rng: random.Random, big: bool = False):
        self.rng = rng
        self.big = big
        self.lists = {}  # name -> dict(kind, cols, rows)
        self.used = set()
        self.n = 0
        self.top_questions = []  # names of questions outside every repeat (safe ${} targets)
        self.repeat_questions = []  # (name, inside a top-level-only repeat chain) for select-from-repeat
        self.pd_files = ["pd", "fruits", "my-file", "d.a"]
        # data-cell streams: most forms plain, some with whitespace kept as typed, few with smart quotes
        self.p_ws = rng.choice([0.0, 0.0, 0.0, 0.3, 0.6])
        self.p_smart = rng.choice([0.0] * 9 + [0.3])

    # ------------------------------------------------------------------ choices
    def make_lists(self):
        rng = self.rng
        nl = rng.choice([0, 1, 1, 2, 2, 3, 4, 5])
        self.media_col = rng.choice(["media::image", "image", "audio", "media::audio"])
        names = rng.sample(LIST_NAMES[:9] if rng.random() < 0.9 else LIST_NAMES, nl)
        langs = rng.choice([[], [], [], ["en"], ["en", "fr"], ["English (en)", "fr"]])
        for ln in names:
            kind = rng.choice(["plain", "plain", "plain", "trans", "media", "dyn", "sparse_label"])
            if kind == "trans" and not langs:
                kind = "plain"
            size = rng.choice([1, 1, 2, 3, 3, 4, 5, 8])
            ncols = rng.choice([0, 0, 1, 2, 3])
            cols = rng.sample(EXTRA_COLS, ncols)
            self.lists[ln] = {"kind": kind, "size": size, "cols": cols, "langs": langs, "dups": rng.random() < 0.12}

    def choice_rows(self):
        rng = self.rng
        per_list = {}
        for ln, L in self.lists.items():
            rows = []
            pool = rng.sample(CHOICE_NAMES, min(len(CHOICE_NAMES), L["size"]))
            for i in range(L["size"]):
                nm = pool[i % len(pool)] if i < len(pool) else pool[0] + str(i)
                if L["dups"] and i > 0 and rng.random() < 0.5:
                    nm = rows[rng.randrange(len(rows))]["name"]
                row = {"list_name": ln, "name": nm}
                k = L["kind"]
                if k in ("plain", "media"):
                    row["label"] = data_text(rng, TEXT_ATOMS, self.p_ws, self.p_smart)
                elif k == "sparse_label":
                    if rng.random() < 0.6:
                        row["label"] = data_text(rng, TEXT_ATOMS, self.p_ws, self.p_smart)
                elif k == "dyn":
                    row["label"] = text(rng) + ((" ${%s}" % rng.choice(self.top_questions)) if self.top_questions and i == L["size"] - 1 else "")
                elif k == "trans":
                    for lg in L["langs"]:
                        row[f"label::{lg}"] = text(rng)  # itext content: C07 / C08
                if k == "media" and (i == 0 or rng.random() < 0.4):
                    row[self.media_col] = text(rng, ["a", "b", "1"]) + ".png"
                for c in L["cols"]:
                    if rng.random() < 0.65:
                        row[c] = data_text(rng, TEXT_ATOMS, self.p_ws, self.p_smart)
                rows.append(row)
            per_list[ln] = rows
        # interleave: lists are not contiguous on the sheet
        out = []
        order = list(per_list)
        mode = rng.choice(["contig", "contig", "interleave", "shuffle_blocks"])
        if mode == "contig":
            for ln in order:
                out += per_list[ln]
        elif mode == "shuffle_blocks":
            rng.shuffle(order)
            for ln in order:
                out += per_list[ln]
        else:
            queues = {ln: list(rs) for ln, rs in per_list.items()}
            while any(queues.values()):
                ln = rng.choice([k for k, v in queues.items() if v])
                take = rng.randint(1, 2)
                out += queues[ln][:take]
                queues[ln] = queues[ln][take:]
        # a row without list name is skipped by the grouping
        if out and rng.random() < 0.08:
            out.insert(rng.randrange(len(out) + 1), {"name": "stray", "label": "Stray"})
        return out

    # ------------------------------------------------------------------ survey
    def fresh(self, pool):
        rng = self.rng
        for _ in range(30):
            n = rng.choice(pool) + (str(rng.randint(1, 9)) if rng.random() < 0.5 else "")
            if n.lower() not in self.used:
                self.used.add(n.lower())
                return n
        self.n += 1
        n = f"n{self.n}"
        self.used.add(n)
        return n

    def ref(self):
        """`${q}` to a question seen so far, outside or inside repeats (absolute or relative replacement)."""
        pool = list(self.top_questions)
        if self.repeat_questions and self.rng.random() < 0.5:
            # targets inside repeats: relative (`../x`, `current()/../x`) when referrer and target share a repeat
            pool += self.repeat_questions
        if not pool:
            return None
        return "${%s}" % self.rng.choice(pool)

    def pulldata(self):
        rng = self.rng
        f = rng.choice(self.pd_files)
        qt = rng.choice(["'", '"'])
        sp = rng.choice(["", " ", ""])
        key = self.ref() or "'k'"
        return f"pulldata{sp}({sp}{qt}{f}{qt}{sp}, 'col', 'key', {key})"

    def logic(self, allow_pd=True):
        rng = self.rng
        r = self.ref()
        forms = [". != ''", "true()", "1 + 1 = 2"]
        if r:
            forms += [f"{r} = 'a'", f"selected({r}, 'b')"]
            if rng.random() < 0.3:
                forms.append("${last-saved#%s} = 'a'" % r[2:-1])
        if allow_pd and rng.random() < 0.5:
            pd = self.pulldata()
            forms = [f"{pd} = 'x'", f"{pd} != {self.pulldata()}", pd]
        return rng.choice(forms)

    def choice_filter(self):
        rng = self.rng
        r = self.ref()
        forms = ["extra = 'e1'", "a > 3", "x != ''", "true()", "name != 'b' and my_col = \"q\""]
        if r:
            forms += [f"x={r}", f"selected({r}, name)", f"a = {r} or extra < 5", f"x = {r} and a = {self.ref()}"]
            if rng.random() < 0.3:
                # a reference inside and outside the predicate of a secondary-instance path
                forms += [f"x = instance('pd')/root/item[k = {r}]/v", f"a = {r} and x = instance('l1')/root/item[name = {self.ref()}][1]/label"]
            if rng.random() < 0.25:
                forms.append("x = ${last-saved#%s}" % r[2:-1])
        if rng.random() < 0.12:
            forms = [f"x = {self.pulldata()}"]
        return rng.choice(forms)

    def params(self, d: dict) -> str:
        rng = self.rng
        sep = rng.choice([" ", ", ", ";", " ; ", ","]) if len(d) > 1 else ""
        def key(k):
            r = rng.random()
            return k if r < 0.7 else k.capitalize() if r < 0.85 else k.upper()

        def val(k, v):
            return v.upper() if k == "randomize" and rng.random() < 0.2 else v

        items = [f"{key(k)}={val(k, v)}" for k, v in d.items()]
        return sep.join(items)

    def select_row(self, in_repeat: bool, depth: int):
        rng = self.rng
        name = self.fresh(Q_NAMES)
        row = {"name": name, "label": text(rng)}
        variants = ["static"] * 6 + ["file"] * 3 + ["repeat", "repeat", "external", "external", "external", "search", "search"]
        v = rng.choice(variants)
        static_lists = list(self.lists)
        if v in ("static", "search") and not static_lists:
            v = "file"
        if v == "repeat" and not self.repeat_questions:
            v = "file"
        if v == "external" and not (self.ext_lists and self.top_questions):
            v = "file"
        p = {}
        if v == "static":
            cmd = rng.choice(["select_one", "select_one", "select_multiple", "rank", "select one", "select1",
                              "select all that apply", "select_multiple"])
            ln = rng.choice(static_lists)
            # never mix search and non-search users of a list (rejected by the converter; generated separately)
            if ln in self.search_lists:
                others = [x for x in static_lists if x not in self.search_lists]
                if not others:
                    return None
                ln = rng.choice(others)
            self.nonsearch_lists.add(ln)
            row["type"] = f"{cmd} {ln}"
            L = self.lists[ln]
            or_other_ok = not (L["kind"] in ("trans",) and False)
            has_filter = rng.random() < 0.3
            if has_filter:
                row["choice_filter"] = self.choice_filter()
            elif or_other_ok and cmd != "rank" and rng.random() < 0.25:
                row["type"] += rng.choice(OR_OTHER)
            if rng.random() < 0.35:
                p["randomize"] = rng.choice(["true", "true", "true", "false"])
                if p["randomize"] == "true" and rng.random() < 0.6:
                    p["seed"] = rng.choice(["4", "1.5", "-7", "042", self.ref() or "9", " 3"]).strip()
        elif v == "search":
            cmd = rng.choice(["select_one", "select_multiple"])
            cands = [x for x in static_lists if x not in self.nonsearch_lists]
            if not cands:
                return None
            ln = rng.choice(cands)
            self.search_lists.add(ln)
            row["type"] = f"{cmd} {ln}"
            row["appearance"] = rng.choice(["search('fruits')", "minimal search('fruits', 'contains', 'name', ${%s})" % rng.choice(self.top_questions) if self.top_questions else "search('x')", "search('a.b')", "quick search('pd')"])
            if rng.random() < 0.25:
                row["choice_filter"] = self.choice_filter()
            if rng.random() < 0.15:
                # a select that has only a hint: its in-line items still carry the choice labels (51586cd)
                row["hint"] = row.pop("label")
        elif v == "file":
            cmd = rng.choice(["select_one_from_file", "select_multiple_from_file", "select one from file",
                              "select multiple from file", "select_one", "select_multiple"])
            f = rng.choice(FILES[:6])
            row["type"] = f"{cmd} {f}"
            if rng.random() < 0.3:
                row["choice_filter"] = self.choice_filter()
            if rng.random() < 0.4 and "_from_file" in cmd:
                if rng.random() < 0.7:
                    p["value"] = rng.choice(["v", "id", "code", "my-val", "a.b", "Code", "ID_2", "camelCase"])
                if rng.random() < 0.7:
                    p["label"] = rng.choice(["l", "title", "lbl", "name", "Title", "nameEN"])
            if rng.random() < 0.25:
                p["randomize"] = "true"
                if rng.random() < 0.5:
                    p["seed"] = rng.choice(["4", self.ref() or "2"])
        elif v == "repeat":
            tgt = rng.choice(self.repeat_questions)
            row["type"] = rng.choice(["select_one", "select one"]) + " ${%s}" % tgt
            if rng.random() < 0.3:
                row["choice_filter"] = rng.choice(["${%s} != 'x'" % tgt, ". != ''", "${%s} != ''" % tgt] + ([f"x = {self.ref()}"] if self.ref() else []))
            if rng.random() < 0.2:
                p["randomize"] = "true"
        elif v == "external":
            ln = rng.choice(self.ext_lists)
            row["type"] = f"select_one_external {ln}"
            row["choice_filter"] = rng.choice(["a=%s" % self.ref(), "state = %s and a > 1" % self.ref()])
            if rng.random() < 0.2:
                row["choice_filter"] = "a = ${last-saved#%s}" % rng.choice(self.top_questions)
        if p:
            row["parameters"] = self.params(p)
        if v != "search" and rng.random() < 0.15:
            row["appearance"] = rng.choice(["minimal", "quick", "likert", "searchx", "search"])
        if rng.random() < 0.15:
            row[rng.choice(["relevant", "constraint", "required"])] = self.logic()
        if rng.random() < 0.08:
            row["default"] = rng.choice(["a", "${last-saved#%s}" % rng.choice(self.top_questions)] if self.top_questions else ["a"])
        if not in_repeat and v not in ("search",):
            self.top_questions.append(name)
        return row

    def other_row(self, in_repeat: bool):
        rng = self.rng
        name = self.fresh(Q_NAMES)
        kind = rng.choice(["text", "text", "integer", "calculate", "xml-external", "csv-external", "note"])
        if in_repeat and kind in ("xml-external", "csv-external"):
            kind = "text"
        row = {"type": kind, "name": name}
        if kind in ("xml-external", "csv-external"):
            if rng.random() < 0.3:
                # same name as a from-file / pulldata id: allowed when the URI agrees, rejected otherwise
                row["name"] = rng.choice(["f", "data", "pd", "cities", name])
                if row["name"].lower() in self.used and row["name"] != name:
                    row["name"] = name
                self.used.add(row["name"].lower())
            return row
        if kind == "calculate":
            row["calculation"] = self.logic()
        else:
            row["label"] = text(rng)
            for c in LOGIC_COLS[1:]:
                if rng.random() < 0.15:
                    row[c] = self.logic() if c != "read_only" else rng.choice(["yes", self.logic()])
            if kind == "text" and rng.random() < 0.15:
                r = self.ref()
                row["default"] = rng.choice(["abc"] + (["${last-saved#%s}" % r[2:-1], self.pulldata()] if r else []))
        if kind in ("text", "integer"):
            if in_repeat:
                self.repeat_questions.append(name)
            else:
                self.top_questions.append(name)
        return row

    def survey_rows(self):
        rng = self.rng
        n = rng.randint(2, 16 if self.big else 9)
        rows = []
        stack = []  # "group" | "repeat"
        count_in = [0]
        for _ in range(n):
            in_repeat = "repeat" in stack
            r = rng.random()
            if len(stack) < 3 and r < 0.12:
                g = self.fresh(G_NAMES)
                row = {"type": "begin group", "name": g, "label": text(rng)}
                if rng.random() < 0.2:
                    row["relevant"] = self.logic()
                rows.append(row)
                stack.append("group")
                count_in.append(0)
            elif len(stack) < 3 and r < 0.22:
                g = self.fresh(R_NAMES)
                rows.append({"type": "begin repeat", "name": g, "label": text(rng)})
                stack.append("repeat")
                count_in.append(0)
            elif stack and count_in[-1] > 0 and r < 0.36:
                kind = stack.pop()
                count_in.pop()
                rows.append({"type": f"end {kind}"})
            else:
                row = self.select_row(in_repeat, len(stack)) if rng.random() < 0.6 else self.other_row(in_repeat)
                if row is None:
                    row = self.other_row(in_repeat)
                rows.append(row)
                count_in[-1] += 1
        while stack:
            if count_in[-1] == 0:
                rows.append(self.other_row("repeat" in stack))
            kind = stack.pop()
            count_in.pop()
            rows.append({"type": f"end {kind}"})
            if count_in:
                count_in[-1] += 1
        return rows

    # ------------------------------------------------------------------ external choices
    def external(self):
        rng = self.rng
        self.ext_lists = []
        self.ext = None
        if rng.random() < 0.4:
            nl = rng.randint(1, 2)
            self.ext_lists = rng.sample(["ext", "towns", "e.2"], nl)
            cols = ["list_name", "name"] + rng.sample(["label", "a", "state", "note col", "x"], rng.randint(0, 4))
            if rng.random() < 0.3:
                rng.shuffle(cols)
            rows = []
            for ln in self.ext_lists:
                for i in range(rng.randint(1, 5)):
                    row = {"list_name": ln, "name": f"n{i}"}
                    for c in cols:
                        if c in ("list_name", "name"):
                            continue
                        if rng.random() < 0.6:
                            row[c] = data_text(rng, CSV_ATOMS, self.p_ws, self.p_smart) if rng.random() < 0.8 else text(rng, CSV_ATOMS, 1, 4)
                    # cell order in the row dict need not follow the header
                    if rng.random() < 0.3:
                        ks = list(row)
                        rng.shuffle(ks)
                        row = {k: row[k] for k in ks}
                    rows.append(row)
            if rng.random() < 0.5:
                rng.shuffle(rows)
            self.ext = {"cols": cols, "rows": rows}

    def form(self) -> dict:
        rng = self.rng
        self.search_lists = set()
        self.nonsearch_lists = set()
        self.make_lists()
        self.external()
        # a few top-level questions first so that references have targets
        pre = [self.other_row(False) for _ in range(rng.randint(0, 2))]
        survey = pre + self.survey_rows()
        form = {"survey": survey}
        ch = self.choice_rows()
        if ch or rng.random() < 0.2:
            form["choices"] = ch
            cols = ["list_name", "name"]
            form["choices_cols"] = cols
        if self.ext:
            form["external_choices"] = self.ext["rows"]
            form["external_choices_cols"] = self.ext["cols"]
        st = {}
        if any(L["dups"] for L in self.lists.values()):
            if rng.random() < 0.85:
                st["allow_choice_duplicates"] = rng.choice(["yes", "Yes", "true", "TRUE"])
        elif rng.random() < 0.1:
            st["allow_choice_duplicates"] = rng.choice(["no", "yes", "maybe"])
        if rng.random() < 0.2:
            st["form_id"] = "f1"
        if st:
            form["settings"] = [st]
        return form


def gen_form(rng: random.Random, big: bool = False) -> dict:
    return Gen(rng, big).form()
