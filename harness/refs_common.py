"""
C03 support: forms that place a referrer and a target in a tree of groups/repeats, the element
tree read back from the survey rows, the index of an XForm's reference-bearing strings, and the
template matcher (source cell with `${…}` holes  vs  emitted string).

Nothing in here imports pyxform: the oracle must not share code with the implementation.
"""

from __future__ import annotations

import itertools
import re
import xml.etree.ElementTree as ET

from formobs import NS, local

XF = "{http://www.w3.org/2002/xforms}"
JR = "{http://openrosa.org/javarosa}"
REF_RE = re.compile(r"\$\{(last-saved#)?(.*?)\}")

# cell kinds (columns) the property lists and this check generates; value = where the string lands
BIND_COLS = {
    "relevant": "relevant",
    "constraint": "constraint",
    "required": "required",
    "read_only": "readonly",
    "calculation": "calculate",
    "bind::custom": "custom",
}
MSG_COLS = {"constraint_message": "jr:constraintMsg", "required_message": "jr:requiredMsg"}
TEXT_COLS = ("label", "hint", "guidance_hint")
REF_COLS = (
    tuple(BIND_COLS) + tuple(MSG_COLS) + TEXT_COLS
    + ("default", "choice_filter", "repeat_count", "trigger", "parameters", "body::custom")
)


# --------------------------------------------------------------------------- tree from rows


class El:
    __slots__ = ("name", "kind", "path", "row", "kinds")

    def __init__(self, name, kind, path, row, kinds):
        self.name = name
        self.kind = kind  # q | group | repeat | root
        self.path = path  # list of segments from the root
        self.row = row
        self.kinds = kinds  # kinds of the segments of `path`

    def xpath(self):
        return "/" + "/".join(self.path)


def root_name(form) -> str:
    for s in form.get("settings") or []:
        if s.get("name"):
            return s["name"]
    return "data"


def elements(form) -> list[El]:
    """Every element of the survey sheet with its path (begin/end nesting read directly)."""
    rn = root_name(form)
    out = [El(rn, "root", [rn], {}, ["root"])]
    stack = [(rn, "root")]
    for row in form["survey"]:
        t = (row.get("type") or "").strip()
        if not t:
            continue
        m = re.match(r"^(begin|end)[ _](group|repeat)$", t)
        if m and m.group(1) == "end":
            stack.pop()
            continue
        name = row.get("name")
        kind = m.group(2) if m else "q"
        path = [s[0] for s in stack] + [name]
        kinds = [s[1] for s in stack] + [kind]
        out.append(El(name, kind, path, row, kinds))
        if m:
            stack.append((name, kind))
    return out


def innermost_enclosing_repeat(e: El):
    """path of the nearest *strict* ancestor of kind repeat, or None"""
    for i in range(len(e.path) - 2, -1, -1):
        if e.kinds[i] == "repeat":
            return e.path[: i + 1]
    return None


def encloses(anc_path, e: El) -> bool:
    """anc_path is a strict ancestor of e"""
    return len(anc_path) < len(e.path) and e.path[: len(anc_path)] == anc_path


# --------------------------------------------------------------------------- XForm index


def flatten(el) -> tuple[str, int]:
    """mixed content with every <output value=V/> replaced by V; number of outputs"""
    parts = [el.text or ""]
    n = 0
    for ch in el:
        if local(ch.tag) == "output":
            parts.append(ch.get("value") or "")
            n += 1
        else:
            f, k = flatten(ch)
            parts.append(f)
            n += k
        parts.append(ch.tail or "")
    return "".join(parts), n


class XIndex:
    def __init__(self, xform: str):
        self.text = xform
        root = ET.fromstring(xform)
        self.root = root
        model = root.find("h:head/x:model", NS)
        body = root.find("h:body", NS)
        self.binds = {}
        for b in model.findall("x:bind", NS):
            self.binds.setdefault(b.get("nodeset"), []).append(b)
        self.itext = {}
        for tr in model.findall("x:itext/x:translation", NS):
            for tx in tr.findall("x:text", NS):
                self.itext.setdefault(tx.get("id"), []).append((tr.get("lang"), tx))
        self.controls = {}
        self.repeats = {}
        self.setvalues = []  # (ref, event, value, enclosing control ref | None)
        for sv in model.findall("x:setvalue", NS):
            self.setvalues.append((sv.get("ref"), sv.get("event") or "", sv.get("value"), None))

        def walk(el, ctl_ref):
            for ch in el:
                t = local(ch.tag)
                r = ctl_ref
                if t == "repeat":
                    self.repeats[ch.get("nodeset")] = ch
                elif t == "setvalue":
                    self.setvalues.append((ch.get("ref"), ch.get("event") or "", ch.get("value"), ctl_ref))
                elif "ref" in ch.attrib and t not in ("label", "hint", "value", "itemset"):
                    self.controls.setdefault(ch.get("ref"), ch)
                    r = ch.get("ref")
                walk(ch, r)

        walk(body, None)
        inst = model.find("x:instance", NS)
        self.instance_paths = set()

        # element names with a user-declared namespace prefix (namespaces setting) keep the prefix in every xpath
        prefixes = {uri: pfx for pfx, uri in re.findall(r'xmlns:([\w.-]+)="([^"]*)"', xform[: xform.find(">", xform.find("<h:html")) + 1])}

        def qname(tag):
            if tag.startswith("{"):
                uri, loc = tag[1:].split("}", 1)
                if uri != "http://www.w3.org/2002/xforms" and uri in prefixes:
                    return prefixes[uri] + ":" + loc
                return loc
            return tag

        def ipaths(el, pre):
            if JR + "template" in el.attrib:
                return
            p = pre + [qname(el.tag)]
            self.instance_paths.add("/" + "/".join(p))
            for ch in el:
                ipaths(ch, p)

        ipaths(list(inst)[0], [])

    def text_of(self, path: str, what: str, lang=None):
        """flattened strings of label / hint of the control at `path` (inline or through itext; `lang`: only
        that translation)"""
        ctl = self.controls.get(path)
        out = []
        if ctl is None:
            return out
        tag = {"label": "label", "hint": "hint", "guidance_hint": "hint"}[what]
        el = ctl.find(XF + tag)
        if el is None:
            return out
        ref = el.get("ref")
        if ref is None:
            if what != "guidance_hint":
                out.append(flatten(el))
            return out
        m = re.match(r"^jr:itext\('(.*)'\)$", ref)
        if not m:
            return out
        for _lang, tx in self.itext.get(m.group(1), []):
            if lang is not None and _lang != lang:
                continue
            for v in tx.findall(XF + "value"):
                form = v.get("form")
                if (what == "guidance_hint") == (form == "guidance") and form in (None, "guidance"):
                    out.append(flatten(v))
        return out

    def msg_of(self, path: str, attr: str, lang=None):
        out = []
        for b in self.binds.get(path, []):
            v = b.get(attr.replace("jr:", JR))
            if v is None:
                continue
            m = re.match(r"^jr:itext\('(.*)'\)$", v)
            if m:
                for _lang, tx in self.itext.get(m.group(1), []):
                    if lang is not None and _lang != lang:
                        continue
                    for val in tx.findall(XF + "value"):
                        out.append(flatten(val))
            else:
                out.append((v, 0))
        return out


# --------------------------------------------------------------------------- template matching


def template_regex(src: str):
    """regex for an emitted string given the source cell; one group per `${…}` occurrence"""
    pieces = []
    refs = []
    pos = 0
    for m in REF_RE.finditer(src):
        pieces.append(src[pos : m.start()])
        refs.append({"name": m.group(2), "last_saved": m.group(1) is not None, "start": m.start(), "end": m.end()})
        pos = m.end()
    pieces.append(src[pos:])

    def lit(s):
        toks = s.split()
        body = r"\s+".join(re.escape(t) for t in toks)
        if not toks:
            return r"\s*"
        return (r"\s*" if s[:1].isspace() else "") + body + (r"\s*" if s[-1:].isspace() else "")

    rx = r"^\s*" + lit(pieces[0])
    for p in pieces[1:]:
        rx += r"\s*(\S+?)\s*" + lit(p)
    rx += r"\s*$"
    return re.compile(rx, re.S), refs


def match_template(src: str, out: str):
    """list of (ref info, emitted hole) or None when the emitted string is not the source with
    its references replaced"""
    rx, refs = template_regex(src)
    m = rx.match(out)
    if not m:
        return None
    return [(r, m.group(i + 1)) for i, r in enumerate(refs)]


def occurrence_flags(src: str, start: int) -> dict:
    """where a `${…}` occurrence sits in its expression, by the oracle's own scan:
    `in_pred`  — inside `[...]` of a path that starts with `instance(`;
    `ir_arg`   — index of the argument of an enclosing `indexed-repeat(` call, else None."""
    in_pred = False
    ir_arg = None
    # bracket scan
    depth = 0
    inst_seen = False
    stack = []  # entries: ("[", inst) or ("(", func, argidx)
    i = 0
    fname = ""
    while i < start:
        c = src[i]
        if src.startswith("instance(", i):
            inst_seen = True
        if c == "[":
            stack.append(["[", inst_seen])
        elif c == "]":
            if stack and stack[-1][0] == "[":
                stack.pop()
        elif c == "(":
            stack.append(["(", fname, 0])
        elif c == ")":
            if stack and stack[-1][0] == "(":
                stack.pop()
        elif c == "," and stack and stack[-1][0] == "(":
            stack[-1][2] += 1
        if c.isalnum() or c in "-_.:":
            fname += c
        else:
            fname = ""
        i += 1
    for fr in stack:
        if fr[0] == "[" and fr[1]:
            in_pred = True
    for fr in reversed(stack):
        if fr[0] == "(" and fr[1] == "indexed-repeat":
            ir_arg = fr[2]
            break
    return {"in_pred": in_pred, "ir_arg": ir_arg}


# --------------------------------------------------------------------------- layouts

KINDS = ("group", "repeat")


def layouts(depth: int):
    """(common chain, referrer-only chain, target-only chain) of container kinds, all with
    len(common)+len(side) <= depth"""
    for a in range(depth + 1):
        for common in itertools.product(KINDS, repeat=a):
            sides = [s for b in range(depth - a + 1) for s in itertools.product(KINDS, repeat=b)]
            for rc in sides:
                for tc in sides:
                    yield common, rc, tc


def names_for(policy: str, common, rc, tc):
    """container names of the three chains + leaf-name prefix"""
    if policy in ("neutral", "reuse"):
        return ([f"k{i+1}" for i in range(len(common))], [f"c{i+1}" for i in range(len(rc))],
                [f"t{i+1}" for i in range(len(tc))])
    if policy == "prefix":
        # referrer side r2, r2a, r2ab … ; target side r, ra, rab … (each a string prefix of the other side's)
        kn = ["R", "Ra", "Rab", "Rabc"][: len(common)]
        cn = ["r2", "r2a", "r2ab", "r2abc"][: len(rc)]
        tn = ["r", "ra", "rab", "rabc"][: len(tc)]
        return kn, cn, tn
    if policy == "aligned":
        # target side `abcde_<referrer side name>`: a string slice of the target path at the length of the
        # referrer's parent path lands inside the longer name and its tail equals the shorter name
        kn = ["R", "S", "T", "U"][: len(common)]
        cn = ["r2", "r3", "r4", "r5"][: len(rc)]
        tn = ["abcde_r2", "r3x", "fghij_r4", "r5"][: len(tc)]
        # keep names unique over the whole form
        tn = [n if n not in cn else n + "_" for n in tn]
        return kn, cn, tn
    raise ValueError(policy)
