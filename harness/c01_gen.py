"""
C01: form generator (general stream inside the guards NamesOK / CharsOK, directed stream for the
known defect shapes F1-F4), shape detectors and sanitisers used to attribute an oracle failure
to one known input shape.
"""

from __future__ import annotations

import copy
import random
import re

import gen

# ------------------------------------------------------------------ XML 1.0 (5th ed.) names, independent of the Lean reader

_NS = (
    ":A-Z_a-z\u00c0-\u00d6\u00d8-\u00f6\u00f8-\u02ff\u0370-\u037d\u037f-\u1fff\u200c-\u200d"
    "\u2070-\u218f\u2c00-\u2fef\u3001-\ud7ff\uf900-\ufdcf\ufdf0-\ufffd\U00010000-\U000effff"
)
_NC = _NS + "\\-.0-9\u00b7\u0300-\u036f\u203f-\u2040"
RE_NAME = re.compile(f"[{_NS}][{_NC}]*\\Z")
RE_NONXML = re.compile("[^\t\n\r\u0020-\ud7ff\ue000-\ufffd\U00010000-\U0010ffff]")


def is_name(s: str) -> bool:
    return bool(RE_NAME.match(s))


def is_ncname(s: str) -> bool:
    return ":" not in s and is_name(s)


def is_qname(s: str) -> bool:
    p = s.split(":")
    return len(p) in (1, 2) and all(is_ncname(x) for x in p)


NSMAP_PREFIXES = {"h", "ev", "xsd", "jr", "orx", "odk", "xml", "xmlns"}
CUSTOM_COLS = ("bind::", "instance::", "body::", "control::")
CHOICE_STD = re.compile(r"(list_name|list name|name|value|label|image|audio|video|big-image|media)(::.*)?\Z")


def settings_row(form):
    st = form.get("settings") or []
    return st[0] if st else {}


def declared_prefixes(form) -> set:
    """prefixes an accepted form declares on <h:html>: NSMAP, the namespaces setting, entities"""
    out = set(NSMAP_PREFIXES)
    ns = settings_row(form).get("namespaces") or ""
    for tok in ns.split():
        p = tok.split("=")
        if len(p) == 2 and p[0] != "":
            out.add(p[0])
    if form.get("entities"):
        out.add("entities")
    # prefixes declared on the primary instance root by attribute::xmlns:p are in scope below the root only
    return out


def custom_names(form):
    """(sheet, column, X) for every user string that becomes an attribute *name*"""
    out = []
    for row in form.get("survey", []):
        for k in row:
            for pre in CUSTOM_COLS:
                if k.startswith(pre):
                    out.append(("survey", k, k[len(pre):]))
    for k in settings_row(form):
        if k.startswith("attribute::"):
            out.append(("settings", k, k[len("attribute::"):]))
    return out


def element_names(form):
    out = [r["name"] for r in form.get("survey", []) if r.get("name")]
    if settings_row(form).get("name"):
        out.append(settings_row(form)["name"])
    return out


def choice_extra_headers(form):
    hs = []
    for r in form.get("choices", []) or []:
        for k in r:
            if not CHOICE_STD.match(k) and k not in hs:
                hs.append(k)
    return hs


def all_cells(form):
    for s in ("survey", "choices", "settings", "entities"):
        for r in form.get(s) or []:
            yield from r.values()


# ------------------------------------------------------------------ known shapes (DESIGN 7.2 F1-F4)


def shapes(form) -> dict:
    """which known defect shapes the *input* has: {class: [witness strings]}"""
    decl = declared_prefixes(form)
    out = {}
    f1 = [h for h in choice_extra_headers(form) if not is_ncname(h)]
    if f1:
        out["F1"] = f1
    f2 = [x for (_, _, x) in custom_names(form) if not is_qname(x)]
    ns = settings_row(form).get("namespaces") or ""
    for tok in ns.split():
        p = tok.split("=")
        if len(p) == 2 and p[0] != "" and not is_ncname(p[0]):
            f2.append("xmlns:" + p[0])
    if f2:
        out["F2"] = f2
    f2b = [tok for tok in ns.split() if _bad_decl(tok)]
    if f2b:
        out["F2b"] = f2b
    f3 = []
    for _, _, x in custom_names(form):
        if is_qname(x) and ":" in x and x.split(":")[0] not in decl and not _declared_at_root(form, x):
            f3.append(x)
    for n in element_names(form):
        if is_qname(n) and ":" in n and n.split(":")[0] not in decl:
            f3.append(n)
    if f3:
        out["F3"] = f3
    f4 = [v for v in all_cells(form) if isinstance(v, str) and RE_NONXML.search(v)]
    if f4:
        out["F4"] = f4
    return out


def _bad_decl(tok):
    """namespaces token that yields an illegal declaration: empty URI, or the prefixes xml / xmlns"""
    p = tok.split("=")
    if len(p) != 2 or p[0] == "" or p[0] in NSMAP_PREFIXES - {"xml", "xmlns"}:
        return False
    uri = p[1].replace('"', "").replace("'", "")
    return uri == "" or p[0] in ("xml", "xmlns") or uri in ("http://www.w3.org/XML/1998/namespace", "http://www.w3.org/2000/xmlns/")


def _declared_at_root(form, x):
    """attribute::p:y on the instance root is bound when attribute::xmlns:p sits on the same element"""
    p = x.split(":")[0]
    st = settings_row(form)
    return ("attribute::" + x) in st and ("attribute::xmlns:" + p) in st


def sanitise(form, classes) -> dict:
    """the form with every instance of the given shape classes removed"""
    f = copy.deepcopy(form)
    decl = declared_prefixes(form)
    if "F4" in classes:
        for s in ("survey", "choices", "settings", "entities"):
            for r in f.get(s) or []:
                for k, v in list(r.items()):
                    if isinstance(v, str):
                        r[k] = RE_NONXML.sub("", v) or "x"
    if "F1" in classes:
        bad = [h for h in choice_extra_headers(f) if not is_ncname(h)]
        for r in f.get("choices") or []:
            for h in bad:
                r.pop(h, None)
    def drop_custom(pred):
        for r in f.get("survey", []):
            for k in list(r):
                for pre in CUSTOM_COLS:
                    if k.startswith(pre) and pred(k[len(pre):]):
                        del r[k]
        st = settings_row(f)
        for k in list(st):
            if k.startswith("attribute::") and pred(k[len("attribute::"):]):
                del st[k]
    if "F2" in classes:
        drop_custom(lambda x: not is_qname(x))
        st = settings_row(f)
        if st.get("namespaces"):
            toks = []
            for tok in st["namespaces"].split():
                p = tok.split("=")
                if len(p) == 2 and p[0] != "" and not is_ncname(p[0]):
                    continue
                toks.append(tok)
            st["namespaces"] = " ".join(toks)
            if not st["namespaces"]:
                del st["namespaces"]
    if "F2b" in classes:
        st = settings_row(f)
        if st.get("namespaces"):
            st["namespaces"] = " ".join(t for t in st["namespaces"].split() if not _bad_decl(t))
            if not st["namespaces"]:
                del st["namespaces"]
    if "F3" in classes:
        drop_custom(lambda x: is_qname(x) and ":" in x and x.split(":")[0] not in decl and not _declared_at_root(form, x))
        ren = {}
        for n in element_names(f):
            if is_qname(n) and ":" in n and n.split(":")[0] not in decl:
                ren[n] = n.replace(":", "_") + "_s"
        if ren:
            def fix(v):
                if not isinstance(v, str):
                    return v
                for a, b in ren.items():
                    v = v.replace("${" + a + "}", "${" + b + "}")
                return v
            for r in f.get("survey", []):
                for k in list(r):
                    r[k] = fix(r[k])
                if r.get("name") in ren:
                    r["name"] = ren[r["name"]]
            st = settings_row(f)
            if st.get("name") in ren:
                st["name"] = ren[st["name"]]
    return f


# ------------------------------------------------------------------ general stream

VALID_LOCAL = ["foo", "custom-attr", "a.b", "_z", "Geo-M", "x1", "é", "data-x"]
NS_POOL = [
    ("esri", "http://esri.com/x"), ("ex", "http://example.org/ns#"), ("a-b", "urn:x:y"), ("_p", "http://p"),
    ("é", "http://e"), ("x1", 'http://q"uoted'),
]
NS_NOISE = ["novalue", "=x", "a=b=c", "h=http://other", "odk=urn:mine", "==", "jr=", "=", "h=''"]
FORM_IDS = ["my_form", "f1", "id-2", "a<b", 'q"id', "x&y", "it's", "é中", "a b", "F.1:2", "<!--", "]]>", "&amp;"]
LANG_SETS = [[], [], ["en"], ["en", "fr"], ["English (en)", "fr"], ["default", "sw"]]


def expected_form_id(form, fallback="data"):
    st = settings_row(form)
    if "form_id" in st and st["form_id"] not in (None, ""):
        return st["form_id"]
    if "id_string" in st and st["id_string"] not in (None, ""):
        return st["id_string"]
    return fallback


def general_form(rng: random.Random, big=False) -> dict:
    langs = rng.choice(LANG_SETS)
    form = gen.gen_form(
        rng, langs=langs, plain_text=rng.random() < 0.15, p_ref_in_label=0.3, p_hint=0.5, p_select=0.3,
        p_settings=0.0, n=(1, 20 if big else 9), max_depth=rng.choice([2, 3, 5]),
        p_group=rng.choice([0.1, 0.2]), p_repeat=rng.choice([0.08, 0.2]),
    )
    st = {}
    declared = []
    if rng.random() < 0.5:
        toks = []
        for _ in range(rng.randint(1, 3)):
            if rng.random() < 0.25:
                toks.append(rng.choice(NS_NOISE))
            else:
                p, u = rng.choice(NS_POOL)
                q = rng.choice(['"', "'", ""])
                toks.append(f"{p}={q}{u}{q}")
                if p not in declared:
                    declared.append(p)
        sep = rng.choice([" ", "  ", " \t"]) if rng.random() < 0.3 else " "
        st["namespaces"] = sep.join(toks)

    def attr_name():
        r = rng.random()
        if declared and r < 0.35:
            return rng.choice(declared) + ":" + rng.choice(VALID_LOCAL)
        if r < 0.5:
            return rng.choice(["jr", "odk", "orx"]) + ":" + rng.choice(VALID_LOCAL)
        return rng.choice(VALID_LOCAL)

    def text():
        return gen.adv_text(rng, 5, plain=False)

    # custom attribute columns
    rows = [r for r in form["survey"] if r.get("name")]
    for r in rows:
        if rng.random() < 0.25:
            r[rng.choice(CUSTOM_COLS[:3]) + attr_name()] = text()
        if rng.random() < 0.08:
            r[rng.choice(CUSTOM_COLS) + attr_name()] = text()
    # element names with a declared prefix
    if declared and rng.random() < 0.3:
        qs = [r for r in rows if not r["type"].startswith("begin")]
        if qs:
            r = rng.choice(qs)
            old = r["name"]
            new = rng.choice(declared) + ":" + old.replace(":", "_")
            refs = any(isinstance(v, str) and "${" + old + "}" in v for x in form["survey"] for v in x.values())
            if not refs:
                r["name"] = new
    # choices extra columns
    if form.get("choices") and rng.random() < 0.4:
        for h in rng.sample(["extra", "geometry", "Geo-M.x", "é", "_p", "x-1"], rng.randint(1, 2)):
            for c in form["choices"]:
                if rng.random() < 0.8:
                    c[h] = text()
    # settings
    if rng.random() < 0.6:
        st["form_title"] = text()
    if rng.random() < 0.6:
        st[rng.choice(["form_id", "id_string"])] = rng.choice(FORM_IDS)
    if rng.random() < 0.3:
        st["version"] = rng.choice(["1", "2024010101", 'v"3<', "a&b"])
    if rng.random() < 0.2:
        st["style"] = rng.choice(["pages", "theme-grid", 'a"b', "pages theme-grid"])
    if rng.random() < 0.15:
        st["instance_xmlns"] = rng.choice(["http://inst", "urn:a&b"])
    if rng.random() < 0.1:
        st["prefix"] = rng.choice(["p", "J1!", "<"])
    if rng.random() < 0.1:
        st["delimiter"] = rng.choice(["+", "#", '"'])
    if rng.random() < 0.15:
        st["submission_url"] = rng.choice(["https://s.example/x?a=1&b=2", "http://s"])
    if rng.random() < 0.1:
        st["public_key"] = rng.choice(["MIIB+/=", "k e y"])
    if rng.random() < 0.1:
        st["auto_send"] = rng.choice(["true", "false", "x<y"])
    if rng.random() < 0.1:
        st["auto_delete"] = rng.choice(["true", "false"])
    if rng.random() < 0.1:
        st["name"] = rng.choice(["root", "my-form", "_d", "Data.1"] + ([declared[0] + ":root"] if declared else []))
    for _ in range(rng.choice([0, 0, 0, 1, 2])):
        st["attribute::" + attr_name()] = text()
    if rng.random() < 0.06:
        st["attribute::" + rng.choice(["id", "version", "xmlns", "odk:prefix"])] = text()
    if rng.random() < 0.06:
        st["attribute::xmlns:loc"] = "urn:local"
        st["attribute::loc:attr"] = text()
    if langs and rng.random() < 0.4:
        st["default_language"] = rng.choice(langs)
    if st:
        form["settings"] = [st]
    if rng.random() < 0.08:
        form["entities"] = [{"dataset": rng.choice(["trees", "people"]), "label": "'x'"}]
    return form


# ------------------------------------------------------------------ directed stream (known shapes)

BAD_NAMES = ["1abc", "-x", "a<b", "a>b", 'a"b', "a&b", "x/y", "a=b", "9", ".a", "a'b", "a{b", "x;y", "a,b"]
UNBOUND = ["foo:bar", "nope:x", "a:b", "xx:y-1", "H:title"]
CTRL = ["\x01", "\x08", "\x0b", "\x0c", "\x1f", "\x00", "\ufffe", "\uffff", "\x0e"]


def _with_select(rng, form):
    if not form.get("choices"):
        form["survey"].append({"type": "select_one dl", "name": "dsel", "label": "Pick"})
        form["choices"] = [{"list_name": "dl", "name": "a", "label": "A"}, {"list_name": "dl", "name": "b", "label": "B"}]
    return form


def directed(rng: random.Random, cls: str) -> dict:
    """a form of the general stream with exactly one known shape injected"""
    for _ in range(50):
        form = general_form(rng)
        if not shapes(form):
            break
    rows = [r for r in form["survey"] if r.get("name")]
    if cls == "F1":
        _with_select(rng, form)
        h = rng.choice(BAD_NAMES)
        for c in form["choices"]:
            c[h] = "v"
    elif cls == "F2":
        bad = rng.choice(BAD_NAMES + ["a b", "two words"])
        r = rng.random()
        if r < 0.6:
            rng.choice(rows)[rng.choice(CUSTOM_COLS[:3]) + bad] = "v"
        elif r < 0.8:
            form.setdefault("settings", [{}])[0]["attribute::" + bad] = "v"
        else:
            st = form.setdefault("settings", [{}])[0]
            p = rng.choice(["1x", "a<b", "-p", "a&b", 'q"x'])
            st["namespaces"] = ((st.get("namespaces") or "") + f" {p}=http://bad").strip()
    elif cls == "F2b":
        st = form.setdefault("settings", [{}])[0]
        tok = rng.choice(["x=", 'y=""', "z=''", "xml=http://a", "xmlns=http://b", "w=http://www.w3.org/2000/xmlns/"])
        st["namespaces"] = ((st.get("namespaces") or "") + " " + tok).strip()
    elif cls == "F3":
        u = rng.choice(UNBOUND)
        r = rng.random()
        if r < 0.45:
            rng.choice(rows)[rng.choice(CUSTOM_COLS[:3]) + u] = "v"
        elif r < 0.6:
            form.setdefault("settings", [{}])[0]["attribute::" + u] = "v"
        elif r < 0.7:
            form.setdefault("settings", [{}])[0]["name"] = u
        else:
            form["survey"].append({"type": rng.choice(["text", "integer", "note"]), "name": u.lower() if u != "H:title" else "zz:q", "label": "L"})
    elif cls == "F4":
        c = rng.choice(CTRL)
        r = rng.random()
        if r < 0.5:
            row = rng.choice(rows)
            key = rng.choice([k for k in row if k.startswith(("label", "hint"))] or ["hint"])
            row[key] = "a" + c + "b"
        elif r < 0.7 and form.get("choices"):
            ch = rng.choice(form["choices"])
            key = rng.choice([k for k in ch if k.startswith("label")] or ["label"])
            ch[key] = "c" + c
        elif r < 0.85:
            form.setdefault("settings", [{}])[0]["form_title"] = "T" + c
        else:
            rng.choice(rows)["constraint_message"] = c + "m"
            rng.choice(rows).setdefault("bind::foo", "v" + c)
    return form
