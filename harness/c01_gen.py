"""
C01: form generator (general stream inside the guards NamesOK / CharsOK, directed stream for the
known defect shapes F1-F4), shape detectors and sanitisers used to attribute an oracle failure
to one known input shape.
"""

from __future__ import annotations

import copy
import random
import re

import gen

# ------------------------------------------------------------------ XML 1.0 (5th ed.) names, independent of the Lean reader

_NS = (
    ":A-Z_a-z\u00c0-\u00d6\u00d8-\u00f6\u00f8-\u02ff\u0370-\u037d\u037f-\u1fff\u200c-\u200d"
    "\u2070-\u218f\u2c00-\u2fef\u3001-\ud7ff\uf900-\ufdcf\ufdf0-\ufffd\U00010000-\U000effff"
)
_NC = _NS + "\\-.0-9\u00b7\u0300-\u036f\u203f-\u2040"
RE_NAME = re.compile(f"[{_NS}][{_NC}]*\\Z")
RE_NONXML = re.compile("[^\t\n\r\u0020-\ud7ff\ue000-\ufffd\U00010000-\U0010ffff]")


def is_name(s: str) -> bool:
    return bool(RE_NAME.match(s))


def is_ncname(s: str) -> bool:
    return ":" not in s and is_name(s)


def is_qname(s: str) -> bool:
    p = s.split(":")
    return len(p) in (1, 2) and all(is_ncname(x) for x in p)


NSMAP_PREFIXES = {"h", "ev", "xsd", "jr", "orx", "odk", "xml", "xmlns"}
CUSTOM_COLS = ("bind::", "instance::", "body::", "control::")
CHOICE_STD = re.compile(r"(list_name|list name|name|value|label|image|audio|video|big-image|media)(::.*)?\Z")


def settings_row(form):
    st = form.get("settings") or []
    return st[0] if st else {}


def declared_prefixes(form) -> set:
    """prefixes an accepted form declares on <h:html>: NSMAP, the namespaces setting, entities"""
    out = set(NSMAP_PREFIXES)
    ns = settings_row(form).get("namespaces") or ""
    for tok in ns.split():
        p = tok.split("=")
        if len(p) == 2 and p[0] != "":
            out.add(p[0])
    if form.get("entities"):
        out.add("entities")
    # prefixes declared on the primary instance root by attribute::xmlns:p are in scope below the root only
    return out


def custom_names(form):
    """(sheet, column, X) for every user string that becomes an attribute *name*"""
    out = []
    for row in form.get("survey", []):
        for k in row:
            for pre in CUSTOM_COLS:
                if k.startswith(pre):
                    out.append(("survey", k, k[len(pre):]))
    for k in settings_row(form):
        if k.startswith("attribute::"):
            out.append(("settings", k, k[len("attribute::"):]))
    return out


def element_names(form):
    out = [r["name"] for r in form.get("survey", []) if r.get("name")]
    if settings_row(form).get("name"):
        out.append(settings_row(form)["name"])
    return out


def choice_extra_headers(form):
    hs = []
    for r in form.get("choices", []) or []:
        for k in r:
            if not CHOICE_STD.match(k) and k not in hs:
                hs.append(k)
    return hs


def all_cells(form):
    for s in ("survey", "choices", "settings", "entities"):
        for r in form.get(s) or []:
            yield from r.values()


# ------------------------------------------------------------------ known shapes (DESIGN 7.2 F1-F4)


TYPO_LIT = "\u00c0-\u00d6]"   # the four characters `À-Ö]`: a literal alternative of pyxform's NameStartChar regex (typo for a class)


def user_names(form):
    """every user string that becomes an XML name"""
    out = [x for (_, _, x) in custom_names(form)] + element_names(form) + choice_extra_headers(form)
    ns = settings_row(form).get("namespaces") or ""
    for tok in ns.split():
        p = tok.split("=")
        if len(p) == 2 and p[0]:
            out.append(p[0])
    return out


def shapes(form) -> dict:
    """which known defect shapes the *input* has: {class: [witness strings]}.
    F1-F4/F2b are repaired (validate_xml_document); what is left is F5: a name containing the
    literal `À-Ö]`, which the NCName regex accepts because of a typo (`\\xc0-\\xd6]` without `[`)."""
    out = {}
    f5 = [n for n in user_names(form) if TYPO_LIT in n]
    if f5:
        out["F5"] = f5
    return out


RESERVED_NS_URIS = ("http://www.w3.org/XML/1998/namespace", "http://www.w3.org/2000/xmlns/")


def _reserved_uri_decl(tok):
    """what is left of F2b after the repair: a `namespaces` token that binds an ordinary prefix to one
    of the two reserved namespace names (empty URIs and the prefixes xml/xmlns are rejected now)"""
    p = tok.split("=")
    if len(p) != 2 or p[0] in ("", "xml", "xmlns") or p[0] in NSMAP_PREFIXES:
        return False
    return p[1].replace('"', "").replace("'", "") in RESERVED_NS_URIS


def _declared_at_root(form, x):
    """attribute::p:y on the instance root is bound when attribute::xmlns:p sits on the same element"""
    p = x.split(":")[0]
    st = settings_row(form)
    return ("attribute::" + x) in st and ("attribute::xmlns:" + p) in st


def sanitise(form, classes) -> dict:
    """the form with every instance of the given shape classes removed"""
    f = copy.deepcopy(form)
    if "F2b" in classes:
        st = settings_row(f)
        if st.get("namespaces"):
            st["namespaces"] = " ".join(t for t in st["namespaces"].split() if not _reserved_uri_decl(t))
            if not st["namespaces"]:
                del st["namespaces"]
    if "F3x" in classes:
        ren = {n: "xmlns_" + n[6:] for n in element_names(f) if n.startswith("xmlns:")}
        for r in f.get("survey", []):
            for k in list(r):
                if isinstance(r[k], str):
                    for a, b in ren.items():
                        r[k] = r[k].replace("${" + a + "}", "${" + b + "}")
            if r.get("name") in ren:
                r["name"] = ren[r["name"]]
        st = settings_row(f)
        if st.get("name") in ren:
            st["name"] = ren[st["name"]]
    if "F5" in classes:
        def fix(v):
            return v.replace(TYPO_LIT, "AO") if isinstance(v, str) else v
        for s in ("survey", "choices", "settings"):
            rows = []
            for r in f.get(s) or []:
                rows.append({fix(k): fix(v) for k, v in r.items()})
            if s in f:
                f[s] = rows
    return f


# ------------------------------------------------------------------ general stream

VALID_LOCAL = ["foo", "custom-attr", "a.b", "_z", "Geo-M", "x1", "é", "data-x"]
NS_POOL = [
    ("esri", "http://esri.com/x"), ("ex", "http://example.org/ns#"), ("a-b", "urn:x:y"), ("_p", "http://p"),
    ("é", "http://e"), ("x1", 'http://q"uoted'),
]
NS_NOISE = ["novalue", "=x", "a=b=c", "h=http://other", "odk=urn:mine", "==", "jr=", "=", "h=''"]
FORM_IDS = ["my_form", "f1", "id-2", "a<b", 'q"id', "x&y", "it's", "é中", "a b", "F.1:2", "<!--", "]]>", "&amp;"]
LANG_SETS = [[], [], ["en"], ["en", "fr"], ["English (en)", "fr"], ["default", "sw"]]


ENTITY_ATOMS = [
    "&nbsp;", "&copy;", "&eacute;", "&mdash;", "&AMP;", "&Lt;", "&x;", "&_a1;", "&a.b;", "&a-b;", "&a:b;", "&é;",
    "&#0;", "&#1;", "&#8;", "&#11;", "&#31;", "&#x0;", "&#xB;", "&#x1f;", "&#xD800;", "&#xFFFE;", "&#xFFFF;", "&#1114112;",
    "&#55296;", "&#65;", "&#x41;", "&#x10FFFF;", "&#9;", "&#10;", "&#13;", "&#38;", "&#60;",
    "&amp;", "&lt;", "&gt;", "&quot;", "&apos;", "&amp;amp;", "&amp;nbsp;",
    "&#;", "&#x;", "&;", "& ;", "&#12", "&amp", "&&amp;;", "&#xZZ;", "&#-1;", "&# 1;", "&1;", "&#X41;", "%nbsp;",
]
TEXT_COLS = ("label", "hint", "constraint_message", "required_message", "guidance_hint")


def entity_atom(rng):
    r = rng.random()
    if r < 0.6:
        return rng.choice(ENTITY_ATOMS)
    if r < 0.75:
        return "&" + "".join(rng.choice("abcXYZ_09é.-") for _ in range(rng.randint(1, 6))) + ";"
    if r < 0.9:
        return "&#" + str(rng.choice([0, 1, 8, 9, 11, 12, 14, 31, 32, 127, 128, 159, 55295, 55296, 57343, 57344, 65533, 65534, 65535, 65536, 1114111, 1114112, rng.randint(0, 70000)])) + ";"
    return "&#x" + format(rng.choice([0, 1, 0xB, 0x1F, 0x20, 0x7F, 0xD7FF, 0xD800, 0xDFFF, 0xE000, 0xFFFD, 0xFFFE, 0xFFFF, 0x10000, 0x10FFFF, 0x110000, rng.randint(0, 0x11000)]), rng.choice(["x", "X"])) + ";"


def inject_entities(rng, form, p=0.2):
    """entity-like sequences (named with arbitrary names, decimal/hex references incl. illegal code
    points, malformed ones) into plain text cells: cell text is data, `&` must always come out escaped"""
    def mix(v):
        a = entity_atom(rng)
        r = rng.random()
        return a + v if r < 0.3 else v + a if r < 0.6 else v[: len(v) // 2] + a + v[len(v) // 2:]
    for row in form.get("survey", []):
        for k in list(row):
            if k.split("::")[0] in TEXT_COLS and "${" not in row[k] and rng.random() < p:
                row[k] = mix(row[k])
        for k in list(row):
            if k.startswith(CUSTOM_COLS) and rng.random() < p:
                row[k] = mix(row[k])
    for row in form.get("choices") or []:
        for k in list(row):
            if (k.split("::")[0] == "label" or not CHOICE_STD.match(k)) and rng.random() < p:
                row[k] = mix(row[k])
    st = settings_row(form)
    for k in list(st):
        if (k in ("form_title", "version", "style", "instance_xmlns", "public_key", "submission_url") or k.startswith("attribute::")) and rng.random() < p:
            st[k] = mix(st[k])
    return form


def expected_form_id(form, fallback="data"):
    st = settings_row(form)
    if "form_id" in st and st["form_id"] not in (None, ""):
        return st["form_id"]
    if "id_string" in st and st["id_string"] not in (None, ""):
        return st["id_string"]
    return fallback


def general_form(rng: random.Random, big=False) -> dict:
    langs = rng.choice(LANG_SETS)
    form = gen.gen_form(
        rng, langs=langs, plain_text=rng.random() < 0.15, p_ref_in_label=0.3, p_hint=0.5, p_select=0.3,
        p_settings=0.0, n=(1, 20 if big else 9), max_depth=rng.choice([2, 3, 5]),
        p_group=rng.choice([0.1, 0.2]), p_repeat=rng.choice([0.08, 0.2]),
    )
    st = {}
    declared = []
    if rng.random() < 0.5:
        toks = []
        for _ in range(rng.randint(1, 3)):
            if rng.random() < 0.25:
                toks.append(rng.choice(NS_NOISE))
            else:
                p, u = rng.choice(NS_POOL)
                q = rng.choice(['"', "'", ""])
                toks.append(f"{p}={q}{u}{q}")
                if p not in declared:
                    declared.append(p)
        sep = rng.choice([" ", "  ", " \t"]) if rng.random() < 0.3 else " "
        st["namespaces"] = sep.join(toks)

    def attr_name():
        r = rng.random()
        if declared and r < 0.35:
            return rng.choice(declared) + ":" + rng.choice(VALID_LOCAL)
        if r < 0.5:
            return rng.choice(["jr", "odk", "orx"]) + ":" + rng.choice(VALID_LOCAL)
        return rng.choice(VALID_LOCAL)

    def text():
        return gen.adv_text(rng, 5, plain=False)

    # custom attribute columns
    rows = [r for r in form["survey"] if r.get("name")]
    for r in rows:
        if rng.random() < 0.25:
            r[rng.choice(CUSTOM_COLS[:3]) + attr_name()] = text()
        if rng.random() < 0.08:
            r[rng.choice(CUSTOM_COLS) + attr_name()] = text()
    # element names with a declared prefix
    if declared and rng.random() < 0.3:
        qs = [r for r in rows if not r["type"].startswith("begin")]
        if qs:
            r = rng.choice(qs)
            old = r["name"]
            new = rng.choice(declared) + ":" + old.replace(":", "_")
            refs = any(isinstance(v, str) and "${" + old + "}" in v for x in form["survey"] for v in x.values())
            if not refs:
                r["name"] = new
    # choices extra columns
    if form.get("choices") and rng.random() < 0.4:
        for h in rng.sample(["extra", "geometry", "Geo-M.x", "é", "_p", "x-1"], rng.randint(1, 2)):
            for c in form["choices"]:
                if rng.random() < 0.8:
                    c[h] = text()
    # settings
    if rng.random() < 0.6:
        st["form_title"] = text()
    if rng.random() < 0.6:
        st[rng.choice(["form_id", "id_string"])] = rng.choice(FORM_IDS)
    if rng.random() < 0.3:
        st["version"] = rng.choice(["1", "2024010101", 'v"3<', "a&b"])
    if rng.random() < 0.2:
        st["style"] = rng.choice(["pages", "theme-grid", 'a"b', "pages theme-grid"])
    if rng.random() < 0.15:
        st["instance_xmlns"] = rng.choice(["http://inst", "urn:a&b"])
    if rng.random() < 0.1:
        st["prefix"] = rng.choice(["p", "J1!", "<"])
    if rng.random() < 0.1:
        st["delimiter"] = rng.choice(["+", "#", '"'])
    if rng.random() < 0.15:
        st["submission_url"] = rng.choice(["https://s.example/x?a=1&b=2", "http://s"])
    if rng.random() < 0.1:
        st["public_key"] = rng.choice(["MIIB+/=", "k e y"])
    if rng.random() < 0.1:
        st["auto_send"] = rng.choice(["true", "false", "x<y"])
    if rng.random() < 0.1:
        st["auto_delete"] = rng.choice(["true", "false"])
    if rng.random() < 0.1:
        st["name"] = rng.choice(["root", "my-form", "_d", "Data.1"] + ([declared[0] + ":root"] if declared else []))
    for _ in range(rng.choice([0, 0, 0, 1, 2])):
        st["attribute::" + attr_name()] = text()
    if rng.random() < 0.06:
        st["attribute::" + rng.choice(["id", "version", "xmlns", "odk:prefix"])] = text()
    if rng.random() < 0.06:
        st["attribute::xmlns:loc"] = "urn:local"
        st["attribute::loc:attr"] = text()
    if rng.random() < 0.2:
        # a prefixed attribute whose LOCAL name equals one the converter generates on the instance root (id, version,
        # xmlns, odk:prefix, odk:delimiter): minidom's setAttribute evicts by local name — the generated ones must survive
        for _ in range(rng.randint(1, 2)):
            pfx = rng.choice((declared or []) + ["jr", "odk", "orx", "ev"])
            loc = rng.choice(["id", "id", "version", "xmlns", "prefix", "delimiter"])
            st[rng.choice(["attribute::", "attribute::", "instance::"]) + pfx + ":" + loc] = rng.choice(["x", "9", text()])
        if rng.random() < 0.5:
            st.setdefault("version", "7")
        if rng.random() < 0.3:
            st.setdefault("prefix", "pp")
    if rng.random() < 0.12:
        # settings rows accept instance:: columns like any section: attributes of the primary instance root
        for k in rng.sample(["id", "version", "xmlns", "foo", "odk:prefix", "jr:x", "custom-attr"], rng.randint(1, 2)):
            st["instance::" + k] = rng.choice(["hijack", "0", "urn:i", text()])
    if langs and rng.random() < 0.4:
        st["default_language"] = rng.choice(langs)
    if st:
        form["settings"] = [st]
    if rng.random() < (0.2 if st.get("namespaces") else 0.06):
        form["entities"] = [{"dataset": rng.choice(["trees", "people"]), "label": "'x'"}]
    if rng.random() < 0.6:
        inject_entities(rng, form)
    if rng.random() < 0.25:
        inject_local_ns(rng, form)
    if rng.random() < 0.12:
        # reserved-prefix look-alikes in a user-supplied name position (most must be rejected: the prefix is not declared)
        n = reserved_prefix_name(rng)
        r = rng.random()
        named = [x for x in form["survey"] if x.get("name")]
        if r < 0.55 and named:
            rng.choice(named)[rng.choice(CUSTOM_COLS[:3]) + n] = "v"
        elif r < 0.75:
            form.setdefault("settings", [{}])[0]["attribute::" + n] = "v"
        elif r < 0.9:
            form["survey"].append({"type": rng.choice(["text", "note"]), "name": n, "label": "L"})
        else:
            form.setdefault("settings", [{}])[0]["name"] = n
    return form


def inject_local_ns(rng, form):
    """a namespace prefix declared on ONE element through a custom column (`instance::xmlns:p`, `bind::xmlns:p`,
    `body::xmlns:p`) and used on the same element (fine), inside the declaring group (fine), or on a
    different, later, non-descendant element / on another element of the same row (not in scope there: the
    converter has to reject the form; accepting it gives an unbound prefix)"""
    sv = form["survey"]
    idx = [i for i, r in enumerate(sv) if r.get("name")]
    if not idx:
        return form
    p = rng.choice(["lp", "z9", "loc-1", "é"])
    uri = rng.choice(["urn:local", "http://l.example/ns"])
    i = rng.choice(idx)
    r1 = sv[i]
    kind = rng.choice(["instance", "bind", "body"])
    if kind == "body" and r1["type"].split(" ")[0] in ("hidden", "calculate", "start", "end", "today", "deviceid", "username",
                                                       "phonenumber", "email", "xml-external", "csv-external", "background-audio"):
        kind = "instance"
    r1[f"{kind}::xmlns:{p}"] = uri
    where = rng.choice(["same", "same", "child", "later", "later", "other-kind", "earlier"])
    if where == "same":
        r1[f"{kind}::{p}:a"] = "v"
    elif where == "child" and r1["type"].startswith("begin") and i + 1 < len(sv) and sv[i + 1].get("name"):
        sv[i + 1][f"{kind}::{p}:a"] = "v"          # descendant element of the same kind of tree (instance / body)
    elif where == "later" and [j for j in idx if j > i]:
        sv[rng.choice([j for j in idx if j > i])][f"{rng.choice(['instance', 'bind'])}::{p}:a"] = "v"
    elif where == "earlier" and [j for j in idx if j < i]:
        sv[rng.choice([j for j in idx if j < i])][f"{rng.choice(['instance', 'bind'])}::{p}:a"] = "v"
    else:
        other = rng.choice([k for k in ("instance", "bind") if k != kind] or ["bind"])
        r1[f"{other}::{p}:a"] = "v"                # declared on the instance node, used on the row's <bind> (or vice versa)
    return form


# ------------------------------------------------------------------ name probes

# XML 1.0 (5th ed.) NameStartChar / NameChar ranges
NAME_START_RANGES = [
    (0x3A, 0x3A), (0x41, 0x5A), (0x5F, 0x5F), (0x61, 0x7A), (0xC0, 0xD6), (0xD8, 0xF6), (0xF8, 0x2FF), (0x370, 0x37D),
    (0x37F, 0x1FFF), (0x200C, 0x200D), (0x2070, 0x218F), (0x2C00, 0x2FEF), (0x3001, 0xD7FF), (0xF900, 0xFDCF),
    (0xFDF0, 0xFFFD), (0x10000, 0xEFFFF),
]
NAME_EXTRA_RANGES = [(0x2D, 0x2E), (0x30, 0x39), (0xB7, 0xB7), (0x300, 0x36F), (0x203F, 0x2040)]


def boundary_chars():
    """both ends of every NameStartChar / NameChar range, the code points just outside them (the
    holes U+00D7, U+00F7, U+037E, U+0300-036F as a start, …) and a few interior points"""
    pts = set()
    for lo, hi in NAME_START_RANGES + NAME_EXTRA_RANGES:
        pts.update({lo - 1, lo, lo + 1, hi - 1, hi, hi + 1, (lo + hi) // 2})
    pts.update({0x20, 0x21, 0x22, 0x26, 0x27, 0x3C, 0x3E, 0x2F, 0x40, 0x5B, 0x5D, 0x60, 0x7B, 0x7F, 0xA0, 0xAA, 0xB5, 0xBA,
                0x2000, 0x2028, 0x3000, 0xFEFF, 0xFFFE, 0xFFFF, 0xF0000, 0x10FFFF})
    return sorted(chr(p) for p in pts if 0x20 <= p <= 0x10FFFF and not (0xD800 <= p <= 0xDFFF))


BOUNDARY = boundary_chars()


RESERVED_LOOKALIKES = ["xml", "xmlns", "XML", "Xml", "xML", "XMLNS", "XmlNs", "xmlNS", "Xmlns", "xmlx", "xm", "XMLa", "xml-ns", "_xml"]


def reserved_prefix_name(rng):
    """`p:local` where p is `xml` / `xmlns` or a case / spelling variant of them: only the exact lower-case
    `xml` is predeclared for XML parsers, `xmlns` is for declarations only, everything else has to be declared"""
    return rng.choice(RESERVED_LOOKALIKES) + ":" + rng.choice(["lang", "space", "base", "id", "note", "q", "foo", "a-b"])


def probe_name(rng):
    c = rng.choice(BOUNDARY)
    r = rng.random()
    if r < 0.2:
        return reserved_prefix_name(rng)
    if r < 0.25:
        return rng.choice([TYPO_LIT, "a" + TYPO_LIT, TYPO_LIT + "b", "q" + TYPO_LIT + "z", TYPO_LIT[:3], TYPO_LIT[1:]])
    shape = rng.choice(["a{}", "{}a", "{}", "a{}b", "a{}{}", "_{}1", "a.{}", "a-{}"])
    return shape.format(c, rng.choice(BOUNDARY)) if shape.count("{}") == 2 else shape.format(c)


def name_probe_form(rng: random.Random) -> dict:
    """a small form in which one user-supplied XML name sits at a boundary of the XML name
    character classes; most are (rightly) rejected, whatever is accepted must be well-formed"""
    n = probe_name(rng)
    where = rng.choice(["question", "question", "group", "repeat", "form_name", "bind", "instance", "body", "choice_col",
                        "ns_prefix", "attribute", "prefixed_q", "list_name", "choice_name"])
    form = {"survey": [{"type": "text", "name": "q0", "label": "L"}]}
    sv = form["survey"]
    if where == "question":
        sv.append({"type": rng.choice(["text", "integer", "note", "calculate"]), "name": n, "label": "N", "calculation": "1"})
        if rng.random() < 0.5:
            sv.append({"type": "note", "name": "r", "label": "see ${" + n + "}"})
    elif where in ("group", "repeat"):
        sv += [{"type": "begin " + where, "name": n, "label": "G"}, {"type": "text", "name": "in", "label": "I"}, {"type": "end " + where}]
    elif where == "form_name":
        form["settings"] = [{"name": n}]
    elif where in ("bind", "instance", "body"):
        sv[0][where + "::" + n] = "v"
    elif where == "choice_col":
        sv.append({"type": "select_one l", "name": "s", "label": "S"})
        form["choices"] = [{"list_name": "l", "name": "a", "label": "A", n: "v"}]
    elif where == "ns_prefix":
        form["settings"] = [{"namespaces": n + "=http://x.example/ns"}]
        sv[0]["bind::" + n + ":k"] = "v"
    elif where == "attribute":
        form["settings"] = [{"attribute::" + n: "v"}]
    elif where == "prefixed_q":
        form["settings"] = [{"namespaces": "p=http://x.example/ns"}]
        sv.append({"type": "text", "name": rng.choice(["p:" + n, n + ":x"]), "label": "N"})
    elif where == "list_name":
        sv.append({"type": "select_one " + n, "name": "s", "label": "S"})
        form["choices"] = [{"list_name": n, "name": "a", "label": "A"}]
    elif where == "choice_name":
        sv.append({"type": "select_multiple l", "name": "s", "label": "S"})
        form["choices"] = [{"list_name": "l", "name": n, "label": "A"}, {"list_name": "l", "name": "b", "label": "B"}]
    return form


# ------------------------------------------------------------------ random DOM trees for validate_xml_document


SEEN_PREFIXES: list = []   # prefixes declared on any element of the tree under construction (document order)


def dom_name(rng, prefixes):
    r = rng.random()
    if r < 0.45:
        base = rng.choice(["a", "label", "q1", "Geo-M.x", "é", "_u", "x·", "à"])
    elif r < 0.9:
        base = probe_name(rng)
    else:
        base = rng.choice(["", ":", "a:", ":a", "a:b:c", "1a", "a b", "a<b", TYPO_LIT])
    if rng.random() < 0.3:
        return rng.choice(prefixes + ["xml", "xmlns", "nope", "h"]) + ":" + base
    return base


def dom_value(rng):
    r = rng.random()
    if r < 0.93:
        return gen.adv_text(rng, 3, plain=False)
    return gen.adv_text(rng, 2, plain=False) + rng.choice(CTRL + ["\t", "\n", "\r", "\x7f", "\x85", "\ud7ff", "\ue000", "\ufffd"])


def random_named_tree(rng, depth=0, prefixes=None):
    """DOM tree (driver encoding) whose tags / attribute names / namespace declarations / values probe
    what validate_xml_document has to decide; attribute local names are kept distinct so that the
    DOM built by setAttribute has exactly these attributes"""
    if depth == 0:
        del SEEN_PREFIXES[:]
    prefixes = list(prefixes or [])
    attrs, locals_ = [], set()
    def add(k, v):
        loc = k.split(":", 1)[-1]
        if loc not in locals_ and all(k != a[0] for a in attrs):
            locals_.add(loc)
            attrs.append([k, v])
    for _ in range(rng.choice([0, 0, 1, 1, 2])):
        p = rng.choice(["p", "q", "esri", "p", "q", "e-1", "xml", "xmlns", "é", "1x", probe_name(rng), "",
                        rng.choice(RESERVED_LOOKALIKES)])
        v = rng.choice(["http://x", "urn:y", "http://x", "urn:y", "a b", "", dom_value(rng), "http://www.w3.org/2000/xmlns/"])
        add("xmlns:" + p, v)
        if v and p not in ("xml", "xmlns"):
            prefixes.append(p)
            SEEN_PREFIXES.append(p)
    for _ in range(rng.choice([0, 1, 1, 2, 3])):
        add(dom_name(rng, prefixes), dom_value(rng))
    kids = []
    shape = rng.choice(["empty", "text", "elems", "elems", "mixed"]) if depth < 2 else rng.choice(["empty", "text"])
    if shape == "text":
        kids.append({"x": dom_value(rng), "stock": False})
    elif shape in ("elems", "mixed"):
        for _ in range(rng.randint(1, 3)):
            kids.append(random_named_tree(rng, depth + 1, prefixes))
        if shape == "mixed":
            kids.insert(rng.randint(0, len(kids)), {"x": dom_value(rng), "stock": rng.random() < 0.3})
    return {"t": dom_name(rng, prefixes), "a": attrs, "k": kids}


def tree_tags(tree):
    if "x" in tree:
        return []
    out = [tree["t"]]
    for k in tree["k"]:
        out += tree_tags(k)
    return out


def tree_names(tree):
    if "x" in tree:
        return []
    out = [tree["t"]] + [a[0] for a in tree["a"]]
    for k in tree["k"]:
        out += tree_names(k)
    return out


# ------------------------------------------------------------------ directed stream (known shapes)

BAD_NAMES = ["1abc", "-x", "a<b", "a>b", 'a"b', "a&b", "x/y", "a=b", "9", ".a", "a'b", "a{b", "x;y", "a,b"]
UNBOUND = ["foo:bar", "nope:x", "a:b", "xx:y-1", "H:title"]
CTRL = ["\x01", "\x08", "\x0b", "\x0c", "\x1f", "\x00", "\ufffe", "\uffff", "\x0e"]


def _with_select(rng, form):
    if not form.get("choices"):
        form["survey"].append({"type": "select_one dl", "name": "dsel", "label": "Pick"})
        form["choices"] = [{"list_name": "dl", "name": "a", "label": "A"}, {"list_name": "dl", "name": "b", "label": "B"}]
    return form


def directed(rng: random.Random, cls: str) -> dict:
    """a form of the general stream with exactly one known shape injected"""
    for _ in range(50):
        form = general_form(rng)
        if not shapes(form):
            break
    rows = [r for r in form["survey"] if r.get("name")]
    if cls == "F1":
        _with_select(rng, form)
        h = rng.choice(BAD_NAMES)
        for c in form["choices"]:
            c[h] = "v"
    elif cls == "F2":
        bad = rng.choice(BAD_NAMES + ["a b", "two words"])
        r = rng.random()
        if r < 0.6:
            rng.choice(rows)[rng.choice(CUSTOM_COLS[:3]) + bad] = "v"
        elif r < 0.8:
            form.setdefault("settings", [{}])[0]["attribute::" + bad] = "v"
        else:
            st = form.setdefault("settings", [{}])[0]
            p = rng.choice(["1x", "a<b", "-p", "a&b", 'q"x'])
            st["namespaces"] = ((st.get("namespaces") or "") + f" {p}=http://bad").strip()
    elif cls == "F2b":
        st = form.setdefault("settings", [{}])[0]
        tok = rng.choice(["x=", 'y=""', "z=''", "xml=http://a", "xmlns=http://b", "w=http://www.w3.org/2000/xmlns/"])
        st["namespaces"] = ((st.get("namespaces") or "") + " " + tok).strip()
    elif cls == "F3":
        u = rng.choice(UNBOUND)
        r = rng.random()
        if r < 0.45:
            rng.choice(rows)[rng.choice(CUSTOM_COLS[:3]) + u] = "v"
        elif r < 0.6:
            form.setdefault("settings", [{}])[0]["attribute::" + u] = "v"
        elif r < 0.7:
            form.setdefault("settings", [{}])[0]["name"] = u
        else:
            form["survey"].append({"type": rng.choice(["text", "integer", "note"]), "name": u.lower() if u != "H:title" else "zz:q", "label": "L"})
    elif cls == "F3x":
        n = "xmlns:" + rng.choice(["q", "a-b", "é1"])
        if rng.random() < 0.8:
            form["survey"].append({"type": rng.choice(["text", "integer", "note"]), "name": n, "label": "L"})
        else:
            form.setdefault("settings", [{}])[0]["name"] = n
    elif cls == "F5":
        n = rng.choice([TYPO_LIT, "a" + TYPO_LIT, TYPO_LIT + "b", "q" + TYPO_LIT + "z"])
        r = rng.random()
        if r < 0.5:
            form["survey"].append({"type": rng.choice(["text", "integer", "note"]), "name": n, "label": "L"})
        elif r < 0.7:
            rng.choice(rows)[rng.choice(CUSTOM_COLS[:3]) + n] = "v"
        elif r < 0.85:
            _with_select(rng, form)
            for c in form["choices"]:
                c[n] = "v"
        else:
            form.setdefault("settings", [{}])[0]["name"] = n
    elif cls == "F4":
        c = rng.choice(CTRL)
        r = rng.random()
        if r < 0.5:
            row = rng.choice(rows)
            key = rng.choice([k for k in row if k.startswith(("label", "hint"))] or ["hint"])
            row[key] = "a" + c + "b"
        elif r < 0.7 and form.get("choices"):
            ch = rng.choice(form["choices"])
            key = rng.choice([k for k in ch if k.startswith("label")] or ["label"])
            ch[key] = "c" + c
        elif r < 0.85:
            form.setdefault("settings", [{}])[0]["form_title"] = "T" + c
        else:
            rng.choice(rows)["constraint_message"] = c + "m"
            rng.choice(rows).setdefault("bind::foo", "v" + c)
    return form
