"""Observation of C09 on an XForm text + itemsets CSV (what the property talks about, nothing else)."""

from __future__ import annotations

import csv
import io
import xml.etree.ElementTree as ET

from formobs import NS, local

SELECT_TAGS = {"select", "select1", "rank"}


def instance_texts(xform: str) -> list:
    """The text of every `<instance id=…>` element of a compact XForm, in document order."""
    out, i = [], 0
    while True:
        i = xform.find("<instance id=", i)
        if i < 0:
            return out
        j = xform.find(">", i)
        if j < 0:
            return out
        if xform[j - 1] == "/":
            end = j + 1
        else:
            k = xform.find("</instance>", j)
            if k < 0:
                return out
            end = k + len("</instance>")
        out.append(xform[i:end])
        i = end


def observe(xform: str, itemsets) -> dict:
    root = ET.fromstring(xform)
    texts = instance_texts(xform)
    model = root.find("h:head/x:model", NS)
    body = root.find("h:body", NS)
    instances = []
    for inst in model.findall("x:instance", NS)[1:]:
        items = None
        r = inst.find("x:root", NS)
        if r is not None:
            items = [[[local(c.tag), c.text or ""] for c in it] for it in r.findall("x:item", NS)]
        n = len(instances)
        instances.append({"id": inst.get("id"), "src": inst.get("src"), "items": items,
                          "xml": texts[n] if n < len(texts) else None})
    binds = {b.get("nodeset"): b for b in model.findall("x:bind", NS)}
    inputs = {}
    selects = []
    for el in body.iter():
        t = local(el.tag)
        if t == "input":
            lab = el.find("x:label", NS)
            inputs[el.get("ref")] = (lab.text or "") if lab is not None else None
    for el in body.iter():
        t = local(el.tag)
        if t in SELECT_TAGS or (t == "input" and el.get("query") is not None):
            ref = el.get("ref")
            o = {"ref": ref, "tag": "odk:rank" if t == "rank" else t, "itemset": None, "items": [], "query": el.get("query"),
                 "other": None}
            its = el.find("x:itemset", NS)
            if its is not None:
                v = its.find("x:value", NS)
                l = its.find("x:label", NS)
                o["itemset"] = {"nodeset": its.get("nodeset"), "value": v.get("ref") if v is not None else None,
                                "label": l.get("ref") if l is not None else None}
            for it in el.findall("x:item", NS):
                l = it.find("x:label", NS)
                v = it.find("x:value", NS)
                lab = None
                if l is not None:
                    lab = ["ref", l.get("ref")] if l.get("ref") is not None else ["text", "".join(l.itertext())]
                o["items"].append([lab, (v.text or "") if v is not None else None])
            oref = (ref or "") + "_other"
            if oref in binds:
                o["other"] = {"relevant": binds[oref].get("relevant"), "type": binds[oref].get("type"),
                              "input": "yes" if oref in inputs else "no"}
            selects.append(o)
    grid = None
    if itemsets is not None:
        grid = [list(r) for r in csv.reader(io.StringIO(itemsets, newline=""))]
    # every instance('…') the converter itself writes must be declared: the last-saved instance wherever it is read
    # (any attribute value or text of the document), and the instance an itemset reads from
    reads = []
    for el in root.iter():
        vals = list(el.attrib.values()) + [el.text or ""]
        if any("instance('__last-saved')" in v for v in vals):
            reads.append("__last-saved")
            break
    for s_ in selects:
        ns = (s_["itemset"] or {}).get("nodeset") or ""
        i = ns.find("instance('")
        if i >= 0 and (ns.startswith("instance('") or ns.startswith("randomize(instance('")):
            reads.append(ns[i + 10: ns.find("'", i + 10)])
    return {"instances": instances, "selects": selects, "csv": grid, "csv_text": itemsets, "reads": reads}
