"""
C16 observation: structural difference of two XForms as a list of *items*, each naming the node it
is about, so that an oracle failure can be triaged per loss shape (a byte comparison decides
equality; the items only explain a difference).

Item kinds
  ("bind", nodeset, before_attrs | None, after_attrs | None)
  ("itext", lang, text_id, before | None, after | None)          value = [(form, inner xml), …]
  ("translation-attr", lang, before_attrs, after_attrs)
  ("choice-col", instance_id, item_index, tag, before | None, after | None)
  ("instance", instance_id, before_xml | None, after_xml | None)  anything else about an instance
  ("body", ref_of_nearest_control, child_tag, before | None, after | None)
  ("head", what, before, after)                                   title, model attributes, other model children
"""

from __future__ import annotations

import re
import xml.etree.ElementTree as ET

NS = {
    "h": "http://www.w3.org/1999/xhtml",
    "x": "http://www.w3.org/2002/xforms",
}
XF = "{http://www.w3.org/2002/xforms}"


def _ser(e) -> str:
    return ET.tostring(e, encoding="unicode")


def _inner(e) -> str:
    return (e.text or "") + "".join(_ser(c) for c in e)


def _local(tag: str) -> str:
    return tag.split("}", 1)[1] if tag.startswith("{") else tag


def _attrs(e):
    return list(e.attrib.items())


class Doc:
    def __init__(self, text: str):
        self.root = ET.fromstring(text)
        self.head = self.root.find("h:head", NS)
        self.body = self.root.find("h:body", NS)
        self.title = self.head.find("h:title", NS)
        self.model = self.head.find("x:model", NS)
        self.binds = {}
        self.bind_order = []
        self.itext = {}
        self.trans_attr = {}
        self.instances = {}
        self.primary = None
        self.other = []
        self.langs = []
        first = True
        for ch in self.model:
            t = _local(ch.tag)
            if t == "bind":
                ns = ch.attrib.get("nodeset")
                self.binds.setdefault(ns, []).append([(k, v) for k, v in ch.attrib.items() if k != "nodeset"])
                self.bind_order.append(ns)
            elif t == "itext":
                for tr in ch:
                    lang = tr.attrib.get("lang")
                    self.trans_attr[lang] = _attrs(tr)
                    self.langs.append(lang)
                    for tx in tr:
                        self.itext.setdefault((lang, tx.attrib.get("id")), []).extend(
                            (v.attrib.get("form"), _inner(v)) for v in tx
                        )
            elif t == "instance":
                if first and "id" not in ch.attrib:
                    self.primary = ch
                else:
                    self.instances[ch.attrib.get("id")] = ch
                first = False
            else:
                self.other.append(_ser(ch))


def _walk_body(a, b, ref, out):
    """Parallel walk; report the first level at which the two subtrees differ."""
    r = a.attrib.get("ref") or a.attrib.get("nodeset")
    if r and r.startswith("/"):
        ref = r
    if a.tag != b.tag or _attrs(a) != _attrs(b) or (a.text or "") != (b.text or ""):
        out.append(("body", ref, _local(a.tag), _ser(a), _ser(b)))
        return
    ca, cb = list(a), list(b)
    if [c.tag for c in ca] == [c.tag for c in cb]:
        for x, y in zip(ca, cb):
            if (x.tail or "") != (y.tail or ""):
                out.append(("body", ref, _local(x.tag), _ser(x), _ser(y)))
            else:
                _walk_body(x, y, ref, out)
        return
    # children differ as a sequence: align by tag, report per tag
    ta, tb = {}, {}
    for c in ca:
        ta.setdefault(c.tag, []).append(c)
    for c in cb:
        tb.setdefault(c.tag, []).append(c)
    for tag in list(dict.fromkeys([c.tag for c in ca] + [c.tag for c in cb])):
        la, lb = ta.get(tag, []), tb.get(tag, [])
        if len(la) == len(lb):
            for x, y in zip(la, lb):
                _walk_body(x, y, ref, out)
        else:
            out.append(("body", ref, _local(tag), [_ser(x) for x in la] or None, [_ser(y) for y in lb] or None))


def diff_items(before: str, after: str) -> list:
    if before == after:
        return []
    A, B = Doc(before), Doc(after)
    out = []
    if _ser(A.title) != _ser(B.title):
        out.append(("head", "title", _ser(A.title), _ser(B.title)))
    if _attrs(A.root) != _attrs(B.root) or _attrs(A.model) != _attrs(B.model) or _attrs(A.head) != _attrs(B.head):
        out.append(("head", "attributes", _attrs(A.model), _attrs(B.model)))
    if A.other != B.other:
        out.append(("head", "model-children", A.other, B.other))
    # binds
    for ns in dict.fromkeys(list(A.binds) + list(B.binds)):
        a, b = A.binds.get(ns), B.binds.get(ns)
        if a != b:
            out.append(("bind", ns, a, b))
    if not any(i[0] == "bind" for i in out) and A.bind_order != B.bind_order:
        out.append(("head", "bind-order", A.bind_order, B.bind_order))
    # itext
    for key in dict.fromkeys(list(A.itext) + list(B.itext)):
        a, b = A.itext.get(key), B.itext.get(key)
        if a != b:
            out.append(("itext", key[0], key[1], a, b, key[0] not in B.langs or key[0] not in A.langs))
    for lang in A.trans_attr:
        if lang in B.trans_attr and A.trans_attr[lang] != B.trans_attr[lang]:
            out.append(("translation-attr", lang, A.trans_attr[lang], B.trans_attr[lang]))
    if not any(i[0] == "itext" for i in out) and list(A.itext) != list(B.itext):
        out.append(("head", "itext-order", list(A.itext), list(B.itext)))
    # primary instance
    if (A.primary is None) != (B.primary is None) or (A.primary is not None and _ser(A.primary) != _ser(B.primary)):
        out.append(("instance", None, A.primary is not None and _ser(A.primary), B.primary is not None and _ser(B.primary)))
    # secondary instances
    for iid in dict.fromkeys(list(A.instances) + list(B.instances)):
        a, b = A.instances.get(iid), B.instances.get(iid)
        if a is None or b is None:
            out.append(("instance", iid, a is not None and _ser(a), b is not None and _ser(b)))
            continue
        if _ser(a) == _ser(b):
            continue
        ra, rb = a.find(XF + "root"), b.find(XF + "root")
        ok = ra is not None and rb is not None and _attrs(a) == _attrs(b) and len(ra) == len(rb)
        if ok:
            sub = []
            for idx, (ia, ib) in enumerate(zip(ra, rb)):
                da = {_local(c.tag): _inner(c) for c in ia}
                db = {_local(c.tag): _inner(c) for c in ib}
                if len(da) != len(ia) or len(db) != len(ib):
                    ok = False
                    break
                for tag in dict.fromkeys(list(da) + list(db)):
                    if da.get(tag) != db.get(tag):
                        sub.append(("choice-col", iid, idx, tag, da.get(tag), db.get(tag)))
                # order of the common columns
                common_a = [_local(c.tag) for c in ia if _local(c.tag) in db]
                common_b = [_local(c.tag) for c in ib if _local(c.tag) in da]
                if common_a != common_b:
                    ok = False
                    break
            if ok:
                out.extend(sub)
        if not ok:
            out.append(("instance", iid, _ser(a), _ser(b)))
    # body
    if _ser(A.body) != _ser(B.body):
        n = len(out)
        _walk_body(A.body, B.body, None, out)
        if len(out) == n:
            out.append(("body", None, "body", _ser(A.body), _ser(B.body)))
    if not out:
        out.append(("head", "text-differs-but-no-structural-item", before[:200], after[:200]))
    return out


ITEXT_ID = re.compile(r"^(?P<path>/.*?):(?P<what>label|hint|guidance_hint|jr:constraintMsg|jr:requiredMsg|jr:noAppErrorString)$")
