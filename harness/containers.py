"""
Containers and delivery channels for C12.

An *abstract workbook* (AW) is plain data:

    {"sheets": [{"name": str, "header": [str, …], "rows": [[str, …], …]}, …]}

cells are canonical text ("" = empty cell).  This module renders an AW into every container
pyxform reads (dict, Markdown, CSV, XLSX/XLSM via openpyxl, `.xls` through a stand-in for xlrd's
`Book` that feeds pyxform's *own* xls code), and delivers a rendered container through every
channel (`path`, `bytes`, `BytesIO`, open binary file, `str`).  Nothing here decides anything:
the oracle and the matchers live in props/c12.py.
"""

from __future__ import annotations

import csv
import io
import json
import os
import re
import shutil
import tempfile
from pathlib import Path

from vcore import REPO  # noqa: F401  (sys.path side effect: /repo or PYXFORM_REPO first)

SUPPORTED = ("survey", "choices", "settings", "external_choices", "entities", "osm")
NBSP = "\u00a0"

# --------------------------------------------------------------------------- canonical dict


def canon_rows(sheet: dict) -> list[dict]:
    """What a sheet *means*: header-keyed rows of the non-empty cells; cells beyond the header
    row and cells under an empty header have no key and are not content."""
    hdr = sheet["header"]
    out = []
    for r in sheet["rows"]:
        d = {}
        for h, c in zip(hdr, r):
            if h != "" and c != "":
                d[h] = c
        out.append(d)
    return out


def strip_trailing_blank(rows: list[dict]) -> list[dict]:
    rows = list(rows)
    while rows and not rows[-1]:
        rows.pop()
    return rows


def to_dict(aw: dict, fallback: str | None = None, keep_unsupported: bool = False,
            drop_blank_rows: bool = False) -> dict:
    """The dict container of an AW (the reference channel).  Unsupported sheets are left out
    (as the md / xls / xlsx readers do) unless `keep_unsupported` (then F26 shows)."""
    out = {}
    names = [s["name"] for s in aw["sheets"]]
    single = len(aw["sheets"]) == 1
    for s in aw["sheets"]:
        key = s["name"].lower()
        if key not in SUPPORTED:
            if single:
                key = "survey"
            elif keep_unsupported:
                pass
            else:
                continue
        rows = strip_trailing_blank(canon_rows(s))
        if drop_blank_rows:
            rows = [r for r in rows if r]
        out[key] = rows
        cols = []
        for h in s["header"]:
            if h != "" and h not in cols:
                cols.append(h)
        out[key + "_header"] = [{c: None for c in cols}] if cols else []
    out["sheet_names"] = names
    if fallback is not None:
        out["fallback_form_name"] = fallback
    return out


# --------------------------------------------------------------------------- markdown / csv


def md_escape(c: str) -> str:
    return c.replace("|", "\\|")


def md_ok_cell(c: str) -> bool:
    return "\n" not in c and c == c.strip()


def md_line(cells: list[str]) -> str:
    return "|" + "|".join(" " + md_escape(c) + " " for c in cells) + "|"


def to_md(aw: dict) -> str:
    """`| name |` / `|  | h1 | h2 |` / `|  | c1 | c2 |`, lines joined by '\n' (= Backends.renderMd)."""
    lines = []
    for s in aw["sheets"]:
        lines.append(md_line([s["name"]]))
        lines.append(md_line(["", *s["header"]]))
        for r in s["rows"]:
            lines.append(md_line(["", *r]))
    return "\n".join(lines)


def csv_rows(aw: dict) -> list[list[str]]:
    rows = []
    for s in aw["sheets"]:
        rows.append([s["name"]])
        rows.append(["", *s["header"]])
        for r in s["rows"]:
            # a data record always has >= 2 fields (a one-field record is a sheet-title record)
            rows.append(["", *r] if r else ["", ""])
    return rows


def write_csv(rows: list[list[str]], quoting=csv.QUOTE_ALL, lineterminator="\r\n") -> str:
    buf = io.StringIO(newline="")
    w = csv.writer(buf, quoting=quoting, lineterminator=lineterminator)
    for r in rows:
        w.writerow(r)
    return buf.getvalue()


def to_csv(aw: dict, quoting=csv.QUOTE_ALL, lineterminator="\r\n", pad=None) -> str:
    """`pad(cell) -> cell` may add surrounding blanks to non-empty cells (csv_to_dict strips them)."""
    rows = csv_rows(aw)
    if pad is not None:
        rows = [r if len(r) < 2 else [r[0], *[pad(c) if c else c for c in r[1:]]] for r in rows]
    return write_csv(rows, quoting, lineterminator)


# --------------------------------------------------------------------------- typed cells

RE_INT = re.compile(r"-?(0|[1-9][0-9]*)\Z")
RE_DEC = re.compile(r"-?(0|[1-9][0-9]*)\.[0-9]+\Z")


def typings(text: str) -> list[str]:
    """Cell typings under which a spreadsheet shows exactly `text`."""
    t = ["text"]
    if text == "":
        return ["none", "blank"]
    if RE_INT.match(text) and len(text) < 15 and text != "-0":
        t += ["int", "ifloat"]
    elif RE_DEC.match(text) and len(text) < 25:
        # any decimal that is the shortest round-tripping spelling of its double (up to 17 digits)
        try:
            f = float(text)
            if repr(f) == text and not f.is_integer():
                t.append("float")
        except ValueError:
            pass
    if text in ("TRUE", "FALSE"):
        t.append("bool")
    t += ["padded", "nbsp_padded"]
    return t


def typed_value(text: str, typing: str, pad: tuple[str, str] = (" ", "  ")):
    """The Python value stored in an xlsx cell."""
    if typing == "none":
        return None
    if typing == "blank":
        return pad[0] + pad[1]
    if typing == "int":
        return int(text)
    if typing == "ifloat":
        return float(int(text))
    if typing == "float":
        return float(text)
    if typing == "bool":
        return text == "TRUE"
    if typing == "padded":
        return pad[0] + text + pad[1]
    if typing == "nbsp_padded":
        return NBSP + text + " " + NBSP
    return text


def typed_grid(aw: dict, choose) -> list[dict]:
    """Per sheet a full grid (header row first) of (typing, value) — `choose(text, is_header)`
    picks the typing.  Header cells stay text (optionally padded)."""
    out = []
    for s in aw["sheets"]:
        grid = []
        hrow = []
        for h in s["header"]:
            ty = choose(h, True)
            hrow.append((ty, typed_value(h, ty)))
        grid.append(hrow)
        for r in s["rows"]:
            row = []
            for c in r:
                ty = choose(c, False)
                row.append((ty, typed_value(c, ty)))
            grid.append(row)
        out.append({"name": s["name"], "grid": grid})
    return out


# --------------------------------------------------------------------------- xlsx / xlsm


def xlsx_sheet_title_ok(name: str) -> bool:
    return 0 < len(name) <= 31 and not re.search(r"[\\*?:/\[\]]", name)


def xlsx_text_ok(s: str) -> bool:
    # openpyxl refuses control characters; "_xHHHH_" is an escape of the file format
    return not re.search(r"[\x00-\x08\x0b\x0c\x0e-\x1f]", s) and not re.search(r"_x[0-9A-Fa-f]{4}_", s) and "\r" not in s


def to_xlsx(grids: list[dict]) -> bytes:
    """openpyxl writes an integral float as `<v>42</v>` (read back as int): cells typed `ifloat` are
    rewritten to `<v>42.0</v>` in the sheet XML, which openpyxl reads as the float 42.0 — the value
    `xlsx_value_to_str` must spell `42`."""
    import zipfile

    import openpyxl
    from openpyxl.utils import get_column_letter

    wb = openpyxl.Workbook()
    wb.remove(wb.active)
    ifloats = {}
    literals = {}
    for si, g in enumerate(grids, start=1):
        ws = wb.create_sheet(title=g["name"])
        for ri, row in enumerate(g["grid"], start=1):
            for ci, (ty, v) in enumerate(row, start=1):
                if v is None:
                    continue
                cell = ws.cell(row=ri, column=ci)
                cell.value = v
                if isinstance(v, str):
                    cell.data_type = "s"  # never a formula
                if ty == "ifloat":
                    ifloats.setdefault(si, []).append(f"{get_column_letter(ci)}{ri}")
                elif ty == "float":
                    # openpyxl serialises floats with %.16g; write the exact shortest repr instead
                    literals.setdefault(si, {})[f"{get_column_letter(ci)}{ri}"] = repr(v)
    buf = io.BytesIO()
    wb.save(buf)
    if not ifloats and not literals:
        return buf.getvalue()
    out = io.BytesIO()
    with zipfile.ZipFile(io.BytesIO(buf.getvalue())) as zin, zipfile.ZipFile(out, "w", zipfile.ZIP_DEFLATED) as zout:
        for item in zin.infolist():
            data = zin.read(item.filename)
            m = re.fullmatch(r"xl/worksheets/sheet(\d+)\.xml", item.filename)
            if m and (int(m.group(1)) in ifloats or int(m.group(1)) in literals):
                text = data.decode("utf-8")
                for ref in ifloats.get(int(m.group(1)), []):
                    text, n = re.subn(r'(<c r="%s"[^>]*><v>)(-?\d+)(</v>)' % ref, r"\g<1>\g<2>.0\g<3>", text)
                for ref, lit in literals.get(int(m.group(1)), {}).items():
                    text, n = re.subn(r'(<c r="%s"[^>]*><v>)([^<]*)(</v>)' % ref, lambda mm: mm.group(1) + lit + mm.group(3), text)
                data = text.encode("utf-8")
            zout.writestr(item, data)
    return out.getvalue()


# --------------------------------------------------------------------------- stand-in xls

FAKE_XLS_MAGIC = b"\xd0\xcf\x11\xe0FAKE-XLS-STANDIN\n"


class FakeSheet:
    def __init__(self, name, grid):
        from xlrd.sheet import Cell

        self.name = name
        self.ncols = max((len(r) for r in grid), default=0)
        self._rows = []
        for r in grid:
            cells = [Cell(ct, v) for ct, v in r]
            cells += [Cell(0, "")] * (self.ncols - len(cells))  # xlrd pads rows (ragged_rows=False)
            self._rows.append(cells)
        self.nrows = len(self._rows)

    def get_rows(self):
        return (r for r in self._rows)

    def cell(self, r, c):
        return self._rows[r][c]

    def row(self, r):
        return self._rows[r]

    def row_values(self, r):
        return [c.value for c in self._rows[r]]


class FakeBook:
    """What pyxform's xls code touches of an xlrd Book: sheets(), datemode, release_resources()."""

    datemode = 0

    def __init__(self, sheets):
        self._sheets = [FakeSheet(s["name"], s["grid"]) for s in sheets]

    def sheets(self):
        return self._sheets

    def release_resources(self):
        pass


def xls_cell(typing: str, value):
    """(ctype, value) as xlrd would deliver the typed cell (all numbers are floats in BIFF)."""
    if typing == "none":
        return (0, "")
    if typing in ("int", "ifloat", "float"):
        return (2, float(value))
    if typing == "bool":
        return (4, 1 if value else 0)
    return (1, value)


def to_fake_xls(grids: list[dict]) -> bytes:
    sheets = [
        {"name": g["name"], "grid": [[list(xls_cell(ty, v)) for ty, v in row] for row in g["grid"]]}
        for g in grids
    ]
    return FAKE_XLS_MAGIC + json.dumps(sheets).encode("utf-8")


_installed = False


def install_fake_xlrd():
    """Route `xlrd_open(file_contents=<stand-in bytes>)` inside pyxform.xls2json_backends to the
    stand-in Book; anything else goes to the real xlrd."""
    global _installed
    if _installed:
        return
    import pyxform.xls2json_backends as b

    real = b.xlrd_open

    def fake_open(*a, **kw):
        fc = kw.get("file_contents")
        if isinstance(fc, bytes | bytearray) and bytes(fc).startswith(FAKE_XLS_MAGIC):
            sheets = json.loads(bytes(fc)[len(FAKE_XLS_MAGIC):].decode("utf-8"))
            for s in sheets:
                s["grid"] = [[tuple(c) for c in row] for row in s["grid"]]
            return FakeBook(sheets)
        return real(*a, **kw)

    b.xlrd_open = fake_open
    _installed = True


# --------------------------------------------------------------------------- channels

EXT = {"md": ".md", "csv": ".csv", "xlsx": ".xlsx", "xlsm": ".xlsm", "xls": ".xls"}


class Scratch:
    """Private temp directory (under TMPDIR if set), removed on close."""

    def __init__(self):
        base = os.environ.get("C12_TMPDIR") or os.environ.get("TMPDIR") or None
        if base:
            Path(base).mkdir(parents=True, exist_ok=True)
        self.dir = Path(tempfile.mkdtemp(prefix="pyxv-c12-", dir=base))
        self.n = 0
        self.tops = {}

    def file(self, stem: str, ext: str, data: bytes, subdirs: list[str] | None = None) -> Path:
        """Write `data` to <private dir>/f<n>/<subdirs…>/<stem><ext>; `.top` of the result is the
        directory to remove."""
        self.n += 1
        top = self.dir / f"f{self.n}"
        d = top
        for sd in subdirs or []:
            d = d / sd
        d.mkdir(parents=True)
        p = d / (stem + ext)
        p.write_bytes(data)
        self.tops[str(p)] = top
        return p

    def close(self):
        shutil.rmtree(self.dir, ignore_errors=True)


def channels_for(container: str) -> list[str]:
    # bytesio_end: a BytesIO the content was just written to (position at the end);
    # bytesio_peeked: a BytesIO whose first bytes were read; bytesio_twice: the same BytesIO converted a second time
    ch = ["path", "pathlike", "bytes", "bytesio", "file", "bytesio_end", "bytesio_peeked", "bytesio_twice"]
    if container in ("md", "csv"):
        ch.append("str")
    return ch


def path_stem(name: str) -> str:
    """The harness's own reading of "the stem of a file name": the name without its last suffix, where a
    suffix starts at the last '.', which must be neither the first nor the last character."""
    i = name.rfind(".")
    return name[:i] if 0 < i < len(name) - 1 else name


SUFFIX_VARIANTS = ["{ext}", "{ext}", "{ext}", "{EXT}", "{Ext}", ".txt", ".markdown", ".dat", ".v2", "", ".backup{ext}", ".{ext_}_old", "."]


def file_name(rng, container: str, stem: str) -> str:
    """A file name for a container: the canonical suffix, its upper / capitalised spelling, a foreign or
    missing suffix, several suffixes, a trailing dot."""
    ext = EXT[container]
    v = rng.choice(SUFFIX_VARIANTS)
    return stem + v.format(ext=ext, EXT=ext.upper(), Ext="." + ext[1:].capitalize(), ext_=ext[1:])


DIR_KINDS = ["plain", "plain", "plain", "long", "long", "very_long", "spaces", "non_ascii", "dotted", "mixed"]


def unusual_dirs(rng, kind: str) -> list[str]:
    """Directory components under which a workbook may well be stored: a long total path made of short
    components (Linux: 4096 bytes in total, 255 per component), spaces, non-ASCII letters, dots in
    directory names (incl. names that look like files of a supported type)."""
    if kind == "plain":
        return []
    if kind == "long":  # total path > 260 characters
        return [f"folder_{i:02d}_" + "x" * rng.randint(5, 20) for i in range(rng.randint(14, 20))]
    if kind == "very_long":  # > 1000 characters
        return ["d" * rng.randint(40, 120) for _ in range(rng.randint(12, 16))]
    if kind == "spaces":
        return ["My Documents", "field work 2024 ", " forms (final)"]
    if kind == "non_ascii":
        return ["données", "调查", "опрос", "été 2024"]
    if kind == "dotted":
        return ["v1.2", "forms.md", "archive.xlsx", ".hidden", "a.b.c"]
    return ["Ünï code dir", "v2.0.backup"] + ["long component " + "y" * 30 for _ in range(rng.randint(6, 9))]


def deliver(container: str, data, channel: str, scratch: Scratch, stem: str = "data", name: str | None = None,
            subdirs: list[str] | None = None):
    """Returns (xlsform argument, cleanup callable, supplies_stem: bool).  `name` = the whole file name
    (default: stem + the container's canonical suffix); `subdirs` = directory components below the
    private temp directory."""
    raw = data.encode("utf-8") if isinstance(data, str) else data
    if channel == "str":
        return data, (lambda: None), False
    if channel == "bytes":
        return raw, (lambda: None), False
    if channel in ("bytesio", "bytesio_twice"):
        return io.BytesIO(raw), (lambda: None), False
    if channel == "bytesio_end":
        b = io.BytesIO()
        b.write(raw)
        return b, (lambda: None), False
    if channel == "bytesio_peeked":
        b = io.BytesIO(raw)
        b.read(4)
        return b, (lambda: None), False
    p = scratch.file(name, "", raw, subdirs) if name is not None else scratch.file(stem, EXT[container], raw, subdirs)

    def rm():
        shutil.rmtree(scratch.tops.pop(str(p), p.parent), ignore_errors=True)

    if channel == "path":
        return str(p), rm, True
    if channel == "pathlike":
        return p, rm, True
    if channel == "file":
        fh = open(p, "rb")  # noqa: SIM115

        def rm2():
            fh.close()
            rm()

        return fh, rm2, False
    raise ValueError(channel)
